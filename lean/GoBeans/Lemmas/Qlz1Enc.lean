/-
  QuickLZ (C10) — the compressor half of the level-1 round trip, part 1: what one pass of the first loop of
  `Compress(x, 1)` does (`cstep1_spec`): a literal, or a match token in one of the three forms whose length / hash slot
  the decoder's arithmetic `tok1` recovers (`tok1Enc3`, `tok1EncS`, `tok1EncL`), together with the raw facts about the
  tables (`hashtable`, `cachetable`, `hashCounter`, `lits`) that the table invariant (`Qlz1Tbl`) needs.  Core-only.
-/
import GoBeans.Lemmas.Qlz1Dec
set_option linter.unusedVariables false
set_option linter.unusedSimpArgs false
namespace QlzRT
open Qlz QlzLemmas

/-! ## the match extension -/

theorem extend1_spec (s : Buf) (o oldSrc rem : Nat) : ∀ (fuel src0 r : Nat), extend1 s o oldSrc rem fuel src0 = some r →
    src0 ≤ r ∧ (src0 - oldSrc ≤ rem → r - oldSrc ≤ rem) ∧ ∀ i, src0 ≤ i → i < r → s[o + (i - oldSrc)]? = s[i]? := by
  intro fuel
  induction fuel with
  | zero => intro src0 r h; simp [extend1] at h; subst h; exact ⟨Nat.le_refl _, id, fun i h1 h2 => by omega⟩
  | succ f ih =>
    intro src0 r h
    unfold extend1 at h
    split at h
    · rename_i a b ha hb
      split at h
      · rename_i hc
        obtain ⟨h1, h2, h3⟩ := ih _ _ h
        refine ⟨by omega, fun hr => h2 (by omega), ?_⟩
        intro i hi1 hi2
        by_cases hi : i = src0
        · subst hi; rw [ha, hb, hc.1]
        · exact h3 i (by omega) hi2
      · cases h
        exact ⟨Nat.le_refl _, id, fun i h1 h2 => by omega⟩
    · contradiction

/-- the length search of a level-1 match (quicklz.go:150-164): bytes 4, 5 unrolled, then the loop -/
def srcE1 (s : Buf) (o src remaining : Nat) : Option Nat :=
  let oldSrc := src
  let src4 := src + 4
  match s[o + (src4 - oldSrc)]?, s[src4]? with
  | some a, some b =>
    if a = b then
      let src5 := src4 + 1
      match s[o + (src5 - oldSrc)]?, s[src5]? with
      | some a, some b => if a = b then extend1 s o oldSrc remaining 300 (src5 + 1) else some src5
      | _, _ => none
    else some src4
  | _, _ => none

theorem srcE1_spec {s : Buf} {o src rem r : Nat} (h : srcE1 s o src rem = some r) :
    src + 4 ≤ r ∧ (6 ≤ rem → r - src ≤ rem) ∧ ∀ i, src + 4 ≤ i → i < r → s[o + (i - src)]? = s[i]? := by
  unfold srcE1 at h
  simp only at h
  split at h
  · rename_i a b ha hb
    split at h
    · rename_i hab
      split at h
      · rename_i a' b' ha' hb'
        split at h
        · rename_i hab'
          obtain ⟨h1, h2, h3⟩ := extend1_spec _ _ _ _ _ _ _ h
          refine ⟨by omega, fun hr => by have := h2 (by omega); omega, ?_⟩
          intro i hi1 hi2
          by_cases h4 : i = src + 4
          · subst h4; rw [ha, hb, hab]
          · by_cases h5 : i = src + 4 + 1
            · subst h5; rw [ha', hb', hab']
            · exact h3 i (by omega) hi2
        · cases h
          refine ⟨by omega, fun hr => by omega, ?_⟩
          intro i hi1 hi2
          have : i = src + 4 := by omega
          subst this; rw [ha, hb, hab]
      · contradiction
    · cases h
      exact ⟨by omega, fun hr => by omega, fun i h1 h2 => by omega⟩
  · contradiction

/-! ## the three token forms: what the encoder writes is what the decoder reads -/

/-- `enc` written little-endian in `len` bytes is a level-1 token that decodes to (`ml`, slot `hash`) whatever follows -/
def Tok1Enc (enc len ml hash : Nat) : Prop :=
  2 ≤ len ∧ len ≤ 3 ∧ enc < 2 ^ (8 * len) ∧ ∀ junk, junk < 2 ^ (24 - 8 * len) → tok1 (enc + 2 ^ (8 * len) * junk) = (ml, hash, len)

theorem tok1Enc3 (hash : Nat) (hh : hash < 4096) : Tok1Enc (1 ||| (hash <<< 4)) 2 3 hash := by
  have e : 1 ||| (hash <<< 4) = 1 + hash * 16 := by rw [or_shl _ _ _ (by omega)]
  rw [e]
  refine ⟨by omega, by omega, by omega, ?_⟩
  intro junk _
  unfold tok1
  simp only [show (2 : Nat) ^ (8 * 2) = 65536 by rfl]
  rw [if_pos (by omega)]
  congr 1
  · omega
  · congr 1; omega

theorem tok1EncS (hash ml : Nat) (hh : hash < 4096) (h1 : 4 ≤ ml) (h2 : ml < 18) : Tok1Enc ((hash <<< 4) ||| (ml - 2)) 2 ml hash := by
  have e : (hash <<< 4) ||| (ml - 2) = hash * 16 + (ml - 2) := by
    rw [Nat.or_comm, or_shl _ _ _ (by omega)]; omega
  rw [e]
  refine ⟨by omega, by omega, by omega, ?_⟩
  intro junk _
  unfold tok1
  simp only [show (2 : Nat) ^ (8 * 2) = 65536 by rfl]
  rw [if_pos (by omega)]
  congr 1
  · omega
  · congr 1; omega

theorem tok1EncL (hash ml : Nat) (hh : hash < 4096) (h1 : 18 ≤ ml) (h2 : ml ≤ 255) : Tok1Enc ((hash <<< 4) ||| (ml <<< 16)) 3 ml hash := by
  have e : (hash <<< 4) ||| (ml <<< 16) = hash * 16 + ml * 65536 := by
    rw [Nat.shiftLeft_eq hash, or_shl _ _ _ (by omega)]
  rw [e]
  refine ⟨by omega, by omega, by omega, ?_⟩
  intro junk hj
  have : junk = 0 := by simp at hj; exact hj
  subst this
  unfold tok1
  simp only [show (2 : Nat) ^ (8 * 3) = 16777216 by rfl]
  rw [if_neg (by omega)]
  congr 1
  · omega
  · congr 1; omega

/-- the two inlined byte writes of a short token (quicklz.go:145-146, 171-172) -/
theorem wr2_spec {dest d1 d : Buf} {dst f : Nat} (h1 : wr dest dst (f % 256).toUInt8 = some d1)
    (h2 : wr d1 (dst + 1) ((f >>> 8) % 256).toUInt8 = some d) :
    d.size = dest.size ∧ dst + 2 ≤ d.size ∧ (∀ j, j < dst → d[j]? = dest[j]?) ∧ (∀ j, j < 2 → d[dst + j]? = some (byteOf f j)) := by
  have hlt := wr_some_lt h2
  rw [wr_size h1] at hlt
  refine ⟨by rw [wr_size h2, wr_size h1], by rw [wr_size h2, wr_size h1]; omega, ?_, ?_⟩
  · intro j hj
    rw [wr_get h2 j, if_neg (by omega), wr_get h1 j, if_neg (by omega)]
  · intro j hj
    have : j = 0 ∨ j = 1 := by omega
    rcases this with rfl | rfl
    · rw [wr_get h2, if_neg (by omega), wr_get h1, if_pos (by omega)]
      simp [byteOf]
    · rw [wr_get h2, if_pos rfl]
      simp [byteOf]

/-! ## one pass of the level-1 compressor -/

/-- the "run of one byte" exception to `src - o > MINOFFSET` (quicklz.go:139) -/
def Rep1 (s : Buf) (src o lits : Nat) : Prop :=
  src = o + 1 ∧ lits ≥ 3 ∧ src > 3 ∧ s[src]?.getD 0 = s[src - 3]?.getD 0 ∧ s[src]?.getD 0 = s[src - 2]?.getD 0
    ∧ s[src]?.getD 0 = s[src - 1]?.getD 0 ∧ s[src]?.getD 0 = s[src + 1]?.getD 0 ∧ s[src]?.getD 0 = s[src + 2]?.getD 0

/-- what one pass of the first loop (after the control-word handling) does at level 1 -/
inductive TokStep1 (s : Buf) (st st' : CSt) : Prop
  | lit (b b2 : UInt8) : st'.src = st.src + 1 → st'.dst = st.dst + 1 → st'.cwordVal = st.cwordVal >>> 1 →
      s[st.src]? = some b → st'.dest[st.dst]? = some b → s[st.src + 1 + 2]? = some b2 →
      st'.fetch = ((st.fetch >>> 8) &&& 0xffff) ||| (b2.toNat <<< 16) → st'.lits = st.lits + 1 →
      st'.hc = st.hc.setIfInBounds (hashOf st.fetch) 1 → TokStep1 s st st'
  | mat (ml o cached enc len : Nat) (cnt : UInt8) : st'.src = st.src + ml → st'.dst = st.dst + len →
      st'.cwordVal = (st.cwordVal >>> 1) ||| 0x80000000 →
      (∀ j, j < len → st'.dest[st.dst + j]? = some (byteOf enc j)) → Tok1Enc enc len ml (hashOf st.fetch) →
      3 ≤ ml → st.src + ml + 4 ≤ s.size →
      st.ht[hashOf st.fetch]? = some o → st.cache[hashOf st.fetch]? = some cached → st.hc[hashOf st.fetch]? = some cnt →
      cached ^^^ st.fetch = 0 → cnt ≠ 0 → ((st.src : Int) - (o : Int) > 2 ∨ Rep1 s st.src o st.lits) →
      (∀ j, 3 ≤ j → j < ml → s[o + j]? = s[st.src + j]?) →
      fastRead s st'.src 3 = some st'.fetch → st'.lits = 0 → st'.hc = st.hc → TokStep1 s st st'

theorem cstep1_spec {s : Buf} {st st' : CSt} (h : cstep1 s st = some st') (hsrc : (st.src : Int) ≤ (s.size : Int) - 11) :
    st'.cwordPtr = st.cwordPtr ∧ st'.dest.size = st.dest.size ∧ st'.dst ≤ st'.dest.size
      ∧ (∀ j, j < st.dst → st'.dest[j]? = st.dest[j]?)
      ∧ st'.ht = st.ht.setIfInBounds (hashOf st.fetch) st.src ∧ st'.cache = st.cache.setIfInBounds (hashOf st.fetch) st.fetch
      ∧ TokStep1 s st st' := by
  unfold cstep1 at h
  simp only at h
  split at h
  · rename_i o cached cnt ho hcached hcnt
    split at h
    · -- a match
      rename_i hcond
      obtain ⟨hc1, hc2, hc3⟩ := hcond
      have hrep : ((st.src : Int) - (o : Int) > 2 ∨ Rep1 s st.src o st.lits) := by
        rcases hc3 with h3 | h3
        · exact Or.inl h3
        · right
          simp only [decide_eq_true_eq] at h3
          exact h3
      split at h
      · rename_i a b ha hb
        split at h
        · -- three bytes
          rename_i hne
          split at h
          · contradiction
          · rename_i d1 hw1
            split at h
            · contradiction
            · rename_i d hw2
              split at h
              · contradiction
              · rename_i f' hf'
                simp only [Option.some.injEq] at h
                subst h
                obtain ⟨e1, e2, e3, e4⟩ := wr2_spec hw1 hw2
                refine ⟨rfl, e1, e2, e3, rfl, rfl, ?_⟩
                exact TokStep1.mat 3 o cached _ 2 cnt rfl rfl rfl e4 (tok1Enc3 _ (hashOf_lt _)) (by omega)
                  (by show st.src + 3 + 4 ≤ s.size; omega) ho hcached hcnt hc1 hc2 hrep
                  (by intro j h1 h2; omega) hf' rfl rfl
        · -- four bytes or more
          rename_i heq
          have hab : a = b := Decidable.not_not.mp heq
          split at h
          · contradiction
          · rename_i src' hsrcE
            have hsE : srcE1 s o st.src (if (s.size : Int) - 4 - (st.src : Int) + 1 - 1 ≤ 255 then ((s.size : Int) - 4 - (st.src : Int) + 1 - 1).toNat else 255) = some src' := hsrcE
            obtain ⟨g1, g2, g3⟩ := srcE1_spec hsE
            have hext : ∀ j, 3 ≤ j → j < src' - st.src → s[o + j]? = s[st.src + j]? := by
              intro j h1 h2
              by_cases hj : j = 3
              · subst hj; rw [ha, hb, hab]
              · have := g3 (st.src + j) (by omega) (by omega)
                rw [show st.src + j - st.src = j by omega] at this
                exact this
            have hend : st.src + (src' - st.src) + 4 ≤ s.size := by
              have := g2 (by split <;> omega)
              split at this <;> omega
            have hml255 : src' - st.src ≤ 255 := by
              have := g2 (by split <;> omega)
              split at this <;> omega
            split at h
            · contradiction
            · rename_i d dst' hr
              split at h
              · contradiction
              · rename_i f' hf'
                simp only [Option.some.injEq] at h
                subst h
                split at hr
                · -- two-byte token
                  rename_i hlt18
                  split at hr
                  · contradiction
                  · rename_i d1 hw1
                    simp only [Option.map_eq_some_iff, Prod.mk.injEq] at hr
                    obtain ⟨d2, hw2, rfl, rfl⟩ := hr
                    obtain ⟨e1, e2, e3, e4⟩ := wr2_spec hw1 hw2
                    refine ⟨rfl, e1, e2, e3, rfl, rfl, ?_⟩
                    exact TokStep1.mat (src' - st.src) o cached _ 2 cnt (by show src' = st.src + (src' - st.src); omega) rfl rfl e4
                      (tok1EncS _ _ (hashOf_lt _) (by omega) hlt18) (by omega) hend ho hcached hcnt hc1 hc2 hrep hext hf' rfl rfl
                · -- three-byte token
                  rename_i hge18
                  obtain ⟨e1, e2, e3, e4, e5⟩ := emit_spec (len := 3) (by omega) hr
                  refine ⟨rfl, e2, by rw [e1] at e3; rw [e1]; exact e3, e4, rfl, rfl, ?_⟩
                  exact TokStep1.mat (src' - st.src) o cached _ 3 cnt (by show src' = st.src + (src' - st.src); omega) e1 rfl e5
                    (tok1EncL _ _ (hashOf_lt _) (by omega) hml255) (by omega) hend ho hcached hcnt hc1 hc2 hrep hext hf' rfl rfl
      · contradiction
    · -- a literal
      split at h
      · contradiction
      · rename_i b hb
        split at h
        · contradiction
        · rename_i d hw
          split at h
          · contradiction
          · rename_i b2 hb2
            simp only [Option.some.injEq] at h
            subst h
            have hlt := wr_some_lt hw
            refine ⟨rfl, wr_size hw, by show st.dst + 1 ≤ d.size; rw [wr_size hw]; omega, ?_, rfl, rfl, ?_⟩
            · intro j hj
              rw [wr_get hw j, if_neg (by omega)]
            · exact TokStep1.lit b b2 rfl rfl rfl hb (by rw [wr_get hw]; simp) hb2 rfl rfl rfl
  · contradiction

end QlzRT
