/-
  The collision table as a partial function (keyhash, key) → item: `CollisionTable.get` / `compareAndSet`.
-/
import GoBeans.Model.Collide
set_option linter.unusedSimpArgs false
set_option linter.unusedVariables false
namespace CollideLemmas
open Store Spec HintIndex Collide

/-- the entry of (keyhash, key) -/
def tget (t : CTable) (h : Nat) (k : Key) : Option Item := (AMap.get t.items h).bind (fun m => AMap.get m k)

/-- the key hash is known to the table -/
def thas (t : CTable) (h : Nat) : Bool := (AMap.get t.items h).isSome

theorem ctGet_eq (t : CTable) (h : Nat) (k : Key) : t.get h k = (tget t h k, thas t h) := by
  unfold CTable.get tget thas
  cases AMap.get t.items h <;> rfl

theorem tget_thas {t : CTable} {h : Nat} {k : Key} {it : Item} (e : tget t h k = some it) : thas t h = true := by
  unfold tget at e; unfold thas
  cases hm : AMap.get t.items h with
  | none => rw [hm] at e; simp at e
  | some m => rfl

/-- after `compareAndSet(it)`: the entry of (it.khash, it.key) is `it`, or the old one if that has a greater position
    (and the reason is not "gc"); every other entry is as before; the hash is known -/
theorem cas_spec (t : CTable) (it : Item) (gc : Bool) :
    (tget (t.compareAndSet it gc) it.khash it.key = some it
      ∨ (∃ old, tget t it.khash it.key = some old ∧ tget (t.compareAndSet it gc) it.khash it.key = some old
            ∧ gc = false ∧ cmpKey it < cmpKey old))
    ∧ (∀ h k, ¬ (h = it.khash ∧ k = it.key) → tget (t.compareAndSet it gc) h k = tget t h k)
    ∧ (∀ h, thas (t.compareAndSet it gc) h = (thas t h || decide (h = it.khash))) := by
  unfold CTable.compareAndSet
  cases hm : AMap.get t.items it.khash with
  | none =>
    simp only
    refine ⟨Or.inl ?_, ?_, ?_⟩
    · unfold tget; simp [AMap.get_set_self, AMap.get]
    · intro h k hne
      unfold tget
      by_cases hh : h = it.khash
      · subst hh
        have hk : ¬ k = it.key := fun e => hne ⟨rfl, e⟩
        simp only [AMap.get_set_self, hm, Option.bind_some, Option.bind_none]
        simp [AMap.get, Ne.symm hk]
      · simp only []
        rw [AMap.get_set_ne _ _ _ _ (Ne.symm hh)]
    · intro h
      unfold thas
      by_cases hh : h = it.khash
      · subst hh; simp [AMap.get_set_self]
      · simp only []
        rw [AMap.get_set_ne _ _ _ _ (Ne.symm hh)]; simp [hh]
  | some m =>
    simp only
    have setCase : ∀ (t' : CTable), t'.items = AMap.set t.items it.khash (AMap.set m it.key it) →
        tget t' it.khash it.key = some it
        ∧ (∀ h k, ¬ (h = it.khash ∧ k = it.key) → tget t' h k = tget t h k)
        ∧ (∀ h, thas t' h = (thas t h || decide (h = it.khash))) := by
      intro t' ht'
      refine ⟨?_, ?_, ?_⟩
      · unfold tget; rw [ht']; simp [AMap.get_set_self]
      · intro h k hne
        unfold tget
        rw [ht']
        by_cases hh : h = it.khash
        · subst hh
          have hk : ¬ k = it.key := fun e => hne ⟨rfl, e⟩
          simp only [AMap.get_set_self, hm, Option.bind_some]
          exact AMap.get_set_ne _ _ _ _ (Ne.symm hk)
        · rw [AMap.get_set_ne _ _ _ _ (Ne.symm hh)]
      · intro h
        unfold thas
        rw [ht']
        by_cases hh : h = it.khash
        · subst hh; simp [AMap.get_set_self]
        · rw [AMap.get_set_ne _ _ _ _ (Ne.symm hh)]; simp [hh]
    cases ho : AMap.get m it.key with
    | none =>
      simp only
      obtain ⟨a, b, c⟩ := setCase { t with items := AMap.set t.items it.khash (AMap.set m it.key it) } rfl
      exact ⟨Or.inl a, b, c⟩
    | some old =>
      simp only
      by_cases hc : (gc || decide (cmpKey it ≥ cmpKey old)) = true
      · rw [if_pos hc]
        obtain ⟨a, b, c⟩ := setCase { t with items := AMap.set t.items it.khash (AMap.set m it.key it) } rfl
        exact ⟨Or.inl a, b, c⟩
      · rw [if_neg hc]
        have hold : tget t it.khash it.key = some old := by unfold tget; rw [hm]; simpa using ho
        simp only [Bool.or_eq_true, decide_eq_true_eq, not_or] at hc
        refine ⟨Or.inr ⟨old, hold, hold, ?_, by omega⟩, fun _ _ _ => rfl, ?_⟩
        · cases gc with
          | false => rfl
          | true => exact absurd rfl hc.1
        · intro h
          by_cases hh : h = it.khash
          · subst hh; unfold thas; rw [hm]; simp
          · simp [hh]

end CollideLemmas
