/-
  C06 THROUGH THE INDEX FILES — the theorems (helper layers: Lemmas/CrashHintDisk, CrashHintInv, CrashHintOpen).

  Model: GoBeans/Model/CrashHint.lean.  A history is any sequence of the actions of normal operation — `write`
  (record into the write buffer, tree entry, hint item), `flushTo` (a data file grows to any byte position up to the
  end of its buffered records), `rotateSplit` / `dumpSplit` (a hint split is closed; ANY closed split is renamed into
  place at ANY time, before or after the flush of the records it describes), `beginClose` / `removeDump` / `writeDump`
  (shutdown: tree dump removed, new one renamed into place), `restart` (kill + next start; a start refused because of
  a torn tail leaves everything as it is).  A kill may follow ANY prefix of a history: the directory is
  `(run … ops).crash`.  For every such history, every kill point, keys with pairwise different hashes, `SplitCap ≥ 1`:

   * `crash_recovery`        no data file ends in a torn record ⇒ the next start comes up, and for every key the LIVE
                             part of its tree entry is `itemOfLast (lastOf k durLog)` — position, version and value hash
                             of the key's LAST DURABLE record if that is a value, nothing if it is a delete marker or
                             the key has no durable record.  Without a usable tree dump the entry itself is that.
   * `crash_recovery_entry`  with a tree dump: the exact entry (last durable record applied on top of the dump, else
                             the dump's own entry — which may be a memory tombstone entry `Ver < 0`, see
                             `dump_keeps_tombstone_entry`)
   * `recovered_entry_reads` the entry points at a complete record of that key inside the surviving bytes
   * `torn_refuses`          a torn tail ⇒ the start refuses (the clause C06 allows; as Model/Crash.lean)
   * `reachable_inv`         every reachable state satisfies the invariant, across any number of kills and starts
   * `plain_statement_fails` the statement without "live part" is false for the code as it is (dump + deleted key)
   * `old_code_counterexample`, `old_code_fails`   the SAME statement is false for the start as it was before
                             /repo commit fe79633 (`chk = false`: no "hint beyond data" drop): the historical defect
-/
import GoBeans.Lemmas.CrashHintOpen
set_option linter.unusedSimpArgs false
set_option linter.unusedVariables false
namespace CrashHintLemmas
open Store Spec StoreLemmas HintIndex HintBufferLemmas HintLoadLemmas HintIndexLemmas CrashHint

section Main
variable (hash : Key → Nat) (K : Key → Prop) (cap : Nat)

/-- the writes of a history: keys from `K`, records of positive size -/
def OpOK : CrashHint.Op → Prop
  | .write r => K r.key ∧ 0 < r.size
  | _ => True

theorem step_inv (hInj : InjOn hash K) (hcap : 1 ≤ cap) (cfg : Store.Cfg) {s : St} (inv : Inv hash K cap s)
    (op : CrashHint.Op) (hop : OpOK K op) : Inv hash K cap (step hash cfg cap s op) := by
  cases op with
  | write r => exact inv_write hash K cap hInj cfg inv r hop.1 hop.2
  | flushTo i n => exact inv_flushTo hash K cap inv i n
  | rotateSplit i => exact inv_rotateSplit hash K cap inv i
  | dumpSplit i j => exact inv_dumpSplit hash K cap inv i j
  | beginClose => exact inv_beginClose hash K cap inv
  | removeDump => exact inv_removeDump hash K cap inv
  | writeDump => exact inv_writeDump hash K cap inv
  | restart =>
    show Inv hash K cap ((recover hash cap true s.crash).getD s)
    unfold recover
    by_cases ht : s.torn = true
    · have : s.crash.files.any (·.torn) = true := ht
      rw [if_pos this]; exact inv
    · have ht' : s.torn = false := by simpa using ht
      have : ¬ s.crash.files.any (·.torn) = true := ht
      rw [if_neg this]
      exact open_inv hash K cap hInj hcap inv ht'

theorem run_inv (hInj : InjOn hash K) (hcap : 1 ≤ cap) (cfg : Store.Cfg) (ops : List CrashHint.Op) :
    ∀ s : St, Inv hash K cap s → (∀ op ∈ ops, OpOK K op) → Inv hash K cap (run hash cfg cap s ops) := by
  induction ops with
  | nil => intro s inv _; exact inv
  | cons op ops ih =>
    intro s inv hops
    exact ih _ (step_inv hash K cap hInj hcap cfg inv op (hops op (by simp))) (fun o ho => hops o (by simp [ho]))

/-- every state normal operation can reach — any number of process lives, kills and starts included — satisfies the
    invariant -/
theorem reachable_inv (hInj : InjOn hash K) (hcap : 1 ≤ cap) (cfg : Store.Cfg) (ops : List CrashHint.Op)
    (hops : ∀ op ∈ ops, OpOK K op) : Inv hash K cap (run hash cfg cap {} ops) :=
  run_inv hash K cap hInj hcap cfg ops {} (inv_init hash K cap) hops

/-- a torn tail: the start refuses -/
theorem torn_refuses (chk : Bool) (s : St) (ht : s.torn = true) : recover hash cap chk s.crash = none := by
  unfold recover
  have : s.crash.files.any (·.torn) = true := ht
  rw [if_pos this]

theorem recover_of_not_torn (chk : Bool) (s : St) (ht : s.torn = false) :
    recover hash cap chk s.crash = some (openSt hash cap chk s.crash) := by
  unfold recover
  have : ¬ s.crash.files.any (·.torn) = true := by
    have : s.crash.files.any (·.torn) = false := ht
    simp [this]
  rw [if_neg this]

/-- C06, kill at ANY instant of ANY history.  If no data file ends in a torn record the next start comes up and, for
    every key, serves the key's LAST DURABLE record: the live part of the tree entry is `itemOfLast` of it (its
    position, version, value hash; nothing for a delete marker or a key without durable record).  If the start does not
    use a tree dump, the entry is exactly that. -/
theorem crash_recovery (hInj : InjOn hash K) (hcap : 1 ≤ cap) (cfg : Store.Cfg) (ops : List CrashHint.Op)
    (hops : ∀ op ∈ ops, OpOK K op) (ht : (run hash cfg cap {} ops).torn = false) :
    ∃ st, recover hash cap true (run hash cfg cap {} ops).crash = some st ∧
      ∀ k, K k →
        live (AMap.get st.tree (hash k)) = itemOfLast (lastOf k (durLog (run hash cfg cap {} ops))) ∧
        (usedDump (run hash cfg cap {} ops).crash = none →
          AMap.get st.tree (hash k) = itemOfLast (lastOf k (durLog (run hash cfg cap {} ops)))) := by
  have inv := reachable_inv hash K cap hInj hcap cfg ops hops
  refine ⟨_, recover_of_not_torn hash cap true _ ht, ?_⟩
  intro k hk
  exact ⟨open_tree_live hash K cap hInj hcap inv ht k hk,
    fun hd => open_tree_nodump hash K cap hInj hcap inv ht hd k hk⟩

/-- … with a tree dump `t` in use: the exact entry.  A key with a durable record in the chunks applied on top of the
    dump (chunk `tc` if it has more than `ts + 1` split files, every later chunk): `itemOfLast` of its last durable
    record; any other key: the entry of the dump. -/
theorem crash_recovery_entry (hInj : InjOn hash K) (hcap : 1 ≤ cap) (cfg : Store.Cfg) (ops : List CrashHint.Op)
    (hops : ∀ op ∈ ops, OpOK K op) (ht : (run hash cfg cap {} ops).torn = false)
    (t : TreeDump) (hd : usedDump (run hash cfg cap {} ops).crash = some t) (k : Key) (hk : K k) :
    AMap.get (openSt hash cap true (run hash cfg cap {} ops).crash).tree (hash k) =
      (match lastOf k (openLog t.tc t.ts 0 (durFiles (run hash cfg cap {} ops))
                (keptHints hash cap true (run hash cfg cap {} ops).crash)) with
       | some x => itemOfLast (lastOf k (durLog (run hash cfg cap {} ops)))
       | none => AMap.get t.tree (hash k)) := by
  have inv := reachable_inv hash K cap hInj hcap cfg ops hops
  rw [open_tree, open_tree_entry hash K cap hInj hcap inv ht t hd k hk]
  cases hx : lastOf k (openLog t.tc t.ts 0 (durFiles (run hash cfg cap {} ops))
                (keptHints hash cap true (run hash cfg cap {} ops).crash)) with
  | none => rfl
  | some x =>
    simp only
    -- the last record applied on top of the dump is the last durable record
    obtain ⟨hdump, _⟩ := usedDump_some hd
    rw [crash_dump] at hdump
    obtain ⟨_, A, B, hAB, htc, _, _, _⟩ := inv.dump t hdump
    have hl := openLog_last hash t.tc t.ts _ _ (open_hints hash K cap hcap inv ht) 0 A.length
      (Nat.zero_le _) (by omega) k
    rw [hx] at hl
    simp only at hl
    rw [durLog_eq]
    unfold logOf
    rw [hl]

/-! ### the entry can be read -/

theorem lastOf_mem' (k : Key) (l : List (Pos × Rec)) (x : Pos × Rec) (h : lastOf k l = some x) : x ∈ l ∧ x.2.key = k := by
  unfold lastOf at h
  have := List.mem_of_getLast? h
  simp only [List.mem_filter, decide_eq_true_eq] at this
  exact this

theorem mem_logFrom : ∀ (files : List FileRecs) (c : Nat) (x : Pos × Rec), x ∈ logFrom c files →
    ∃ j f, files[j]? = some f ∧ x.1.chunk = c + j ∧ (x.1.off, x.2) ∈ f := by
  intro files
  induction files with
  | nil => intro c x h; simp [logFrom] at h
  | cons f fs ih =>
    intro c x h
    simp only [logFrom, List.mem_append] at h
    rcases h with h | h
    · obtain ⟨p, hp, rfl⟩ := List.mem_map.mp h
      exact ⟨0, f, by simp, by simp, by simpa using hp⟩
    · obtain ⟨j, g, hj, hc, hm⟩ := ih (c + 1) x h
      exact ⟨j + 1, g, by simpa using hj, by omega, hm⟩

theorem find_contig : ∀ (f : FileRecs), Contig f → ∀ (o : Nat) (r : Rec), (o, r) ∈ f →
    f.find? (fun q => q.1 = o) = some (o, r) := by
  intro f
  induction f with
  | nil => intro _ o r h; simp at h
  | cons q l ih =>
    intro hc o r h
    have hcl : Contig l := contig_tail (a := [q]) hc
    by_cases hq : q.1 = o
    · rcases List.mem_cons.mp h with h | h
      · simp [← h]
      · exfalso
        have h1 := hc.1
        rw [List.pairwise_cons] at h1
        have h2 := h1.1 (o, r) h
        have h3 := hc.2 q (by simp)
        simp only at h2
        omega
    · rcases List.mem_cons.mp h with h | h
      · exfalso; apply hq; rw [← h]
      · rw [List.find?_cons]
        simp only [hq, decide_false]
        exact ih hcl o r h

/-- what `itemOfLast (lastOf k durLog)` points at: a record of key `k`, with the entry's version (a value, not a delete
    marker) and value hash, that lies completely inside the surviving bytes of its data file and is what
    `GetRecordByPos` reads there — never a torn value, never another key's -/
theorem recovered_entry_reads {s : St} (inv : Inv hash K cap s) (k : Key) (it : TItem)
    (h : itemOfLast (lastOf k (durLog s)) = some it) :
    ∃ r, s.crash.readAt it.pos = some r ∧ r.key = k ∧ r.ver = it.ver ∧ 0 < it.ver ∧ it.vhash = vhashOf r.body ∧
      (it.pos, r) ∈ durLog s := by
  cases hl : lastOf k (durLog s) with
  | none => rw [hl] at h; simp [itemOfLast] at h
  | some x =>
    obtain ⟨p, r⟩ := x
    rw [hl] at h
    obtain ⟨hmem, hkey⟩ := lastOf_mem' k _ _ hl
    by_cases hv : r.ver > 0
    · simp only [itemOfLast, hv, if_true, Option.some.injEq] at h
      subst h
      refine ⟨r, ?_, hkey, rfl, hv, rfl, hmem⟩
      have hm2 := hmem
      rw [durLog_eq] at hm2
      obtain ⟨j, f, hj, hc, hm⟩ := mem_logFrom _ 0 _ hm2
      simp only at hc hm
      have hjp : j = p.chunk := by omega
      subst hjp
      unfold durFiles at hj
      rw [List.getElem?_map] at hj
      cases hcc : s.all[p.chunk]? with
      | none => rw [hcc] at hj; simp at hj
      | some c =>
        rw [hcc] at hj
        simp only [Option.map_some, Option.some.injEq] at hj
        subst hj
        have hok := inv.chunks c (List.mem_of_getElem? hcc)
        unfold Disk.readAt
        rw [crash_files, List.getElem?_map, hcc]
        simp only [Option.map_some, crash_recs]
        rw [find_contig _ (contig_dur hok.contig _) p.off r hm]
        rfl
    · simp [itemOfLast, hv] at h

end Main

/-! ### non-vacuity, sanity evaluations, and what fails without the "hint beyond data" drop -/

def exLookC (t : Tree) : List (Option TItem) := [[97], [98], [99]].map (fun k => AMap.get t (exHash k))

/-- THE HISTORICAL DEFECT (before /repo commit fe79633), `SplitCap = 2`: a = 1 is written and flushed; a = 2, b, c are
    written and stay in the write buffer; c finds the split full, the split {a → 256, b → 512} is closed and — write
    path, `setItem → trydump` — dumped at once, `datasize` 768; kill.  The data file holds 256 bytes. -/
def exHist : List CrashHint.Op :=
  [.write (exRec 97 1 [1]), .flushTo 0 256, .write (exRec 97 2 [2]), .write (exRec 98 1 [3]), .write (exRec 99 1 [4]),
   .dumpSplit 0 0]

theorem exHist_ok : ∀ op ∈ exHist, OpOK exK op := by
  intro op h
  simp [exHist] at h
  rcases h with rfl | rfl | rfl | rfl | rfl | rfl <;> simp [OpOK, exK, exRec]

/-- the directory the kill leaves: one durable record, no torn tail, a split file that describes records beyond it -/
example : (run exHash {} 2 {} exHist).crash.files.map (fun f => (f.recs.map (·.1), f.size, f.torn)) =
    [([0], 256, false)] := by decide +kernel
example : (run exHash {} 2 {} exHist).crash.files.map
      (fun f => (f.hints.filterMap id).map (fun sf => (sf.items.map (fun it => (it.khash, it.off, it.ver)), sf.datasize))) =
    [[([(1097, 256, 2), (1098, 512, 1)], 768)]] := by decide +kernel

/-- the start as it is: the split file is dropped, the data file rescanned: a = 1 at offset 0, nothing else -/
example : (recover exHash 2 true (run exHash {} 2 {} exHist).crash).map (fun s => exLookC s.tree) =
    some [some { pos := ⟨0, 0⟩, ver := 1, vhash := vhashOf [1] }, none, none] := by decide +kernel
example : exLookC (replayTree exHash (durLog (run exHash {} 2 {} exHist))) =
    [some { pos := ⟨0, 0⟩, ver := 1, vhash := vhashOf [1] }, none, none] := by decide +kernel

/-- … which is what the theorem says (its hypotheses hold on this history) -/
example (k : Key) (hk : exK k) :
    ∃ st, recover exHash 2 true (run exHash {} 2 {} exHist).crash = some st ∧
      AMap.get st.tree (exHash k) = itemOfLast (lastOf k (durLog (run exHash {} 2 {} exHist))) := by
  obtain ⟨st, h1, h2⟩ := crash_recovery exHash exK 2 exInj (by omega) {} exHist exHist_ok (by decide +kernel)
  exact ⟨st, h1, (h2 k hk).2 (by decide +kernel)⟩

/-- WITHOUT the "hint beyond data" drop the statement FAILS on this reachable directory: the start trusts the split
    file, does not rescan (`hintDataSize 768 ≥ size 256`), and the tree sends a to offset 256 and b to offset 512 of a
    256-byte file: a's durable value 1 is not served, reads of a and b fail — the defect found by engine `crash` -/
theorem old_code_counterexample :
    (run exHash {} 2 {} exHist).torn = false ∧
    (recover exHash 2 false (run exHash {} 2 {} exHist).crash).map (fun s => exLookC s.tree) =
      some [some { pos := ⟨0, 256⟩, ver := 2, vhash := vhashOf [2] }, some { pos := ⟨0, 512⟩, ver := 1, vhash := vhashOf [3] }, none] ∧
    itemOfLast (lastOf [97] (durLog (run exHash {} 2 {} exHist))) = some { pos := ⟨0, 0⟩, ver := 1, vhash := vhashOf [1] } ∧
    (run exHash {} 2 {} exHist).crash.readAt ⟨0, 256⟩ = none ∧
    (run exHash {} 2 {} exHist).crash.readAt ⟨0, 512⟩ = none := by decide +kernel

/-- the theorem `crash_recovery` with the check switched off is false -/
theorem old_code_fails :
    ¬ (∀ (ops : List CrashHint.Op), (∀ op ∈ ops, OpOK exK op) → (run exHash {} 2 {} ops).torn = false →
        ∃ st, recover exHash 2 false (run exHash {} 2 {} ops).crash = some st ∧
          ∀ k, exK k → live (AMap.get st.tree (exHash k)) = itemOfLast (lastOf k (durLog (run exHash {} 2 {} ops)))) := by
  intro h
  obtain ⟨st, h1, h2⟩ := h exHist exHist_ok (by decide +kernel)
  have h3 := h2 [97] (by simp [exK])
  have e : recover exHash 2 false (run exHash {} 2 {} exHist).crash =
      some (openSt exHash 2 false (run exHash {} 2 {} exHist).crash) :=
    recover_of_not_torn exHash 2 false _ (by decide +kernel)
  rw [e] at h1
  cases h1
  revert h3
  decide +kernel

/-- A TREE DUMP FROM A CLEAN CLOSE, MORE DATA, KILL (`SplitCap = 4`).  Life 1: a = 1, b = 1, b deleted; shutdown: file 0
    flushed, its split closed and dumped, tree dumped as `000.000.idx.hash`; restart.  Life 2 (file 1): a = 2 is
    written and flushed, c = 1 is written and stays in the buffer; the dumper closes and dumps the split {a, c} of
    chunk 1 (`datasize` 512 > 256 bytes on disk); kill. -/
def exDump : List CrashHint.Op :=
  [.write (exRec 97 1 [1]), .write (exRec 98 1 [2]), .write (exRec 98 (-2) []),
   .beginClose, .flushTo 0 768, .rotateSplit 0, .dumpSplit 0 0, .removeDump, .writeDump, .restart,
   .write (exRec 97 2 [5]), .write (exRec 99 1 [7]), .flushTo 1 256, .rotateSplit 1, .dumpSplit 1 0]

theorem exDump_ok : ∀ op ∈ exDump, OpOK exK op := by
  intro op h
  simp [exDump] at h
  rcases h with rfl | rfl | rfl | rfl | rfl | rfl | rfl | rfl | rfl | rfl | rfl | rfl | rfl | rfl | rfl <;>
    simp [OpOK, exK, exRec]

/-- the directory: file 0 complete with its split file, file 1 with one durable record and a split file beyond it,
    the tree dump `(0, 0)` with a's entry and b's memory tombstone entry -/
example : (run exHash {} 4 {} exDump).crash.files.map (fun f => (f.recs.map (·.1), f.size, f.torn)) =
    [([0, 256, 512], 768, false), ([0], 256, false)] := by decide +kernel
example : (run exHash {} 4 {} exDump).crash.files.map
      (fun f => (f.hints.filterMap id).map (fun sf => (sf.items.map (fun it => (it.khash, it.off, it.ver)), sf.datasize))) =
    [[([(1097, 0, 1), (1098, 512, -2)], 768)], [([(1097, 0, 2), (1099, 256, 1)], 512)]] := by decide +kernel
example : (run exHash {} 4 {} exDump).crash.dump.map (fun d => (d.tc, d.ts, exLookC d.tree)) =
    some (0, 0, [some { pos := ⟨0, 0⟩, ver := 1, vhash := vhashOf [1] }, some { pos := ⟨0, 512⟩, ver := -2, vhash := 0 }, none]) := by
  decide +kernel

/-- the start: dump loaded, chunk 0 skipped, chunk 1's split file dropped and the file rescanned — a is served from
    file 1, c (not durable) is unknown, b keeps the dump's tombstone entry.  The old start trusted the split file of
    chunk 1: c points past the end of file 1. -/
example : (recover exHash 4 true (run exHash {} 4 {} exDump).crash).map (fun s => exLookC s.tree) =
    some [some { pos := ⟨1, 0⟩, ver := 2, vhash := vhashOf [5] }, some { pos := ⟨0, 512⟩, ver := -2, vhash := 0 }, none] := by
  decide +kernel
example : (recover exHash 4 false (run exHash {} 4 {} exDump).crash).map (fun s => exLookC s.tree) =
    some [some { pos := ⟨1, 0⟩, ver := 2, vhash := vhashOf [5] }, some { pos := ⟨0, 512⟩, ver := -2, vhash := 0 },
          some { pos := ⟨1, 256⟩, ver := 1, vhash := vhashOf [7] }] := by
  decide +kernel

/-- WHERE THE CODE DIFFERS FROM THE PLAIN STATEMENT: with a tree dump the entry of a key deleted before the dump is the
    dump's memory tombstone entry (`Ver = -2`), not "no entry" as `itemOfLast` says and as a rebuild from hint files
    gives — which is why `crash_recovery` speaks of the LIVE part; a get treats both as a miss. -/
theorem dump_keeps_tombstone_entry :
    (run exHash {} 4 {} exDump).torn = false ∧
    (recover exHash 4 true (run exHash {} 4 {} exDump).crash).map (fun s => AMap.get s.tree (exHash [98])) =
      some (some { pos := ⟨0, 512⟩, ver := -2, vhash := 0 }) ∧
    itemOfLast (lastOf [98] (durLog (run exHash {} 4 {} exDump))) = none := by decide +kernel

/-- the statement WITHOUT "live part" — every recovered entry IS `itemOfLast` of the last durable record — … -/
def plain_statement (hash : Key → Nat) (K : Key → Prop) (cap : Nat) (cfg : Store.Cfg) : Prop :=
  ∀ (ops : List CrashHint.Op), (∀ op ∈ ops, OpOK K op) → (run hash cfg cap {} ops).torn = false →
    ∃ st, recover hash cap true (run hash cfg cap {} ops).crash = some st ∧
      ∀ k, K k → AMap.get st.tree (hash k) = itemOfLast (lastOf k (durLog (run hash cfg cap {} ops)))

/-- … is false for the code as it is (tree dump + deleted key); `crash_recovery` is the strongest true form: exact
    without a tree dump, live part with one (`crash_recovery_entry` says what the entry is) -/
theorem plain_statement_fails : ¬ plain_statement exHash exK 4 {} := by
  intro h
  obtain ⟨st, h1, h2⟩ := h exDump exDump_ok (by decide +kernel)
  have h3 := h2 [98] (by simp [exK])
  have e : recover exHash 4 true (run exHash {} 4 {} exDump).crash =
      some (openSt exHash 4 true (run exHash {} 4 {} exDump).crash) :=
    recover_of_not_torn exHash 4 true _ (by decide +kernel)
  rw [e] at h1
  cases h1
  revert h3
  decide +kernel

/-- the theorem applies to that kill point -/
example (k : Key) (hk : exK k) :
    ∃ st, recover exHash 4 true (run exHash {} 4 {} exDump).crash = some st ∧
      live (AMap.get st.tree (exHash k)) = itemOfLast (lastOf k (durLog (run exHash {} 4 {} exDump))) := by
  obtain ⟨st, h1, h2⟩ := crash_recovery exHash exK 4 exInj (by omega) {} exDump exDump_ok (by decide +kernel)
  exact ⟨st, h1, (h2 k hk).1⟩

/-- a torn tail (file cut inside the second record): the start refuses -/
example : recover exHash 2 true (run exHash {} 2 {} [.write (exRec 97 1 [1]), .write (exRec 98 1 [2] 512), .flushTo 0 512]).crash = none := by
  decide +kernel

/-- kill, start, more writes, kill again: the second start (rotation at 512 bytes: files 0, 1 from life 1, file 2 from
    life 2; file 1 never flushed, so life 2 REUSES chunk id 1 and `open` has removed its stale split file) -/
def exTwice : List CrashHint.Op :=
  [.write (exRec 97 1 [1]), .write (exRec 98 1 [2]), .flushTo 0 512, .write (exRec 97 2 [3]), .rotateSplit 1, .dumpSplit 1 0,
   .restart, .write (exRec 99 1 [4]), .flushTo 1 256, .write (exRec 98 (-2) [])]
example : (run exHash { dataFileMax := 512 } 2 {} exTwice).crash.files.map
      (fun f => (f.recs.map (·.1), f.size, f.created, f.hints.map (fun o => o.map (·.datasize)))) =
    [([0, 256], 512, true, [some 512]), ([0], 256, true, [])] := by decide +kernel
example : (recover exHash 2 true (run exHash { dataFileMax := 512 } 2 {} exTwice).crash).map (fun s => exLookC s.tree) =
    some [some { pos := ⟨0, 0⟩, ver := 1, vhash := vhashOf [1] }, some { pos := ⟨0, 256⟩, ver := 1, vhash := vhashOf [2] },
          some { pos := ⟨1, 0⟩, ver := 1, vhash := vhashOf [4] }] := by decide +kernel

end CrashHintLemmas
