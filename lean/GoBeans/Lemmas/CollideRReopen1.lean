/-
  C13 (b) with restarts, the hint side of `Bucket.close` / `Bucket.open`: after the close every buffer is written, and the
  open loads the split files exactly as they were written (`datasize` bookkeeping: nothing is cut, nothing is rescanned).
-/
import GoBeans.Lemmas.CollideROps2
set_option linter.unusedSimpArgs false
set_option linter.unusedVariables false
namespace CollideLemmas
open Store Spec HintIndex Collide StoreLemmas HintBufferLemmas

/-- `hints.close`: `trydump(i, true)` for `i < n` -/
def closeAll (hs : Hints) (n : Nat) : Hints := (List.range n).foldl (fun hs i => hs.trydump i true) hs

theorem closeAll_r (n : Nat) (hs : Hints) (good : ∀ j, CkGood (hs.chunks j)) :
    (∀ j, CkGood ((closeAll hs n).chunks j))
    ∧ (∀ j h k, ((closeAll hs n).chunks j).get h k = (hs.chunks j).get h k)
    ∧ (∀ j y, InCk ((closeAll hs n).chunks j) y ↔ InCk (hs.chunks j) y)
    ∧ (∀ a, isLarger a hs.maxDumped.1 hs.maxDumped.2 = true → isLarger a (closeAll hs n).maxDumped.1 (closeAll hs n).maxDumped.2 = true)
    ∧ (∀ j, (j < n ∨ (hs.chunks j).last.items = []) → ((closeAll hs n).chunks j).last.items = [])
    ∧ (∀ j sz, ((∀ sp ∈ (hs.chunks j).old, ∀ f, sp.file = some f → f.datasize ≤ sz) ∧ (hs.chunks j).last.maxoffset ≤ sz) →
         ((∀ sp ∈ ((closeAll hs n).chunks j).old, ∀ f, sp.file = some f → f.datasize ≤ sz) ∧ ((closeAll hs n).chunks j).last.maxoffset ≤ sz))
    ∧ (∀ j sz, ((∃ sp ∈ (hs.chunks j).old, ∃ f, sp.file = some f ∧ f.datasize = sz) ∨ ((hs.chunks j).last.items ≠ [] ∧ (hs.chunks j).last.maxoffset = sz)) →
         ((∃ sp ∈ ((closeAll hs n).chunks j).old, ∃ f, sp.file = some f ∧ f.datasize = sz)
           ∨ (((closeAll hs n).chunks j).last.items ≠ [] ∧ ((closeAll hs n).chunks j).last.maxoffset = sz))) := by
  unfold closeAll
  induction n with
  | zero =>
    refine ⟨good, fun _ _ _ => rfl, fun _ _ => Iff.rfl, fun _ h => h, ?_, fun _ _ h => h, fun _ _ h => h⟩
    intro j h
    rcases h with h | h
    · omega
    · exact h
  | succ n ih =>
    rw [List.range_succ, List.foldl_append]
    simp only [List.foldl_cons, List.foldl_nil]
    obtain ⟨i0, i1, i2, i3, i4, i5, i6⟩ := ih
    generalize (List.range n).foldl (fun hs i => hs.trydump i true) hs = hs1 at i0 i1 i2 i3 i4 i5 i6
    obtain ⟨t1, t2, t3, t4, t5, t6⟩ := trydump_r hs1 n true (i0 n)
    obtain ⟨u1, u2, u3, _, _⟩ := trydump_spec hs1 n true (i0 n).ok
    refine ⟨?_, ?_, ?_, fun a h => t2 a (i3 a h), ?_, ?_, ?_⟩
    · intro j
      by_cases hj : j = n
      · subst hj; exact u1
      · rw [u3 j hj]; exact i0 j
    · intro j h k
      by_cases hj : j = n
      · subst hj; rw [u2, i1]
      · rw [u3 j hj, i1]
    · intro j y
      by_cases hj : j = n
      · subst hj; rw [t1]; exact i2 j y
      · rw [u3 j hj]; exact i2 j y
    · intro j h
      by_cases hj : j = n
      · subst hj; exact t3 rfl
      · rw [u3 j hj]
        apply i4
        rcases h with h | h
        · exact Or.inl (by omega)
        · exact Or.inr h
    · intro j sz h
      by_cases hj : j = n
      · subst hj
        obtain ⟨a, b⟩ := i5 j sz h
        exact t5 sz a b
      · rw [u3 j hj]; exact i5 j sz h
    · intro j sz h
      by_cases hj : j = n
      · subst hj; exact t6 sz (i6 j sz h)
      · rw [u3 j hj]; exact i6 j sz h

theorem trydump_maxChunk (hs : Hints) (c : Nat) (dl : Bool) :
    (hs.trydump c dl).maxChunk = hs.maxChunk ∧ (hs.trydump c dl).merged = hs.merged := by
  unfold Hints.trydump
  simp only
  split <;> exact ⟨rfl, rfl⟩

theorem closeAll_maxChunk (n : Nat) (hs : Hints) : (closeAll hs n).maxChunk = hs.maxChunk ∧ (closeAll hs n).merged = hs.merged := by
  unfold closeAll
  induction n with
  | zero => exact ⟨rfl, rfl⟩
  | succ n ih =>
    rw [List.range_succ, List.foldl_append]
    simp only [List.foldl_cons, List.foldl_nil]
    exact ⟨by rw [(trydump_maxChunk _ n true).1, ih.1], by rw [(trydump_maxChunk _ n true).2, ih.2]⟩

/-! ### loading the split files of one data file -/

def mkSplit (f : SplitFile) : HSplit := { buf := none, file := some f }

theorem isFile_eta {sp : HSplit} (h : IsFile sp) : ∃ f, sp = mkSplit f ∧ NodupKey f.items := by
  obtain ⟨hb, f, hf, hn⟩ := h
  refine ⟨f, ?_, hn⟩
  cases sp with
  | mk b fl => simp only at hb hf; subst hb; subst hf; rfl

theorem validPrefix_files (old : List HSplit) (h : AllFiles old) :
    (validPrefix (old.map (·.file))).map mkSplit = old := by
  induction old with
  | nil => rfl
  | cons sp rest ih =>
    obtain ⟨f, e, _⟩ := isFile_eta (h sp (by simp))
    subst e
    simp only [List.map_cons, mkSplit, validPrefix]
    rw [show (validPrefix (List.map (fun x => x.file) rest)).map mkSplit = rest from ih (fun s hs => h s (by simp [hs]))]

theorem loadPrefix_all (size : Nat) (fl : List SplitFile) (hle : ∀ f ∈ fl, f.datasize ≤ size) :
    ∀ d, (loadPrefix size fl d).1 = fl ∧ d ≤ (loadPrefix size fl d).2 ∧ (∀ f ∈ fl, f.datasize ≤ (loadPrefix size fl d).2) := by
  induction fl with
  | nil => intro d; exact ⟨rfl, Nat.le_refl _, fun f hf => by cases hf⟩
  | cons f rest ih =>
    intro d
    have hf := hle f (by simp)
    have hng : ¬ f.datasize > size := by omega
    unfold loadPrefix
    rw [if_neg hng]
    simp only
    by_cases hlt : f.datasize < d
    · rw [if_pos hlt]
      obtain ⟨a, b, c⟩ := ih (fun g hg => hle g (by simp [hg])) d
      refine ⟨by rw [a], b, ?_⟩
      intro g hg
      simp only [List.mem_cons] at hg
      rcases hg with rfl | hg
      · omega
      · exact c g hg
    · rw [if_neg hlt]
      obtain ⟨a, b, c⟩ := ih (fun g hg => hle g (by simp [hg])) f.datasize
      refine ⟨by rw [a], by omega, ?_⟩
      intro g hg
      simp only [List.mem_cons] at hg
      rcases hg with rfl | hg
      · exact b
      · exact c g hg

/-- the chunk `Bucket.open` installs for a data file whose split files cover it -/
def loadedCk (ck : HCk) (size : Nat) : HCk := if size = 0 then {} else { old := ck.old, last := {} }

/-- `checkHintWithData` on a data file whose split files are all there, none longer than the file, one reaching its end:
    the files are loaded as they are, nothing is rescanned -/
theorem chk_form (hash : Key → Nat) (cap : Nat) (hs : Hints) (c : Nat) (recs : FileRecs) (size : Nat) (ck : HCk)
    (hfresh : hs.chunks c = {})
    (hf : AllFiles ck.old) (hle : ∀ sp ∈ ck.old, ∀ f, sp.file = some f → f.datasize ≤ size)
    (hfull : size > 0 → ∃ sp ∈ ck.old, ∃ f, sp.file = some f ∧ f.datasize = size) :
    (hs.checkHintWithData hash cap c recs size (ck.old.map (·.file))).chunks c = loadedCk ck size
    ∧ (∀ j, j ≠ c → (hs.checkHintWithData hash cap c recs size (ck.old.map (·.file))).chunks j = hs.chunks j)
    ∧ (hs.checkHintWithData hash cap c recs size (ck.old.map (·.file))).maxDumped = hs.maxDumped
    ∧ (hs.checkHintWithData hash cap c recs size (ck.old.map (·.file))).maxChunk = hs.maxChunk
    ∧ (hs.checkHintWithData hash cap c recs size (ck.old.map (·.file))).merged = hs.merged := by
  unfold Hints.checkHintWithData loadedCk
  by_cases hz : size = 0
  · rw [if_pos hz, if_pos hz]; exact ⟨hfresh, fun _ _ => rfl, rfl, rfl, rfl⟩
  · rw [if_neg hz, if_neg hz]
    simp only
    have hfl : ∀ f ∈ validPrefix (ck.old.map (·.file)), f.datasize ≤ size := by
      intro f hfm
      have : mkSplit f ∈ (validPrefix (ck.old.map (·.file))).map mkSplit := List.mem_map_of_mem hfm
      rw [validPrefix_files ck.old hf] at this
      exact hle _ this f rfl
    obtain ⟨a, _, cmax⟩ := loadPrefix_all size (validPrefix (ck.old.map (·.file))) hfl 0
    obtain ⟨sp, hsp, f, hfe, hfd⟩ := hfull (by omega)
    have hfmem : f ∈ validPrefix (ck.old.map (·.file)) := by
      have : sp ∈ (validPrefix (ck.old.map (·.file))).map mkSplit := by rw [validPrefix_files ck.old hf]; exact hsp
      rw [List.mem_map] at this
      obtain ⟨g, hg, hge⟩ := this
      have : g = f := by
        unfold mkSplit at hge
        rw [← hge] at hfe
        simpa using hfe
      rw [← this]; exact hg
    have hnot : ¬ (loadPrefix size (validPrefix (ck.old.map (·.file))) 0).2 < size := by
      have := cmax f hfmem
      omega
    rw [if_neg hnot, a]
    have hold : (validPrefix (ck.old.map (·.file))).map (fun f => ({ buf := none, file := some f } : HSplit)) = ck.old :=
      validPrefix_files ck.old hf
    rw [hold]
    refine ⟨by simp only [setCk_chunks, if_true], ?_, rfl, rfl, rfl⟩
    intro j hj
    simp only [setCk_chunks, if_neg hj]

end CollideLemmas
