/-
  GC beside clients: what a GC micro-step does to the stored records and to the tree (effect summaries).  Core-only.
-/
import GoBeans.Lemmas.ConcGCData

namespace ConcGC
open ConcFine

/-- a GC micro-step changes the tree only in `movePos` -/
theorem gmicro_tree_cases {cfg : GCfg} {s s' : State} (h : gmicro cfg s = some s') :
    s'.base.tree = s.base.tree ∨
    ∃ r off it, s.gc.pc = .gMove r off ∧ s.base.tree r.key = some it ∧ (cfg.blind = true ∨ it.pos = ⟨s.gc.src, r.off⟩) ∧
      s'.base.tree = fun k => if k = r.key then some ⟨it.ver, ⟨s.gc.dst, off⟩⟩ else s.base.tree k := by
  cases hpc : s.gc.pc with
  | gMove r off =>
    simp only [gmicro, hpc] at h
    split at h
    · rename_i it hit
      split at h
      · rename_i hcnd
        obtain rfl := Option.some.inj h
        right; exact ⟨r, off, it, rfl, hit, hcnd, rfl⟩
      · obtain rfl := Option.some.inj h; left; rfl
    · obtain rfl := Option.some.inj h; left; rfl
  | gBegin =>
    simp only [gmicro, hpc, beginW] at h
    obtain rfl := Option.some.inj h
    left; split <;> rfl
  | gBeginW r f =>
    simp only [gmicro, hpc, beginW] at h
    obtain rfl := Option.some.inj h
    left; split <;> rfl
  | gEndW r f =>
    simp only [gmicro, hpc, endW] at h
    obtain rfl := Option.some.inj h
    left; split <;> rfl
  | gFinal =>
    simp only [gmicro, hpc, endW] at h
    obtain rfl := Option.some.inj h
    left; split <;> rfl
  | gCheck r =>
    simp only [gmicro, hpc, afterCheck] at h
    repeat' (split at h)
    all_goals (obtain rfl := Option.some.inj h; left; rfl)
  | _ =>
    simp only [gmicro, hpc] at h
    repeat' (split at h)
    all_goals (first | contradiction | (obtain rfl := Option.some.inj h; left; rfl))

local macro "same_store" s:ident : tactic => `(tactic| (
  left; intro c
  simp only [State.gcGoto, State.setChunk, ConcFine.State.setChunk, beginApp]
  first
    | exact ⟨rfl, rfl⟩
    | (by_cases hcc : c = ($s).gc.dst <;> simp [hcc])))

/-- what a GC micro-step does to files and write buffers -/
theorem gmicro_chunk_cases {cfg : GCfg} {s s' : State} (hc : GCtl s) (hk : GChk s) (hz : noHaz s')
    (h : gmicro cfg s = some s') :
    (∀ c, (s'.base.chunks c).file = (s.base.chunks c).file ∧ (s'.base.chunks c).wbuf = (s.base.chunks c).wbuf)
    ∨ (∃ r f off, s.gc.pc = .gFlush r f off ∧ r ∈ (s.base.chunks s.gc.src).file ∧ s.gc.dst ≠ s.gc.src ∧ ∀ c,
        (s'.base.chunks c).wbuf = (s.base.chunks c).wbuf ∧
        (s'.base.chunks c).file = if c = s.gc.dst then (s.base.chunks s.gc.dst).file ++ [{ r with off := off }]
                                  else (s.base.chunks c).file)
    ∨ (s.gc.pc = .gRemove ∧ ∀ c, (s'.base.chunks c).wbuf = (s.base.chunks c).wbuf ∧
        (s'.base.chunks c).file = if c = s.gc.src then [] else (s.base.chunks c).file) := by
  obtain ⟨_, hz2, hz3⟩ := hz
  have hst : s.gc.started = true := by
    cases hs : s.gc.started with
    | true => rfl
    | false => simp [gmicro, hc.idle hs] at h
  cases hpc : s.gc.pc with
  | idle => simp [gmicro, hpc] at h
  | done => simp [gmicro, hpc] at h
  | gBegin =>
    simp only [gmicro, hpc] at h
    obtain rfl := Option.some.inj h
    obtain ⟨e1, e2, e3⟩ := beginW_nohaz hc.norew hz2 hz3
    rw [e3]; same_store s
  | gBeginW r f =>
    simp only [gmicro, hpc] at h
    obtain rfl := Option.some.inj h
    obtain ⟨e1, e2, e3⟩ := beginW_nohaz hc.norew hz2 hz3
    rw [e3]; same_store s
  | gEndW r f =>
    simp only [gmicro, hpc] at h
    obtain rfl := Option.some.inj h
    rw [endW_norew hc.norew]; same_store s
  | gFinal =>
    simp only [gmicro, hpc] at h
    obtain rfl := Option.some.inj h
    rw [endW_norew hc.norew]; same_store s
  | gCheck r =>
    simp only [gmicro, hpc, afterCheck] at h
    repeat' (split at h)
    all_goals (obtain rfl := Option.some.inj h; same_store s)
  | gTail => exact absurd hpc hc.notail
  | gFlush r f off =>
    simp only [gmicro, hpc] at h
    obtain rfl := Option.some.inj h
    have hd : s.gc.dst < s.gc.gbegin := by
      rcases hc.dst hst with h1 | ⟨h1, _⟩
      · exact h1
      · rw [hpc] at h1; simp at h1
    have hsd : s.gc.dst ≠ s.gc.src := by have := (hc.src hst).1; omega
    have hxd : X s s.gc.dst := by rw [X_iff]; exact ⟨hst, by have := (hc.rng hst).1; omega⟩
    have c1 := hk.cold _ hxd
    have w1 := hk.whf _ hxd (by simp [hpc])
    have o1 := hk.off off (by rw [hpc]; rfl)
    have p1 := hk.wop (by rw [hpc]; rfl)
    simp only [pendC, hpc, if_true] at w1 o1
    have hoff : off = (s.base.chunks s.gc.dst).fsize := by omega
    right; left
    refine ⟨r, f, off, rfl, hk.remIn r (by simp [rem, hpc]), hsd, ?_⟩
    intro c
    simp only [State.setChunk, ConcFine.State.setChunk]
    rw [p1.2, writeAt_end _ _ c1.1.cfile, hoff]
    by_cases hcc : c = s.gc.dst <;> simp [hcc]
  | gRemove =>
    simp only [gmicro, hpc] at h
    obtain rfl := Option.some.inj h
    right; right
    refine ⟨rfl, ?_⟩
    intro c
    simp only [State.gcGoto, State.setChunk, ConcFine.State.setChunk]
    by_cases hcc : c = s.gc.src <;> simp [hcc]
  | gClearMem =>
    simp only [gmicro, hpc] at h
    obtain rfl := Option.some.inj h
    have hxs : X s s.gc.src := by rw [X_iff]; exact ⟨hst, hc.srcp (Or.inl (by rw [hpc]; rfl))⟩
    have := (hk.cold _ hxs).1.nobuf
    left
    intro c
    simp only [State.gcGoto, State.setChunk, ConcFine.State.setChunk]
    by_cases hcc : c = s.gc.src
    · subst hcc; simp [this]
    · simp [hcc]
  | _ =>
    simp only [gmicro, hpc] at h
    repeat' (split at h)
    all_goals (obtain rfl := Option.some.inj h; same_store s)

theorem gmicro_const {cfg : GCfg} {s s' : State} (h : gmicro cfg s = some s') :
    s'.gc.started = s.gc.started ∧ s'.gc.gend = s.gc.gend ∧ s'.gc.gbegin = s.gc.gbegin := by
  gmicro_split h
  all_goals first
    | exact ⟨rfl, rfl, rfl⟩
    | (simp only [afterCheck]; split <;> exact ⟨rfl, rfl, rfl⟩)
    | (simp only [beginW]; split <;> exact ⟨rfl, rfl, rfl⟩)
    | (simp only [endW]; split <;> exact ⟨rfl, rfl, rfl⟩)

theorem gmicro_thr {cfg : GCfg} {s s' : State} (h : gmicro cfg s = some s') :
    s'.base.thr = s.base.thr ∧ s'.base.newHead = s.base.newHead ∧ s'.base.hist = s.base.hist ∧
    s'.base.clock = s.base.clock ∧ s'.base.flushLock = s.base.flushLock ∧ s'.base.writeLock = s.base.writeLock ∧
    s'.base.dsLock = s.base.dsLock ∧ s'.base.fatal = s.base.fatal ∧ s'.base.readErr = s.base.readErr := by
  have := (gmicro_base h).1
  rw [this]
  exact ⟨rfl, rfl, rfl, rfl, rfl, rfl, rfl, rfl, rfl⟩

theorem wpre_gc {b b' : ConcFine.State} (h1 : ∀ k, oldVer b' k = oldVer b k) (h2 : ∀ k, b'.tree k = none ↔ b.tree k = none)
    {q : WReq} {ver : Int} (h : WPre b q ver) : WPre b' q ver := by
  unfold WPre at *
  rw [h1, h2]; exact h

theorem writerOK_gc {b b' : ConcFine.State} (h1 : ∀ k, oldVer b' k = oldVer b k)
    (h2 : ∀ k, b'.tree k = none ↔ b.tree k = none) {pc : PC}
    (h3 : ∀ pos r, WPosOK b.newHead pc → pos.chunk = b.newHead → StoredAt b.chunks pos r → StoredAt b'.chunks pos r)
    (hp : WPosOK b.newHead pc) (h : WriterOK b pc) : WriterOK b' pc := by
  cases pc with
  | wSlot q ver => exact ⟨h.1, wpre_gc h1 h2 h.2⟩
  | wAppend q ver pos => exact ⟨h.1, wpre_gc h1 h2 h.2⟩
  | wDsUnlock q ver pos => exact ⟨h.1, wpre_gc h1 h2 h.2.1, h3 _ _ hp hp h.2.2⟩
  | wTreeSet q ver pos => exact ⟨h.1, wpre_gc h1 h2 h.2.1, h3 _ _ hp hp h.2.2⟩
  | wLock q => exact h
  | wGet q => exact h
  | _ => trivial

end ConcGC
