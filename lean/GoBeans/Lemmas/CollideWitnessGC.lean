/-
  C13, part (c), continued: the GC mechanisms (same conventions as CollideWitness.lean).
-/
import GoBeans.Lemmas.CollideWitness

namespace CollideWitness
open Collide Store Spec

/-- W7: GC (merge off) discards the record of a key the tree does not know — the slot belongs to the other key, the
    key hash is not in the collision table, and after the restart no in-memory hint buffer covers it -/
def w7 : List Collide.Op := [.set kA [1] 0 0 T 256, .set kB [2] 0 0 T 256, .reopen true, .set kX [9] 0 0 T 256, .flush,
  gcAll 0 0 false, .get kA, .get kB]
theorem W7_gc_discards_record_of_key_unknown_to_tree :
    mdl w7 = [.stored, .stored, .stored, .miss, .value 0 [2]]
    ∧ ref w7 = [.stored, .stored, .stored, .value 0 [1], .value 0 [2]] := by decide +kernel

/-- W12 (the same history with merge on): the hint merge before the pass reports the collision, both keys enter the
    collision table and both records are kept -/
def w12 : List Collide.Op := [.set kA [1] 0 0 T 256, .set kB [2] 0 0 T 256, .reopen true, .set kX [9] 0 0 T 256, .flush,
  gcAll 0 0 true, .get kA, .get kB]
theorem W12_gc_with_merge_keeps_both : mdl w12 = ref w12 := by decide +kernel

/-- W8: after a rebuild removed the shared slot (W4), a pass starting at file 0 discards every record of the hash
    class although the collision table still lists the keys: the table points at a removed file and reads fail -/
def w8 : List Collide.Op := [.set kA [1] 0 0 T 256, .set kB [2] 0 0 T 256, .get kA, .delete kB 256 T, .reopen false,
  .set kX [9] 0 0 T 256, .flush, gcAll 0 0 false, .get kA]
theorem W8_gc_leaves_collision_table_pointing_at_removed_file :
    mdl w8 = [.stored, .stored, .value 0 [1], .deleted, .stored, .error]
    ∧ ref w8 = [.stored, .stored, .value 0 [1], .deleted, .stored, .value 0 [1]] := by decide +kernel

/-- W9: the hash is in the collision table, key c is not; GC finds no in-memory hint of c, "guesses" that c's
    SUPERSEDED record is newest, relocates it and `hints.set(…, "gc")` enters it into the table: c reads its older value -/
def w9 : List Collide.Op := [.set kC [1] 0 0 T 256, .reopen true, .set kC [17] 0 0 T 256, .set kA [2] 0 0 T 256, .set kB [3] 0 0 T 256,
  .get kA, .reopen true, .set kX [9] 0 0 T 256, .flush, gcAll 0 0 false, .get kC]
theorem W9_gc_guess_registers_superseded_record :
    mdl w9 = [.stored, .stored, .stored, .stored, .value 0 [2], .stored, .value 0 [1]]
    ∧ ref w9 = [.stored, .stored, .stored, .stored, .value 0 [2], .stored, .value 0 [17]] := by decide +kernel

/-- W11: GC discards the delete marker of a (unknown to the tree, not covered) while a's older record in an earlier
    file survives: the deleted key is back -/
def w11 : List Collide.Op := [.set kA [1] 0 0 T 256, .reopen true, .delete kA 256 T, .set kB [2] 0 0 T 256, .reopen true,
  .set kX [9] 0 0 T 256, .flush, gcAll 1 1 false, .get kA]
theorem W11_deleted_key_back_after_gc :
    mdl w11 = [.stored, .deleted, .stored, .stored, .value 0 [1]]
    ∧ ref w11 = [.stored, .deleted, .stored, .stored, .miss] := by decide +kernel

end CollideWitness
