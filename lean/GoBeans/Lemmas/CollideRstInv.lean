/-
  C13 (a) with restarts: the restart invariant `RI` of the bucket (hint manager exact on the data files, the tree dump id
  at most `maxDumpedHintID`, `maxDumpedHintID` names an existing data file) and its preservation by the client
  operations, flush, the dumper's round and a hint merge.
-/
import GoBeans.Lemmas.CollideRstMd
import GoBeans.Lemmas.CollideExt
set_option linter.unusedSimpArgs false
set_option linter.unusedVariables false
namespace CollideLemmas
open Store Spec HintIndex Collide HintBufferLemmas HintLoadLemmas HintIndexLemmas StoreLemmas

section
variable (hash : Key → Nat)

/-- a data file exists for the restart (`lastNonEmpty`) -/
def Exists' (b : Bucket) (i : Nat) : Prop := (b.chunks i).size > 0 ∨ (b.chunks i).created = true

/-- a non-empty data file is covered to its end by a split file or by the newest buffer -/
def DsFull (ck : HCk) (size : Nat) : Prop :=
  size > 0 → (∃ sp ∈ ck.old, ∃ f, sp.file = some f ∧ f.datasize = size) ∨ (ck.last.items ≠ [] ∧ ck.last.maxoffset = size)

theorem diskFull_bound (all : FileRecs) : ∀ (segs : List FileRecs) (fs : List (Option SplitFile)) (tail : FileRecs),
    DiskFull hash all segs fs tail → ∀ f, some f ∈ fs → (f.datasize = 0 ∨ ∃ p ∈ all, f.datasize ≤ p.1 + p.2.size) := by
  intro segs
  induction segs with
  | nil =>
    intro fs tail h f hf
    cases fs with
    | nil => cases hf
    | cons _ _ => simp [DiskFull] at h
  | cons s ss ih =>
    intro fs tail h f hf
    cases fs with
    | nil => cases hf
    | cons f0 fs =>
      simp only [DiskFull] at h
      rw [List.mem_cons] at hf
      rcases hf with hf | hf
      · subst hf
        exact h.1.2.2.2.2
      · exact ih fs tail h.2 f hf

/-- no split claims more data than there is -/
theorem ckI_ds_le {scan : Bool} {all pre rest : FileRecs} {ck : HCk} (h : CkI hash scan all pre rest ck) (B : Nat)
    (hB : ∀ x ∈ all, x.1 + x.2.size ≤ B) :
    (∀ sp ∈ ck.old, ∀ f, sp.file = some f → f.datasize ≤ B) ∧ ck.last.maxoffset ≤ B := by
  obtain ⟨segs, segLast, h1, h2, h3⟩ := h
  constructor
  · intro sp hsp f hf
    have : some f ∈ ck.old.map vfile := by
      rw [List.mem_map]
      exact ⟨sp, hsp, by unfold vfile; rw [hf]⟩
    rcases diskFull_bound hash all segs _ _ h2 f this with a | ⟨p, hp, hle⟩
    · omega
    · have := hB p hp; omega
  · rcases h3.bound with a | ⟨p, hp, hle⟩
    · omega
    · have := hB p hp; omega

theorem dsFull_trydump {V : Nat → FileRecs} {hs : Hints} (g : HsG hash V hs) (c : Nat) (dl : Bool) (j : Nat) (sz : Nat)
    (h : DsFull (hs.chunks j) sz) : DsFull ((hs.trydump c dl).chunks j) sz := by
  by_cases hj : j = c
  · subst hj
    intro hsz
    exact (trydump_r hs j dl (g.good hash j)).2.2.2.2.2 sz (h hsz)
  · rw [(hsG_trydump hash g c dl).2.2.2.1 j hj]; exact h

theorem dsFull_dumpAll {V : Nat → FileRecs} (n : Nat) {hs : Hints} (g : HsG hash V hs) (j : Nat) (sz : Nat)
    (h : DsFull (hs.chunks j) sz) : DsFull ((hs.dumpAll n).chunks j) sz := by
  induction n with
  | zero => exact h
  | succ n ih =>
    have e : hs.dumpAll (n + 1) = (hs.dumpAll n).trydump n false := by
      unfold Hints.dumpAll
      rw [List.range_succ, List.foldl_append]; rfl
    rw [e]
    exact dsFull_trydump hash (hsG_dumpAll hash n g).1 n false j sz ih

theorem dsFull_closeAll {V : Nat → FileRecs} (n : Nat) {hs : Hints} (g : HsG hash V hs) (j : Nat) (sz : Nat)
    (h : DsFull (hs.chunks j) sz) : DsFull ((closeAll hs n).chunks j) sz := by
  induction n with
  | zero => exact h
  | succ n ih =>
    have e : closeAll hs (n + 1) = (closeAll hs n).trydump n true := by
      unfold closeAll
      rw [List.range_succ, List.foldl_append]; rfl
    rw [e]
    exact dsFull_trydump hash (hsG_closeAll hash n g).1 n true j sz ih

structure RI (st : State) : Prop where
  hg : HsG hash (fun c => (st.b.chunks c).recs) st.hs
  tid : isLarger st.treeID st.hs.maxDumped.1 st.hs.maxDumped.2 = true ∨ (st.treeFile = none ∧ st.treeID = (0, 0))
  top : st.hs.maxDumped.1 = 0 ∨ ∃ i, st.hs.maxDumped.1 ≤ i ∧ i ≤ st.b.head ∧ Exists' st.b i
  dsf : ∀ c, DsFull (st.hs.chunks c) (st.b.chunks c).size
  ctf : ∀ t, st.ctFile = some t → t.items = []

theorem top_of_nonempty {cfg : Store.Cfg} {b : Bucket} (w : WF cfg b) (c : Nat) (h : (b.chunks c).recs ≠ []) :
    c ≤ b.head ∧ (b.chunks c).size > 0 := by
  constructor
  · cases Nat.lt_or_ge b.head c with
    | inl hlt => exact absurd (w.fresh c hlt).1 h
    | inr hge => exact hge
  · cases hr : (b.chunks c).recs with
    | nil => exact absurd hr h
    | cons p l =>
      have := okFrom_mem (w.ok c) p (by rw [hr]; simp)
      omega

theorem hsG_congr {V : Nat → FileRecs} {hs hs' : Hints} (hch : hs'.chunks = hs.chunks) (hmc : hs'.maxChunk = hs.maxChunk)
    (hmd : hs'.maxDumped = hs.maxDumped) (g : HsG hash V hs) : HsG hash V hs' := by
  refine ⟨?_, ?_, ?_, ?_⟩
  · intro c; rw [hch]; exact g.ck c
  · intro c; rw [hch]; exact g.oldf c
  · intro c hc; rw [hch]; rw [hmc] at hc; exact g.le c hc
  · intro c j hj; rw [hch] at hj; rw [hmd]; exact g.mdb c j hj

/-- nothing the invariant looks at has changed -/
theorem ri_of {st st' : State} (hrecs : ∀ i, (st'.b.chunks i).recs = (st.b.chunks i).recs)
    (hsize : ∀ i, (st'.b.chunks i).size = (st.b.chunks i).size) (hctf : st'.ctFile = st.ctFile)
    (hkeep : ∀ i, Exists' st.b i → Exists' st'.b i) (hhead : st.b.head ≤ st'.b.head)
    (hch : st'.hs.chunks = st.hs.chunks) (hmc : st'.hs.maxChunk = st.hs.maxChunk) (hmd : st'.hs.maxDumped = st.hs.maxDumped)
    (htid : st'.treeID = st.treeID) (htf : st'.treeFile = st.treeFile) (ri : RI hash st) : RI hash st' := by
  refine ⟨?_, ?_, ?_, ?_, ?_⟩
  · have : (fun c => (st'.b.chunks c).recs) = (fun c => (st.b.chunks c).recs) := funext hrecs
    rw [this]
    exact hsG_congr hash hch hmc hmd ri.hg
  · rw [htid, htf, hmd]; exact ri.tid
  · rw [hmd]
    rcases ri.top with h | ⟨i, h1, h2, h3⟩
    · exact Or.inl h
    · exact Or.inr ⟨i, h1, by omega, hkeep i h3⟩
  · intro c; rw [hch, hsize]; exact ri.dsf c
  · rw [hctf]; exact ri.ctf

theorem append_keeps (cfg : Store.Cfg) (b : Bucket) (r : Rec) (hs : 0 < r.size) (i : Nat) (h : Exists' b i) :
    Exists' (b.append cfg r).1 i := by
  unfold Exists' at *
  by_cases hi : i = (b.append cfg r).2.chunk
  · left
    rw [hi, (append_size cfg b r).1]; omega
  · rw [(append_size cfg b r).2 i hi]
    rcases h with h | h
    · exact Or.inl h
    · right
      by_cases hrot : (b.chunks b.head).size + r.size > cfg.dataFileMax
      · rw [append_rot cfg b r hrot] at hi ⊢
        simp only at hi
        unfold Bucket.pushRec Bucket.sealHead
        simp only [chunks_setChunk, if_neg hi]
        split
        · rfl
        · exact h
      · rw [append_norot cfg b r hrot] at hi ⊢
        simp only at hi
        unfold Bucket.pushRec
        simp only [chunks_setChunk, if_neg hi]
        exact h

theorem mkItem_wItem (r : Rec) (pos : Pos) : mkItem hash false (pos.off, r) = wItem hash r pos := rfl

theorem ri_put (cfg : Collide.Cfg) (hcap : 1 ≤ cfg.cap) {st : State} (ri : RI hash st) (w : WF cfg.s st.b) (r : Rec) (hs : 0 < r.size) :
    RI hash (st.put hash cfg r).1 := by
  rw [put_eq]
  obtain ⟨a1, a2, a3, a4, a5, a6⟩ := append_chunks cfg.s st.b r w.posInv
  have hV : (fun c => (((st.b.append cfg.s r).1.chunks c).recs)) =
      Vpush (fun c => (st.b.chunks c).recs) (st.b.append cfg.s r).2.chunk ((st.b.append cfg.s r).2.off, r) := by
    funext c
    unfold Vpush
    by_cases hc : c = (st.b.append cfg.s r).2.chunk
    · rw [if_pos hc, hc]; exact a1
    · rw [if_neg hc]; exact a2 c hc
  have hp : ∀ x ∈ (st.b.chunks (st.b.append cfg.s r).2.chunk).recs, x.1 + x.2.size ≤ ((st.b.append cfg.s r).2.off, r).1 := by
    intro x hx
    have := okFrom_mem (w.ok _) x hx
    show x.1 + x.2.size ≤ (st.b.append cfg.s r).2.off
    rw [a5]; omega
  obtain ⟨g1, g2, g3⟩ := hsG_setItem hash ri.hg cfg.cap hcap (st.b.append cfg.s r).2.chunk ((st.b.append cfg.s r).2.off, r) hp hs
  rw [mkItem_wItem] at g1 g2 g3
  refine ⟨?_, ?_, ?_, ?_, ri.ctf⟩
  rotate_left 3
  · intro c
    show DsFull ((st.hs.setItem cfg.cap (wItem hash r (st.b.append cfg.s r).2) (st.b.append cfg.s r).2.chunk r.size).1.chunks c)
      ((st.b.append cfg.s r).1.chunks c).size
    by_cases hc : c = (st.b.append cfg.s r).2.chunk
    · rw [hc, (append_size cfg.s st.b r).1]
      intro _
      obtain ⟨d1, d2⟩ := ckI_ds_le hash (ri.hg.ck (st.b.append cfg.s r).2.chunk) (st.b.append cfg.s r).2.off
        (fun x hx => by have := okFrom_mem (w.ok _) x hx; rw [a5]; omega)
      exact (setItem_r cfg.cap hcap st.hs (wItem hash r (st.b.append cfg.s r).2) (st.b.append cfg.s r).2.chunk r.size
        (ri.hg.good hash _) d1 d2).2.2.2.2
    · rw [g3 c hc, (append_size cfg.s st.b r).2 c hc]; exact ri.dsf c
  · show HsG hash (fun c => (((st.b.append cfg.s r).1.chunks c).recs)) _
    rw [hV]; exact g1
  · rcases ri.tid with h | h
    · exact Or.inl (g2 _ h)
    · exact Or.inr h
  · show (st.hs.setItem cfg.cap (wItem hash r (st.b.append cfg.s r).2) (st.b.append cfg.s r).2.chunk r.size).1.maxDumped.1 = 0 ∨
      ∃ i, (st.hs.setItem cfg.cap (wItem hash r (st.b.append cfg.s r).2) (st.b.append cfg.s r).2.chunk r.size).1.maxDumped.1 ≤ i
        ∧ i ≤ (st.b.append cfg.s r).1.head ∧ Exists' (st.b.append cfg.s r).1 i
    rcases setItem_mdOr cfg.cap st.hs (wItem hash r (st.b.append cfg.s r).2) (st.b.append cfg.s r).2.chunk r.size with h | h
    · rw [h]
      rcases ri.top with t | ⟨i, t1, t2, t3⟩
      · exact Or.inl t
      · refine Or.inr ⟨i, t1, ?_, append_keeps cfg.s st.b r hs i t3⟩
        rw [a4]; rcases a3 with a3 | a3 <;> omega
    · right
      refine ⟨(st.b.append cfg.s r).2.chunk, by rw [h]; exact Nat.le_refl _, by rw [a4]; exact Nat.le_refl _, Or.inl ?_⟩
      rw [(append_size cfg.s st.b r).1]; omega

theorem ri_cas (cfg : Collide.Cfg) (hcap : 1 ≤ cfg.cap) {st : State} (ri : RI hash st) (w : WF cfg.s st.b)
    (k : Key) (body : Bytes) (flag : Nat) (rev : Int) (ts : Option Nat) (size wts : Nat) (hs : 0 < size) :
    RI hash (st.checkAndSet hash cfg k body flag rev ts size wts).1 := by
  have pp := fun v => ri_put hash cfg hcap ri w { key := k, ver := v, flag := flag, ts := ts, body := body, size := size, wts := wts } hs
  unfold State.checkAndSet
  cases st.memMeta hash k with
  | none =>
    simp only
    by_cases c1 : (nextVer 0 rev).2 = false
    · rw [if_pos c1]; exact ri
    · rw [if_neg c1]
      by_cases c2 : (nextVer 0 rev).1 < 0
      · rw [if_pos c2]; exact ri
      · rw [if_neg c2]; exact pp _
  | some it =>
    simp only
    by_cases c0 : (it.ver > 0 ∧ (if rev ≥ 0 then vhashOf body else 0) = it.vhash) ∧ cfg.s.checkVHash = true
    · rw [if_pos c0]
      by_cases c00 : rev ≠ 0
      · rw [if_pos c00]
        refine @ri_of hash st _ ?_ ?_ ?_ ?_ ?_ ?_ ?_ ?_ ?_ ?_ ri
        · intro _; rfl
        · intro _; rfl
        · rfl
        · intro _ h; exact h
        · exact Nat.le_refl _
        all_goals rfl
      · rw [if_neg c00]; exact ri
    · rw [if_neg c0]
      by_cases c1 : (nextVer it.ver rev).2 = false
      · rw [if_pos c1]; exact ri
      · rw [if_neg c1]
        by_cases c2 : (nextVer it.ver rev).1 < 0 ∧ it.ver < 0
        · rw [if_pos c2]; exact ri
        · rw [if_neg c2]; exact pp _

theorem get_same (st : State) (k : Key) :
    (st.get hash k).1.b = st.b ∧ (st.get hash k).1.hs = st.hs ∧ (st.get hash k).1.treeID = st.treeID
    ∧ (st.get hash k).1.treeFile = st.treeFile ∧ (st.get hash k).1.ctFile = st.ctFile := by
  unfold State.get
  split
  · exact ⟨rfl, rfl, rfl, rfl, rfl⟩
  · split
    · exact ⟨rfl, rfl, rfl, rfl, rfl⟩
    · split
      · exact ⟨rfl, rfl, rfl, rfl, rfl⟩
      · split
        · exact ⟨rfl, rfl, rfl, rfl, rfl⟩
        · split
          · exact ⟨rfl, rfl, rfl, rfl, rfl⟩
          · simp only
            split <;> exact ⟨rfl, rfl, rfl, rfl, rfl⟩

theorem ri_get {st : State} (ri : RI hash st) (k : Key) : RI hash (st.get hash k).1 := by
  obtain ⟨e1, e2, e3, e4, e5⟩ := get_same hash st k
  exact ri_of hash (st := st) (fun i => by rw [e1]) (fun i => by rw [e1]) e5 (fun i h => by rw [e1]; exact h) (by rw [e1]; exact Nat.le_refl _)
    (by rw [e2]) (by rw [e2]) (by rw [e2]) e3 e4 ri

/-- sizes of the records an operation writes -/
def SizeOK : Collide.Op → Prop
  | .set _ _ _ _ _ size => 0 < size
  | .delete _ size _ => 0 < size
  | .incr _ _ size _ => 0 < size
  | _ => True

/-- the operations that are not a restart and not a GC request keep the invariant -/
theorem ri_step (cfg : Collide.Cfg) (hcap : 1 ≤ cfg.cap) {st : State} (ri : RI hash st) (w : WF cfg.s st.b) (op : Collide.Op)
    (hsz : SizeOK op) (hno : (∀ kt, op ≠ .reopen kt) ∧ (∀ g mg, op ≠ .gc g mg)) (hmg : (st.merge false).ct.items = []) :
    RI hash (Collide.step hash cfg st op).1 := by
  cases op with
  | set k body flag rev ts size =>
    have := ri_cas hash cfg hcap ri w k body flag rev (some ts) size ts hsz
    simp only [Collide.step]
    generalize st.checkAndSet hash cfg k body flag rev (some ts) size ts = A at this
    obtain ⟨st', res⟩ := A
    cases res <;> exact this
  | delete k size wts =>
    have := ri_cas hash cfg hcap ri w k [] 0 (-1) none size wts hsz
    simp only [Collide.step]
    generalize st.checkAndSet hash cfg k [] 0 (-1) none size wts = A at this
    obtain ⟨st', res⟩ := A
    cases res <;> exact this
  | incr k d size wts =>
    have rg := ri_get hash ri k
    have wg : WF cfg.s (st.get hash k).1.b := by rw [(get_same hash st k).1]; exact w
    have pp := fun v val => ri_put hash cfg hcap rg wg { key := k, ver := v, flag := Spec.FLAG_INCR, ts := none, body := Spec.itoa val, size := size, wts := wts } hsz
    simp only [Collide.step]
    split
    · exact pp _ _
    · exact rg
    · split
      · exact pp _ _
      · split
        · exact rg
        · split
          · exact rg
          · split
            · exact rg
            · exact pp _ _
  | get k =>
    have rg := ri_get hash ri k
    simp only [Collide.step]
    split
    · exact rg
    · exact rg
    · split <;> exact rg
  | info k =>
    have rg := ri_get hash ri k
    simp only [Collide.step]
    split <;> exact rg
  | flush =>
    simp only [Collide.step]
    refine @ri_of hash st _ ?_ ?_ ?_ ?_ (Nat.le_refl _) ?_ ?_ ?_ ?_ ?_ ri
    rotate_left 4
    · rfl
    · rfl
    · rfl
    · rfl
    · rfl
    · intro i
      show ((st.b.setChunk st.b.head _).chunks i).recs = _
      rw [chunks_setChunk]
      by_cases h : i = st.b.head
      · rw [if_pos h, h]; rfl
      · rw [if_neg h]
    · intro i
      show ((st.b.setChunk st.b.head _).chunks i).size = _
      rw [chunks_setChunk]
      by_cases h : i = st.b.head
      · rw [if_pos h, h]; rfl
      · rw [if_neg h]
    · rfl
    · intro i h
      unfold Exists' at *
      show ((st.b.setChunk st.b.head _).chunks i).size > 0 ∨ ((st.b.setChunk st.b.head _).chunks i).created = true
      rw [chunks_setChunk]
      by_cases hi : i = st.b.head
      · rw [if_pos hi]; subst hi; exact h
      · rw [if_neg hi]; exact h
  | reopen kt => exact absurd rfl (hno.1 kt)
  | gc g mg => exact absurd rfl (hno.2 g mg)
  | hintDump =>
    simp only [Collide.step]
    obtain ⟨d1, d2, d3⟩ := hsG_dumpAll hash (st.b.head + 1) ri.hg
    refine ⟨d1, ?_, ?_, fun c => dsFull_dumpAll hash _ ri.hg c _ (ri.dsf c), ri.ctf⟩
    · rcases ri.tid with h | h
      · exact Or.inl (d2 _ h)
      · exact Or.inr h
    · show (st.hs.dumpAll (st.b.head + 1)).maxDumped.1 = 0 ∨ ∃ i, (st.hs.dumpAll (st.b.head + 1)).maxDumped.1 ≤ i ∧ i ≤ st.b.head ∧ Exists' st.b i
      rcases dumpAll_mdTop hash (st.b.head + 1) ri.hg with h | h
      · rw [h]; exact ri.top
      · obtain ⟨t1, t2⟩ := top_of_nonempty w _ h
        exact Or.inr ⟨_, Nat.le_refl _, t1, Or.inl t2⟩
  | hintMerge =>
    simp only [Collide.step]
    have r0 : RI hash { st with hs := (st.merge false).hs } := by
      refine @ri_of hash st _ ?_ ?_ ?_ ?_ ?_ ?_ ?_ ?_ ?_ ?_ ri
      · intro _; rfl
      · intro _; rfl
      · rfl
      · intro _ h; exact h
      · exact Nat.le_refl _
      all_goals rfl
    exact ⟨r0.hg, r0.tid, r0.top, r0.dsf, fun t ht => by
      have : t = (st.merge false).ct := by
        have e : (st.merge false).ctFile = some (st.merge false).ct := rfl
        rw [e] at ht; exact (Option.some.inj ht).symm
      rw [this]; exact hmg⟩

theorem hsG_init : HsG hash (fun c => ((({} : State).b).chunks c).recs) ({} : State).hs := by
  refine ⟨fun c => ckI_empty hash false [], fun c sp hsp => (by cases hsp), fun c _ => rfl, fun c j hj => (by cases hj)⟩

theorem ri_init : RI hash ({} : State) :=
  ⟨hsG_init hash, Or.inl rfl, Or.inl rfl, fun c h => absurd h (by show ¬ (0 > 0); omega), fun t ht => (by cases ht)⟩

end
end CollideLemmas
