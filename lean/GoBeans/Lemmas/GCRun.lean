/-
  The concrete pass `Store.gcRun` (destination choice, append / in-place rewrite, destination switch, source clear,
  end of writing) performs, on the log of the real files, exactly the abstract steps of Lemmas/GCStep.lean.

  `vlog s src rest` is the VIRTUAL LOG of a pass in progress: files below the source as they will be (the
  destination file with what has been written to it, in place of its stale content when it is rewritten), the unread
  remainder `rest` of the source, the files above it.  `SInv` is the bookkeeping invariant (destination at or below
  the source, files between them empty, write head above everything written and — in place — at or below the next
  record to read, every file inside its size limit).
-/
import GoBeans.Lemmas.GCStep
set_option linter.unusedSimpArgs false
set_option linter.unusedVariables false
namespace StoreLemmas
open Store Spec

/-! ### offsets inside a file -/

/-- each record starts at or after the end of the previous one (from `lo`), is not empty, and the last one ends
    at or before `sz` -/
def okFrom : Nat → List (Nat × Rec) → Nat → Prop
  | lo, [], sz => lo ≤ sz
  | lo, p :: rest, sz => lo ≤ p.1 ∧ 0 < p.2.size ∧ okFrom (p.1 + p.2.size) rest sz

theorem okFrom_le : ∀ {lo : Nat} {l : List (Nat × Rec)} {sz : Nat}, okFrom lo l sz → lo ≤ sz
  | _, [], _, h => h
  | _, p :: rest, _, h => by
    have := okFrom_le h.2.2
    have := h.1
    omega

theorem okFrom_lo {lo lo' : Nat} {l : List (Nat × Rec)} {sz : Nat} (h : okFrom lo l sz) (hl : lo' ≤ lo) : okFrom lo' l sz := by
  cases l with
  | nil => exact Nat.le_trans hl h
  | cons p rest => exact ⟨Nat.le_trans hl h.1, h.2⟩

theorem okFrom_sz : ∀ {lo : Nat} {l : List (Nat × Rec)} {sz sz' : Nat}, okFrom lo l sz → sz ≤ sz' → okFrom lo l sz'
  | _, [], _, _, h, hs => Nat.le_trans h hs
  | _, p :: rest, _, _, h, hs => ⟨h.1, h.2.1, okFrom_sz h.2.2 hs⟩

theorem okFrom_append : ∀ {lo : Nat} {l l2 : List (Nat × Rec)} {mid sz : Nat},
    okFrom lo l mid → okFrom mid l2 sz → okFrom lo (l ++ l2) sz
  | _, [], _, _, _, h, h2 => okFrom_lo h2 h
  | _, p :: rest, _, _, _, h, h2 => ⟨h.1, h.2.1, okFrom_append h.2.2 h2⟩

theorem okFrom_mem : ∀ {lo : Nat} {l : List (Nat × Rec)} {sz : Nat}, okFrom lo l sz → ∀ p ∈ l,
    lo ≤ p.1 ∧ p.1 + p.2.size ≤ sz ∧ 0 < p.2.size
  | _, [], _, _, p, hp => by cases hp
  | lo, q :: rest, sz, h, p, hp => by
    rw [List.mem_cons] at hp
    rcases hp with rfl | hp
    · exact ⟨h.1, okFrom_le h.2.2, h.2.1⟩
    · have := okFrom_mem h.2.2 p hp
      have := h.1
      have := h.2.1
      omega

theorem okFrom_snoc {lo : Nat} {l : List (Nat × Rec)} {wh : Nat} (h : okFrom lo l wh) (r : Rec) (hr : 0 < r.size) :
    okFrom lo (l ++ [(wh, r)]) (wh + r.size) :=
  okFrom_append h ⟨Nat.le_refl _, hr, Nat.le_refl _⟩

theorem okFrom_nil_of_zero {lo : Nat} {l : List (Nat × Rec)} (h : okFrom lo l 0) : l = [] := by
  cases l with
  | nil => rfl
  | cons p rest =>
    have := okFrom_mem h p (by simp)
    omega

/-- offsets are unique: the record found at an offset is the record stored there -/
theorem okFrom_find : ∀ {lo : Nat} {l : List (Nat × Rec)} {sz : Nat}, okFrom lo l sz → ∀ o r, (o, r) ∈ l →
    (l.find? (fun p => p.1 = o)).map (·.2) = some r
  | _, [], _, _, _, _, hp => by cases hp
  | lo, q :: rest, sz, h, o, r, hp => by
    rw [List.mem_cons] at hp
    rcases hp with rfl | hp
    · simp [List.find?_cons]
    · have hm := okFrom_mem h.2.2 (o, r) hp
      have hq := h.2.1
      have hne : ¬ q.1 = o := by simp only at hm; omega
      rw [List.find?_cons]
      simp only [hne, decide_false]
      exact okFrom_find h.2.2 o r hp

theorem okFrom_nodup : ∀ {lo : Nat} {l : List (Nat × Rec)} {sz : Nat}, okFrom lo l sz → (l.map (·.1)).Nodup
  | _, [], _, _ => by simp
  | lo, q :: rest, sz, h => by
    rw [List.map_cons, List.nodup_cons]
    refine ⟨?_, okFrom_nodup h.2.2⟩
    intro hm
    rw [List.mem_map] at hm
    obtain ⟨p, hp, e⟩ := hm
    have := okFrom_mem h.2.2 p hp
    have := h.2.1
    omega

/-- well-formed files: ordered non-overlapping records of non-zero version inside the size limit; nothing above the head -/
structure WF (cfg : Store.Cfg) (b : Bucket) : Prop where
  ok : ∀ i, okFrom 0 (b.chunks i).recs (b.chunks i).size
  max : ∀ i, (b.chunks i).size ≤ cfg.dataFileMax
  fresh : ∀ i, b.head < i → (b.chunks i).recs = [] ∧ (b.chunks i).size = 0

theorem WF.posInv {cfg : Store.Cfg} {b : Bucket} (w : WF cfg b) : PosInv b :=
  ⟨fun i o r h => by have := okFrom_mem (w.ok i) (o, r) h; simp only at this; omega, w.fresh⟩

theorem WF.readAt {cfg : Store.Cfg} {b : Bucket} (w : WF cfg b) (i o : Nat) (r : Rec) (h : (o, r) ∈ (b.chunks i).recs) :
    b.readAt { chunk := i, off := o } = some r :=
  okFrom_find (w.ok i) o r h

/-! ### lists of files -/

def tag (i : Nat) (l : List (Nat × Rec)) : List (Pos × Rec) := l.map (fun p => (({ chunk := i, off := p.1 } : Pos), p.2))

theorem recsAt_eq_tag (b : Bucket) (i : Nat) : recsAt b i = tag i (b.chunks i).recs := rfl

theorem tag_append (i : Nat) (a c : List (Nat × Rec)) : tag i (a ++ c) = tag i a ++ tag i c := by simp [tag]

theorem mem_tag {i : Nat} {l : List (Nat × Rec)} {y : Pos × Rec} : y ∈ tag i l ↔ y.1.chunk = i ∧ (y.1.off, y.2) ∈ l := by
  unfold tag
  rw [List.mem_map]
  constructor
  · rintro ⟨p, hp, rfl⟩; exact ⟨rfl, hp⟩
  · rintro ⟨h1, h2⟩
    refine ⟨(y.1.off, y.2), h2, ?_⟩
    obtain ⟨⟨c, o⟩, r⟩ := y
    simp only at h1; subst h1; rfl

theorem flatMap_range_split (f : Nat → List (Pos × Rec)) (n m : Nat) :
    (List.range (n + m)).flatMap f = (List.range n).flatMap f ++ (List.range' n m).flatMap f := by
  rw [List.range_eq_range', List.range_eq_range', ← List.flatMap_append]
  congr 1
  have := @List.range'_append 0 n m 1
  simp only [Nat.zero_add, Nat.one_mul] at this
  exact this.symm

theorem flatMap_range'_congr (f g : Nat → List (Pos × Rec)) : ∀ (m n : Nat), (∀ i, n ≤ i → i < n + m → f i = g i) →
    (List.range' n m).flatMap f = (List.range' n m).flatMap g
  | 0, _, _ => rfl
  | m + 1, n, h => by
    rw [List.range'_succ, List.flatMap_cons, List.flatMap_cons, h n (Nat.le_refl _) (by omega),
      flatMap_range'_congr f g m (n + 1) (fun i h1 h2 => h i (by omega) (by omega))]

/-- changing one file `d` below `n` by appending `e`, with the files between `d` and `n` empty before and after,
    appends `e` to the concatenation -/
theorem flatMap_range_snoc (f f' : Nat → List (Pos × Rec)) (d : Nat) (e : List (Pos × Rec)) :
    ∀ n, d < n → (∀ i, i ≠ d → f' i = f i) → f' d = f d ++ e → (∀ j, d < j → j < n → f j = []) →
    (List.range n).flatMap f' = (List.range n).flatMap f ++ e
  | 0, h, _, _, _ => by omega
  | n + 1, h, hne, hd, hbetween => by
    rw [List.range_succ, List.flatMap_append, List.flatMap_append]
    simp only [List.flatMap_cons, List.flatMap_nil, List.append_nil]
    by_cases hdn : d = n
    · subst hdn
      rw [flatMap_congr_range d f' f (fun i hi => hne i (by omega)), hd, List.append_assoc]
    · have ih := flatMap_range_snoc f f' d e n (by omega) hne hd (fun j h1 h2 => hbetween j h1 (by omega))
      rw [ih, hne n (fun e => hdn e.symm), hbetween n (by omega) (by omega), List.append_nil, List.append_nil]

theorem log_split (b : Bucket) (n : Nat) (hn : n ≤ b.head) :
    b.log = (List.range n).flatMap (recsAt b) ++ (recsAt b n ++ (List.range' (n + 1) (b.head - n)).flatMap (recsAt b)) := by
  rw [log_eq, show b.head + 1 = n + (b.head + 1 - n) by omega, flatMap_range_split]
  rw [show b.head + 1 - n = (b.head - n) + 1 by omega, List.range'_succ, List.flatMap_cons]

/-- positions of a well-formed bucket's log are unique -/
theorem mem_flatMap_range_chunk (f : Nat → List (Nat × Rec)) (n : Nat) (y : Pos × Rec)
    (h : y ∈ (List.range n).flatMap (fun i => tag i (f i))) : y.1.chunk < n := by
  rw [List.mem_flatMap] at h
  obtain ⟨i, hi, hy⟩ := h
  rw [mem_tag] at hy
  rw [List.mem_range] at hi
  omega

theorem nodup_tag {i : Nat} : ∀ {lo : Nat} {l : List (Nat × Rec)} {sz : Nat}, okFrom lo l sz → ((tag i l).map (·.1)).Nodup
  | _, [], _, _ => by simp [tag]
  | lo, q :: rest, sz, h => by
    have e : tag i (q :: rest) = (({ chunk := i, off := q.1 } : Pos), q.2) :: tag i rest := rfl
    rw [e, List.map_cons, List.nodup_cons]
    refine ⟨?_, nodup_tag h.2.2⟩
    intro hm
    rw [List.mem_map] at hm
    obtain ⟨y, hy, e⟩ := hm
    rw [mem_tag] at hy
    have := okFrom_mem h.2.2 _ hy.2
    have := h.2.1
    have : y.1.off = q.1 := by rw [e]
    simp only at *
    omega

theorem nodup_flatMap_range (f : Nat → List (Nat × Rec)) (hf : ∀ i, ∃ lo sz, okFrom lo (f i) sz) :
    ∀ n, (((List.range n).flatMap (fun i => tag i (f i))).map (·.1)).Nodup
  | 0 => by simp
  | n + 1 => by
    rw [List.range_succ, List.flatMap_append, List.map_append, List.nodup_append]
    refine ⟨nodup_flatMap_range f hf n, ?_, ?_⟩
    · obtain ⟨lo, sz, h⟩ := hf n
      simpa using nodup_tag (i := n) h
    · intro a ha c hc e
      rw [List.mem_map] at ha hc
      obtain ⟨y, hy, rfl⟩ := ha
      obtain ⟨z, hz, hz'⟩ := hc
      have h1 := mem_flatMap_range_chunk f n y hy
      simp only [List.flatMap_cons, List.flatMap_nil, List.append_nil] at hz
      rw [mem_tag] at hz
      rw [← hz'] at e
      rw [e] at h1
      omega

theorem log_nodup {cfg : Store.Cfg} {b : Bucket} (w : WF cfg b) : (b.log.map (·.1)).Nodup := by
  rw [log_eq]
  exact nodup_flatMap_range (fun i => (b.chunks i).recs) (fun i => ⟨0, _, w.ok i⟩) (b.head + 1)

end StoreLemmas
