/-
  C04 for the fine-grained interleaving model of one bucket (Model/ConcFine.lean): clients (set / delete / get) and
  flushers run as programs of atomic micro-steps at the granularity of the Go code's critical sections; a scheduler
  picks any enabled thread's next micro-step.  For EVERY schedule (any number of threads and operations, induction
  over the schedule):
   (i)  safety: the tree item of a key always points at a record that `GetRecordByOffset` can read (write buffer or
        file), of that key and version; a position a reader took from the tree stays readable — in the buffer, or,
        once the buffer test said "not buffered", in the FILE — until the reader reads it; no micro-step of any
        thread changes what is read at a stored position (`read_stable`); the flusher never hits Fatalf / an index
        panic, no get ever fails;
   (ii) the recorded history of every key (invocation = first step, response = last step, linearisation point =
        the tree.set / tree.get micro-step) is an atomic execution in the sense of `Conc.Valid` / `Conc.run`,
        hence passes `checkA` / `checkB` (`C04_fine`).
  Layers: Lemmas/ConcFineChunk (lists, sort.Search, buffer test, layout of a chunk), ConcFineLock, ConcFineLayout,
  ConcFineData, ConcFineHist, ConcFineHistStep.  Core-only.

  Assumed / abstracted (details in the header of Model/ConcFine.lean):
   * a micro-step is atomic = sequential consistency + working mutexes.  The code reads shared state WITHOUT the
     protecting lock in two places — `ds.wbufSize` at data.go:103, and `dc.wbuf`/`dc.size` in `getDiskFileSize`
     (data.go:132) — these are Go data races; in the model they are atomic steps of their own (`fPre`, `fCheck`) and
     proved harmless at that level (`no_fatal_no_read_error`).  `AppendRecord` reads `writingHead` under ds.Mutex
     only (modelled as such: `wSlot` and `wAppend` are different steps).
   * one bucket; no GC, no incr, no explicit revisions (Ver > 0), Conf.CheckVHash = false, no key-hash collisions,
     hints.set / hint dumper not modelled; versions unbounded (no int32 wrap), MAX_NUM_CHUNK not modelled;
     values are ids (0 = none), record bytes / CRC / compression not modelled (C09); bufio buffering of the flusher's
     writer is collapsed (unobservable: a reader only looks at file offsets of DETACHED records and the detach
     follows `w.wbuf.Flush()`); I/O errors and `Payload.Free()` not modelled; `ds.wbufSize` is modelled but nothing
     is proved about it (it only steers the flusher's early exits); the flusher's clock test is a scheduler choice;
     a flush of any chunk may be invoked at any time (superset of the code's flush calls).
  Differential test: `ConcFine.trace cfg keys init sched` gives, per scheduler decision, (enabled?, label of the hook
  the stepped thread is parked at next, `Obs`): the harness parks the real goroutines at the same micro-step
  boundaries, releases them by the same schedule and records the same fields (see `observe`).
-/
import GoBeans.Lemmas.ConcFineHistStep

namespace ConcFine
open Conc (AOp Out Ev Reg regStep)

/-! ### the flusher never dies, a get never fails -/

theorem micro_noerr (cfg : Cfg) (s s' : State) (t : Nat) (hl : LockInv s) (hc : ChunkInv s) (hd : DataInv s)
    (hf : s.fatal = false) (he : s.readErr = false) (h : micro cfg s t = some s') :
    s'.fatal = false ∧ s'.readErr = false := by
  have hfo := hc.fl t
  have hr := hd.rd t
  cases hpc : (s.thr t).pc with
  | fCheck c woff =>
    simp only [micro, hpc] at h
    rw [hpc] at hfo; simp only [FlushOK] at hfo
    have hlk : s.flushLock = some t := (hl.f t).2 (by rw [hpc]; rfl)
    have hok := hc.ok c
    rw [progress_holder hlk, hpc] at hok
    have hdisk := ChunkOK.disk (by simpa [prog] using hok)
    split at h
    · rename_i hne; exact absurd (hfo.trans hdisk.symm) hne
    · obtain rfl := Option.some.inj h; exact ⟨hf, he⟩
  | fFetch c woff n i fl =>
    simp only [micro, hpc] at h
    rw [hpc] at hfo; simp only [FlushOK] at hfo
    split at h
    · rename_i hlt
      split at h
      · obtain rfl := Option.some.inj h; exact ⟨hf, he⟩
      · rename_i hnone
        rw [List.getElem?_eq_none_iff] at hnone
        omega
    · obtain rfl := Option.some.inj h; exact ⟨hf, he⟩
  | rBuf k it =>
    simp only [micro, hpc] at h
    rw [hpc] at hr
    obtain ⟨r, h1, h2⟩ := hr
    have hrd := (hc.ok it.pos.chunk).read r h1.1
    rw [h1.2] at hrd
    split at h
    · rename_i r' hfound
      obtain rfl := Option.some.inj h
      rcases hrd with hf' | ⟨hf', _⟩
      · rw [hfound] at hf'
        obtain rfl := BufRes.found.inj hf'
        simp [State.readDone, State.goto, State.respond, readBad, hf, he, h2]
      · rw [hfound] at hf'; contradiction
    · rename_i herr
      rcases hrd with hf' | ⟨hf', _⟩
      · rw [herr] at hf'; contradiction
      · rw [herr] at hf'; contradiction
    · obtain rfl := Option.some.inj h; exact ⟨hf, he⟩
  | rFile k it =>
    simp only [micro, hpc] at h
    rw [hpc] at hr
    obtain ⟨r, h1, h2, h3⟩ := hr
    have hfl : fileLookup (s.chunks it.pos.chunk) it.pos.off = some r := by
      have := contig_find _ _ _ (hc.ok it.pos.chunk).cfile r h1
      rw [h2] at this; exact this
    obtain rfl := Option.some.inj h
    simp [State.readDone, State.goto, State.respond, readBad, hf, he, hfl, h3]
  | _ =>
    simp only [micro, hpc] at h
    repeat' (split at h)
    all_goals (try contradiction)
    all_goals (obtain rfl := Option.some.inj h; exact ⟨hf, he⟩)

theorem invoke_noerr (s s' : State) (t : Nat) (op : Op) (h : invoke s t op = some s') :
    s'.fatal = s.fatal ∧ s'.readErr = s.readErr := by
  unfold invoke at h
  split at h
  · dsimp only at h
    cases op with
    | write k v sz =>
      dsimp only at h
      split at h
      · contradiction
      · obtain rfl := Option.some.inj h; exact ⟨rfl, rfl⟩
    | delete k sz => obtain rfl := Option.some.inj h; exact ⟨rfl, rfl⟩
    | read k => obtain rfl := Option.some.inj h; exact ⟨rfl, rfl⟩
    | flush c force late => obtain rfl := Option.some.inj h; exact ⟨rfl, rfl⟩
  · contradiction

/-! ### the invariant of the fine-grained model -/

structure Inv (s : State) : Prop where
  lock : LockInv s
  layout : ChunkInv s
  data : DataInv s
  hist : HistInv s
  alive : s.fatal = false
  noerr : s.readErr = false

theorem inv_init : Inv init := by
  refine ⟨⟨?_, ?_, ?_⟩, ⟨?_, ?_, ?_, ?_⟩, ⟨?_, ?_, ?_, ?_⟩, ⟨?_, ?_, ?_, ?_, ?_, ?_⟩, rfl, rfl⟩
  · intro u; simp [init, holdsW]
  · intro u; simp [init, holdsD]
  · intro u; simp [init, holdsF]
  · intro c; exact chunkOK_empty
  · intro c _; rfl
  · intro u; trivial
  · intro u; trivial
  · intro c r hr; rcases hr with hr | hr <;> simp [init] at hr
  · intro k it hit; simp [init] at hit
  · intro u; trivial
  · intro u; trivial
  · intro k; rfl
  · intro k; rfl
  · exact List.Pairwise.nil
  · intro e he; simp [init] at he
  · intro e he; simp [init] at he
  · intro u hne; exact absurd rfl hne

theorem inv_step (cfg : Cfg) (s s' : State) (t : Nat) (a : Act) (hi : Inv s) (h : step cfg s t a = some s') : Inv s' := by
  refine ⟨step_lock cfg s s' t a hi.lock h, step_layout cfg s s' t a hi.lock hi.layout h,
    step_data cfg s s' t a hi.lock hi.layout hi.data h, step_hist cfg s s' t a hi.lock hi.layout hi.data hi.hist h, ?_, ?_⟩
  all_goals
    obtain ⟨_, s1, rfl, h1 | ⟨op, h1⟩⟩ := step_cases h
    · have := micro_noerr cfg s s1 t hi.lock hi.layout hi.data hi.alive hi.noerr h1
      first | exact this.1 | exact this.2
    · have := invoke_noerr s s1 t op h1
      first | exact this.1.trans hi.alive | exact this.2.trans hi.noerr

theorem inv_exec (cfg : Cfg) (sched : List (Nat × Act)) : ∀ s, Inv s → Inv (exec cfg s sched) := by
  induction sched with
  | nil => intro s hs; exact hs
  | cons d rest ih =>
    intro s hs
    obtain ⟨t, a⟩ := d
    simp only [exec]
    cases hst : step cfg s t a with
    | none => exact ih s hs
    | some s' => exact ih s' (inv_step cfg s s' t a hs hst)

/-- the invariant holds after EVERY schedule -/
theorem inv_reachable (cfg : Cfg) (sched : List (Nat × Act)) : Inv (exec cfg init sched) :=
  inv_exec cfg sched init inv_init

/-! ### (i) safety -/

/-- the tree item of a key points at a record that `GetRecordByOffset` reads now (from the write buffer or from
    the file), and that record is the record of this key with the item's version; it is a live value iff the
    version is positive -/
theorem tree_item_readable {s : State} (hi : Inv s) {k : Nat} {it : Item} (hit : s.tree k = some it) :
    ∃ r, lookup (s.chunks it.pos.chunk) it.pos.off = some r ∧ r.key = k ∧ r.ver = it.ver ∧ r.ver ≠ 0 ∧
      (0 < r.ver ↔ r.val ≠ 0) := by
  obtain ⟨r, h1, h2, h3, h4, _⟩ := absReg_eq hi.layout hi.data hit
  have := (hi.layout.ok it.pos.chunk).lookup r h1.1
  rw [h1.2] at this
  refine ⟨r, this, h2, h3, h4.1, h4.2.1, ?_⟩
  intro hv
  rcases Int.lt_trichotomy r.ver 0 with hlt | heq | hgt
  · exact absurd (h4.2.2 hlt) hv
  · exact absurd heq h4.1
  · exact hgt

/-- the value behind the tree item is the value of the last accepted write in linearisation order: the register
    obtained by running the atomic register over all linearised operations of the key -/
theorem tree_value_is_last_write {s : State} (hi : Inv s) (k : Nat) :
    absReg s k = regFold {} (opsOf (keyHist s k)) := (hi.hist.reg k).symm

/-- a position a reader took from the tree is still readable when the reader gets to read it: before the buffer
    test as buffer-or-file, after a negative buffer test in the file -/
theorem reader_position_readable {s : State} (hi : Inv s) (t k : Nat) (it : Item) :
    ((s.thr t).pc = .rBuf k it → ∃ r, lookup (s.chunks it.pos.chunk) it.pos.off = some r ∧ r.key = k) ∧
    ((s.thr t).pc = .rFile k it → ∃ r, fileLookup (s.chunks it.pos.chunk) it.pos.off = some r ∧ r.key = k) := by
  have hr := hi.data.rd t
  constructor
  · intro hpc
    rw [hpc] at hr
    obtain ⟨r, h1, h2⟩ := hr
    have := (hi.layout.ok it.pos.chunk).lookup r h1.1
    rw [h1.2] at this
    exact ⟨r, this, h2⟩
  · intro hpc
    rw [hpc] at hr
    obtain ⟨r, h1, h2, h3⟩ := hr
    have := contig_find _ _ _ (hi.layout.ok it.pos.chunk).cfile r h1
    rw [h2] at this
    exact ⟨r, this, h3⟩

/-- **read stability**: no scheduler decision — append, rotation, file write, buffer detach by whatever thread —
    changes what is read at the position of a stored record -/
theorem read_stable (cfg : Cfg) {s s' : State} (hi : Inv s) {t : Nat} {a : Act} (h : step cfg s t a = some s')
    (c : Nat) (r : Rec) (hr : Stored (s.chunks c) r) :
    lookup (s.chunks c) r.off = some r ∧ lookup (s'.chunks c) r.off = some r := by
  have hi' := inv_step cfg s s' t a hi h
  refine ⟨(hi.layout.ok c).lookup r hr, ?_⟩
  obtain ⟨_, s1, rfl, h1 | ⟨op, h1⟩⟩ := step_cases h
  · have g := micro_grows hi.lock hi.layout h1
    exact (hi'.layout.ok c).lookup r ((g c r).2 hr)
  · have : s1.chunks = s.chunks := by
      unfold invoke at h1
      split at h1
      · dsimp only at h1
        cases op with
        | write k v sz =>
          dsimp only at h1
          split at h1
          · contradiction
          · obtain rfl := Option.some.inj h1; rfl
        | delete k sz => obtain rfl := Option.some.inj h1; rfl
        | read k => obtain rfl := Option.some.inj h1; rfl
        | flush c force late => obtain rfl := Option.some.inj h1; rfl
      · contradiction
    have hr' : Stored (s1.tick.chunks c) r := by show Stored (s1.chunks c) r; rw [this]; exact hr
    exact (hi'.layout.ok c).lookup r hr'

/-- under every schedule: `Fatalf("wrong data file size")` and the index panic of the flusher are unreachable, and
    no get ends in "bad htree item" / a failed read -/
theorem no_fatal_no_read_error (cfg : Cfg) (sched : List (Nat × Act)) :
    (exec cfg init sched).fatal = false ∧ (exec cfg init sched).readErr = false :=
  ⟨(inv_reachable cfg sched).alive, (inv_reachable cfg sched).noerr⟩

/-- a thread that has been linearised and has not returned yet will return the recorded outcome -/
theorem pending_outcome_fixed {s : State} (hi : Inv s) (e : HEv) (he : e ∈ s.hist) (hd : e.done = false) :
    PendPC s.chunks (s.thr e.tid).pc e.ev.out := hi.hist.pend e he hd

/-! ### (ii) the recorded history of every key is an atomic execution -/

def stepAt (fut : Nat) (e : HEv) : Conc.Step :=
  { op := e.ev.op, inv := e.ev.inv, lin := e.ev.lin, resp := if e.done then e.ev.resp else fut }

def evAt (fut : Nat) (e : HEv) : Ev := if e.done then e.ev else { e.ev with resp := fut }

theorem run_of_outs (fut : Nat) (es : List HEv) : ∀ r : Reg, regRun r (opsOf es) = outsOf es →
    Conc.run r (es.map (stepAt fut)) = es.map (evAt fut) := by
  induction es with
  | nil => intro r _; rfl
  | cons e es ih =>
    intro r h
    simp only [opsOf, outsOf, List.map_cons, regRun, List.cons.injEq] at h
    simp only [List.map_cons, Conc.run]
    have hop : (stepAt fut e).op = e.ev.op := rfl
    rw [hop, ih _ h.2]
    congr 1
    unfold stepAt evAt
    rcases e with ⟨tid, key, done, ⟨op, inv, resp, out, lin⟩⟩
    simp only at h
    cases done <;> simp [h.1]

/-- the history of key `k` — operations that have not returned yet completed at any later time `fut` with the
    outcome they are going to return — is an atomic execution of the register of Model/Conc.lean -/
theorem hist_atomic {s : State} (hi : Inv s) (k fut : Nat) (hfut : s.clock ≤ fut) :
    ∃ ss, Conc.Valid ss ∧ histAt s k fut = Conc.run {} ss := by
  refine ⟨(keyHist s k).map (stepAt fut), ⟨?_, ?_⟩, ?_⟩
  · intro st hst
    obtain ⟨e, he, rfl⟩ := List.mem_map.mp hst
    have hm : e ∈ s.hist := (List.mem_filter.mp he).1
    have ht := hi.hist.times e hm
    unfold stepAt
    refine ⟨ht.1, ?_⟩
    cases hd : e.done with
    | true => simp only [if_true]; exact ht.2.2 hd
    | false => simp only [Bool.false_eq_true, if_false]; omega
  · rw [List.pairwise_map]
    have : (keyHist s k).Pairwise (fun a b => a.ev.lin < b.ev.lin) :=
      hi.hist.lin.sublist List.filter_sublist
    exact this
  · rw [run_of_outs fut _ _ (hi.hist.outs k)]
    rfl

theorem histOf_eq_histAt {s : State} (hq : quiescent s) (k fut : Nat) : histOf s k = histAt s k fut := by
  unfold histOf histAt
  have hall : ∀ e ∈ s.hist.filter (fun e => e.key = k), e.done = true := fun e he => hq e (List.mem_filter.mp he).1
  rw [List.filter_eq_self.mpr hall]
  apply List.map_congr_left
  intro e he
  simp [hall e he]

/-- once every linearised operation has returned, the recorded history of every key is an atomic execution -/
theorem hist_atomic_quiescent {s : State} (hi : Inv s) (hq : quiescent s) (k : Nat) :
    ∃ ss, Conc.Valid ss ∧ histOf s k = Conc.run {} ss := by
  rw [histOf_eq_histAt hq k s.clock]
  exact hist_atomic hi k s.clock (Nat.le_refl _)

/-- **C04 for the fine-grained model**: after ANY schedule of any number of client threads and flushers, the
    history of every key — with the operations still in flight completed at any later time — passes both checks
    of the property -/
theorem C04_fine_general (cfg : Cfg) (sched : List (Nat × Act)) (k fut : Nat)
    (hfut : (exec cfg init sched).clock ≤ fut) :
    Conc.checkA (histAt (exec cfg init sched) k fut) = true ∧ Conc.checkB (histAt (exec cfg init sched) k fut) = true := by
  obtain ⟨ss, hv, he⟩ := hist_atomic (inv_reachable cfg sched) k fut hfut
  rw [he]
  exact ⟨Conc.checkA_sound ss hv, Conc.checkB_sound ss hv⟩

/-- **C04 for the fine-grained model**: every history the fine-grained model can produce — recorded once all
    operations have returned, as the harness does — passes `checkA` and `checkB` -/
theorem C04_fine (cfg : Cfg) (sched : List (Nat × Act)) (k : Nat) (hq : quiescent (exec cfg init sched)) :
    Conc.checkA (histOf (exec cfg init sched) k) = true ∧ Conc.checkB (histOf (exec cfg init sched) k) = true := by
  obtain ⟨ss, hv, he⟩ := hist_atomic_quiescent (inv_reachable cfg sched) hq k
  rw [he]
  exact ⟨Conc.checkA_sound ss hv, Conc.checkB_sound ss hv⟩

/-! ### the model does not get stuck -/

/-- which lock the next micro-step has to acquire -/
def needsW : PC → Bool | .wLock _ => true | _ => false
def needsD : PC → Bool | .wSlot .. | .fDs1 .. | .fDs2 _ => true | _ => false
def needsF : PC → Bool | .fLock .. => true | _ => false

/-- a micro-step is enabled iff the lock it has to acquire is free -/
theorem micro_enabled (cfg : Cfg) (s : State) (u : Nat) (hne : (s.thr u).pc ≠ .idle)
    (hw : needsW (s.thr u).pc = true → s.writeLock = none) (hd : needsD (s.thr u).pc = true → s.dsLock = none)
    (hf : needsF (s.thr u).pc = true → s.flushLock = none) : (micro cfg s u).isSome = true := by
  cases hpc : (s.thr u).pc with
  | idle => exact absurd hpc hne
  | wLock q => rw [hpc] at hw; simp [micro, hpc, hw rfl]
  | wSlot q ver => rw [hpc] at hd; simp only [micro, hpc, hd rfl, if_true]; split <;> rfl
  | fLock c force late => rw [hpc] at hf; simp [micro, hpc, hf rfl]
  | fDs1 c force late =>
    rw [hpc] at hd; simp only [micro, hpc, hd rfl, if_true]
    split
    · rfl
    · split <;> rfl
  | fDs2 fl => rw [hpc] at hd; simp [micro, hpc, hd rfl]
  | _ =>
    simp only [micro, hpc]
    repeat' split
    all_goals rfl

/-- **no deadlock**: the lock order (write lock → ds lock, flush lock → ds lock) admits no cycle — whenever some
    thread is inside an operation, some thread's next micro-step is enabled -/
theorem no_deadlock (cfg : Cfg) {s : State} (hl : LockInv s) (t : Nat) (hne : (s.thr t).pc ≠ .idle) :
    ∃ u, (micro cfg s u).isSome = true := by
  cases hds : s.dsLock with
  | some u =>
    have hD := (hl.d u).1 hds
    refine ⟨u, micro_enabled cfg s u ?_ ?_ ?_ ?_⟩ <;>
      (cases hpc : (s.thr u).pc <;> simp_all [holdsD, needsW, needsD, needsF])
  | none =>
    cases hwl : s.writeLock with
    | some u =>
      have hW := (hl.w u).1 hwl
      refine ⟨u, micro_enabled cfg s u ?_ ?_ (fun _ => hds) ?_⟩ <;>
        (cases hpc : (s.thr u).pc <;> simp_all [holdsW, needsW, needsF])
    | none =>
      cases hfl : s.flushLock with
      | some u =>
        have hF := (hl.f u).1 hfl
        refine ⟨u, micro_enabled cfg s u ?_ (fun _ => hwl) (fun _ => hds) ?_⟩ <;>
          (cases hpc : (s.thr u).pc <;> simp_all [holdsF, needsF])
      | none => exact ⟨t, micro_enabled cfg s t hne (fun _ => hwl) (fun _ => hds) (fun _ => hfl)⟩

/-- after every schedule: unless all threads are idle, the scheduler has an enabled decision (the safety theorems
    are not about a model that gets stuck) -/
theorem no_deadlock_reachable (cfg : Cfg) (sched : List (Nat × Act)) (t : Nat)
    (hne : ((exec cfg init sched).thr t).pc ≠ .idle) : ∃ u, (step cfg (exec cfg init sched) u .go).isSome = true := by
  have hi := inv_reachable cfg sched
  obtain ⟨u, hu⟩ := no_deadlock cfg hi.lock t hne
  refine ⟨u, ?_⟩
  unfold step
  simp only [hi.alive, Bool.false_eq_true, if_false, Option.isSome_map]
  exact hu

end ConcFine

/-! ### non-vacuity and sanity evaluations -/
namespace ConcFine
namespace Ex

def cfg : Cfg := { dataFileMax := 4 }
def gos (t n : Nat) : List (Nat × Act) := List.replicate n (t, .go)

/-- writer 1 sets key 7 := value 11; reader 2 takes the position from the tree while the record is only in the
    write buffer; flusher 3 has fetched the record and is about to write it to the file -/
def schedA : List (Nat × Act) :=
  [(1, .call (.write 7 11 0))] ++ gos 1 7 ++ [(2, .call (.read 7)), (2, .go)] ++
  [(3, .call (.flush none true false))] ++ gos 3 7
def sA : State := exec cfg init schedA

example : ((sA.chunks 0).file, (sA.chunks 0).wbuf) = ([], [⟨7, 1, 11, 0, 1⟩]) := by decide +kernel
-- the file write happens outside every lock but the flush lock: afterwards the record is in file AND buffer
example : ((exec cfg sA (gos 3 1)).chunks 0).file = [⟨7, 1, 11, 0, 1⟩] ∧
          ((exec cfg sA (gos 3 1)).chunks 0).wbuf = [⟨7, 1, 11, 0, 1⟩] := by decide +kernel
-- continuation 1: the reader reads now — from the buffer
example : (exec cfg sA (gos 2 1)).hist.map (fun e => (e.done, e.ev.out)) = [(true, .acc 1), (true, .got 11 1)] := by
  decide +kernel
-- continuation 2: write, detach, THEN the reader: the buffer test misses, the reader goes to the file
def sC : State := exec cfg sA (gos 3 3 ++ gos 2 1)
example : ((sC.chunks 0).file, (sC.chunks 0).wbuf) = ([⟨7, 1, 11, 0, 1⟩], []) := by decide +kernel
example : bufLookup (sC.chunks 0) 0 = .miss ∧ fileLookup (sC.chunks 0) 0 = some ⟨7, 1, 11, 0, 1⟩ := by decide +kernel
def sD : State := exec cfg sC (gos 2 1 ++ gos 3 2)
example : sD.hist.map (fun e => (e.done, e.ev.out)) = [(true, .acc 1), (true, .got 11 1)] := by decide +kernel

/-- two writers and a reader on one key, a rotation (DataFileMax = 4 blocks), a flush of the old file, a rejected
    and an accepted delete, a second key -/
def schedE : List (Nat × Act) :=
  [(1, .call (.write 7 11 1)), (4, .call (.write 7 12 2)), (2, .call (.read 7)), (1, .go), (4, .go), (1, .go), (2, .go),
   (1, .go), (1, .go), (1, .go), (2, .go), (1, .go), (4, .go), (1, .go), (4, .go), (4, .go), (2, .call (.read 7)),
   (2, .go), (4, .go), (4, .go), (3, .call (.flush (some 0) true false)), (4, .go), (3, .go), (3, .go), (4, .go), (2, .go)] ++
  gos 3 9 ++ [(5, .call (.delete 9 0)), (2, .call (.read 7))] ++ gos 2 2
def sE : State := exec cfg init schedE

-- thread 4 has been linearised (tree.set done) but has not returned: a get has already seen its value
example : sE.hist.map (fun e => (e.tid, e.done, e.ev.out)) =
    [(2, true, .got 0 0), (1, true, .acc 1), (2, true, .got 11 1), (4, false, .acc 2), (2, true, .got 12 2)] := by
  decide +kernel
example : sE.newHead = 1 ∧ (sE.chunks 0).file = [⟨7, 1, 11, 0, 2⟩] ∧ (sE.chunks 1).wbuf = [⟨7, 2, 12, 0, 3⟩] := by
  decide +kernel
-- the history WITHOUT the pending write fails check (A) — why the theorem completes pending operations …
example : Conc.checkA (histOf sE 7) = false := by decide +kernel
-- … and with it completed at any later time passes, as `C04_fine_general` says for every schedule
example : Conc.checkA (histAt sE 7 1000) = true ∧ Conc.checkB (histAt sE 7 1000) = true :=
  C04_fine_general cfg schedE 7 1000 (by decide +kernel)
-- thread 5 (delete of key 9) waits for the write lock thread 4 holds: its micro-step is not enabled
example : (micro cfg sE 5).isNone = true := by decide +kernel

/-- run to the end: everybody returns -/
def schedF : List (Nat × Act) := schedE ++ gos 4 1 ++ gos 5 3 ++ [(5, .call (.delete 7 0))] ++ gos 5 7 ++
  [(2, .call (.read 7))] ++ gos 2 3 ++ gos 3 2
def sF : State := exec cfg init schedF

/-- the hypothesis of `C04_fine` is satisfiable on a non-trivial schedule -/
theorem sF_quiescent : quiescent sF := by unfold quiescent; decide +kernel
example : histOf sF 7 = [
    { op := .read, inv := 3, resp := 10, out := .got 0 0, lin := 6 },
    { op := .write 11, inv := 1, resp := 12, out := .acc 1, lin := 11 },
    { op := .read, inv := 15, resp := 24, out := .got 11 1, lin := 16 },
    { op := .write 12, inv := 2, resp := 38, out := .acc 2, lin := 23 },
    { op := .read, inv := 35, resp := 37, out := .got 12 2, lin := 36 },
    { op := .delete, inv := 42, resp := 49, out := .acc 3, lin := 48 },
    { op := .read, inv := 50, resp := 52, out := .got 0 3, lin := 51 }] := by decide +kernel
example : histOf sF 9 = [{ op := .delete, inv := 34, resp := 41, out := .rej, lin := 40 }] := by decide +kernel
example : Conc.checkA (histOf sF 7) = true ∧ Conc.checkB (histOf sF 7) = true := C04_fine cfg schedF 7 sF_quiescent
example : (sF.fatal, sF.readErr, sF.wbufSize, sF.newHead) = (false, false, 4, 1) := by decide +kernel

-- the pieces
example : sortSearch 5 (fun i => decide (i ≥ 3)) = 3 ∧ sortSearch 5 (fun _ => false) = 5 ∧ sortSearch 0 (fun _ => true) = 0 := by
  decide
example : checkAndUpdateVersion 3 0 = (4, true) ∧ checkAndUpdateVersion (-3) 0 = (4, true) ∧
    checkAndUpdateVersion 3 (-1) = (-4, true) ∧ checkAndUpdateVersion 0 (-1) = (-1, true) ∧
    checkAndUpdateVersion 5 4 = (1, false) ∧ checkAndUpdateVersion 5 9 = (9, true) := by decide
-- the buffer test on a buffer holding offsets 4 and 6 (writing head 9): below, hit, hole, beyond
example : let ch : Chunk := { wbuf := [⟨1, 1, 5, 4, 2⟩, ⟨2, 1, 6, 6, 3⟩], writingHead := 9, size := 9 }
    bufLookup ch 0 = .miss ∧ bufLookup ch 6 = .found ⟨2, 1, 6, 6, 3⟩ ∧ bufLookup ch 5 = .err ∧ bufLookup ch 9 = .miss := by
  decide
-- a write of the value id 0 is not a legal invocation (0 = "no live value"); a busy thread cannot be invoked
example : (invoke init 1 (.write 7 0 0)).isNone = true ∧ (invoke sA 3 (.read 7)).isNone = true := by decide +kernel

end Ex
end ConcFine
