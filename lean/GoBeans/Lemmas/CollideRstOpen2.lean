/-
  C13 (a) with restarts, `Bucket.open` II: the tree the hint loop builds.  Without a tree dump it agrees, on every key in
  use, with the replay of the data log (`Store.replayTree`); with the tree dump written by `close` nothing is applied.
-/
import GoBeans.Lemmas.CollideRstOpen1
set_option linter.unusedSimpArgs false
set_option linter.unusedVariables false
namespace CollideLemmas
open Store Spec HintIndex Collide HintBufferLemmas HintLoadLemmas HintIndexLemmas StoreLemmas

section
variable (hash : Key → Nat) (K : Key → Prop)

theorem files_of_oldF (old : List HSplit) (ho : ∀ sp ∈ old, sp.buf = none ∧ ∃ f, sp.file = some f) :
    ((old.map vfile).filterMap id).map (·.items) = old.filterMap (fun sp => sp.file.map (·.items)) := by
  induction old with
  | nil => rfl
  | cons sp rest ih =>
    obtain ⟨_, f, hf⟩ := ho sp (by simp)
    have ih' := ih (fun s hs => ho s (by simp [hs]))
    have hv : vfile sp = some f := by unfold vfile; rw [hf]
    simp only [List.map_cons, List.filterMap_cons, hv, hf, id, Option.map_some, List.map_cons]
    rw [ih']

theorem loadedCk_old (ck : HCk) (size : Nat) : (loadedCk ck size).old = if size = 0 then [] else ck.old := by
  unfold loadedCk; split <;> rfl

theorem loadedCk_last (ck : HCk) (size : Nat) : (loadedCk ck size).last = {} := by
  unfold loadedCk; split <;> rfl

theorem segLast_nil {scan : Bool} {all segLast rest : FileRecs} {b : Buf} (h : SplitInv hash scan all segLast rest b)
    (he : b.items = []) : segLast = [] := by
  have := h.perm
  rw [he] at this
  have := dedupLast_eq_nil this.nil_eq.symm
  simpa using this

/-- the split files the new process reads for a data file are split files of a cut of its records -/
theorem loaded_fileHints {V : Nat → FileRecs} {size : Nat → Nat} {hs1 : Hints} (cl : Closed hash V size hs1)
    (hz : ∀ i, size i = 0 → V i = []) (i : Nat) : FileHintsOf hash (V i) (loadedCk (hs1.chunks i) (size i)).files := by
  unfold loadedCk
  by_cases h0 : size i = 0
  · rw [if_pos h0, hz i h0]; exact ⟨[], rfl, Forall2.nil⟩
  · rw [if_neg h0]
    obtain ⟨segs, segLast, h1, h2, h3⟩ := cl.g.ck i
    have hs := segLast_nil hash h3 (cl.empty i)
    subst hs
    simp only [List.append_nil] at h1 h2
    obtain ⟨segs', e1, e2⟩ := diskFull_fileHints hash (V i) segs _ h2
    refine ⟨segs', by rw [e1, h1], ?_⟩
    show Forall2 (SplitFileOf hash) segs' ((hs1.chunks i).old.filterMap (fun sp => sp.file.map (·.items)))
    rw [← files_of_oldF _ (cl.g.oldf i)]; exact e2

theorem ckI_emptyLast {scan : Bool} (scan' : Bool) {all pre rest : FileRecs} {ck : HCk} (h : CkI hash scan all pre rest ck)
    (he : ck.last.items = []) : CkI hash scan' all pre rest { old := ck.old, last := {} } := by
  obtain ⟨segs, segLast, h1, h2, h3⟩ := h
  have hs := segLast_nil hash h3 he
  subst hs
  exact ⟨segs, [], h1, h2, splitInv_empty hash scan' all rest⟩

theorem treeStep_nodump (ck : HCk) (t : Tree) (i : Nat) : treeStep ((0, -1) : Nat × Int) ck t i = applySplits i t ck.files := by
  unfold treeStep
  have h0 : ¬ i < ((0, -1) : Nat × Int).1 := by simp
  rw [if_neg h0]
  have e0 : (if i = ((0, -1) : Nat × Int).1 then ((0, -1) : Nat × Int).2 + 1 else (0 : Int)) = 0 := by split <;> simp
  rw [e0]
  by_cases hn : (0 : Int) ≥ (ck.old.length : Int)
  · rw [if_pos hn]
    have : ck.old = [] := by
      cases h : ck.old with
      | nil => rfl
      | cons a l => rw [h] at hn; simp at hn; omega
    unfold HCk.files; rw [this]; rfl
  · rw [if_neg hn]

/-- the hint loop without tree dump over files `0 … n-1` = the replay of their records -/
theorem applyRange_replay (hInj : InjOn hash K) (V : Nat → FileRecs) (F : Nat → List (List Item))
    (hK : ∀ i, ∀ p ∈ V i, K p.2.key) (hF : ∀ i, FileHintsOf hash (V i) (F i)) :
    ∀ n k, K k → AMap.get ((List.range n).foldl (fun t i => applySplits i t (F i)) []) (hash k)
      = AMap.get (((List.range n).flatMap (fun i => fileLog i (V i))).foldl (replayStep hash) []) (hash k) := by
  intro n
  induction n with
  | zero => intro k _; rfl
  | succ n ih =>
    intro k hk
    rw [List.range_succ, List.foldl_append, List.flatMap_append, List.foldl_append]
    simp only [List.foldl_cons, List.foldl_nil, List.flatMap_cons, List.flatMap_nil, List.append_nil]
    exact applySplits_file hash K hInj n (V n) (hK n) (F n) (hF n) _ _ ih k hk

theorem log_as_fileLog (b : Bucket) (m : Nat) (hm : m ≤ b.head + 1) (he : ∀ j, m ≤ j → (b.chunks j).recs = []) :
    b.log = (List.range m).flatMap (fun i => fileLog i (b.chunks i).recs) := by
  rw [log_eq]
  have hz : ∀ j, m ≤ j → recsAt b j = [] := by
    intro j hj; unfold recsAt; rw [he j hj]; rfl
  rw [flatMap_range_trailing (recsAt b) m hz (b.head + 1) hm]
  rfl

/-- with the tree dump `close` has just written, the hint loop applies nothing -/
theorem treeStep_loaded {V : Nat → FileRecs} {hs1 : Hints} (g : HsG hash V hs1) (size : Nat) (i : Nat) (hi : hs1.maxDumped.1 ≤ i) (t : Tree) :
    treeStep hs1.maxDumped (loadedCk (hs1.chunks i) size) t i = t := by
  unfold treeStep
  have h0 : ¬ i < hs1.maxDumped.1 := by omega
  rw [if_neg h0]
  by_cases hn : (if i = hs1.maxDumped.1 then hs1.maxDumped.2 + 1 else 0) ≥ ((loadedCk (hs1.chunks i) size).old.length : Int)
  · rw [if_pos hn]
  · rw [if_neg hn]
    cases hl : (loadedCk (hs1.chunks i) size).old with
    | nil =>
      have : (loadedCk (hs1.chunks i) size).files = [] := by unfold HCk.files; rw [hl]; rfl
      rw [this]; rfl
    | cons a l =>
      exfalso
      rw [hl] at hn
      have hsz : size ≠ 0 := by intro e; rw [loadedCk_old, if_pos e] at hl; cases hl
      rw [loadedCk_old, if_neg hsz] at hl
      have := g.mdb i l.length (by rw [hl]; simp)
      unfold idLe isLarger at this
      simp only [Bool.or_eq_true, Bool.and_eq_true, decide_eq_true_eq] at this
      simp only [List.length_cons] at hn
      rcases this with h | ⟨h1, h2⟩
      · omega
      · rw [if_pos h1.symm] at hn; omega

end
end CollideLemmas
