/-
  C06 over SEVERAL process lives: what a kill leaves is again a well-formed store.

  `Lemmas/Crash.lean` proves: a get after recovery returns the live part of the key's last durable record, for any bucket
  whose records are readable where the log says they are (`ReadAll`).  Here: the bucket a kill leaves (`crashAt`) and the
  one the next start makes of it (`recover`) satisfy the SAME structural invariants as a bucket reached by client
  operations (`Good`: positions below the file sizes, every record readable, keys of the domain) — a durable data file is
  a PREFIX of the file (records are laid out in increasing order, `okFrom`), its size the end of the last surviving
  record.  Hence the crash theorem composes: after a first life of client commands, flushes, restarts and GC requests, a
  kill, a second life of client commands, flushes and restarts on what the first recovery made, and a second kill, a get
  still returns the live part of the key's last durable record (`second_life_recover_get`), and so on for any number of
  lives (`good_recover` is the induction step).  Engine crash exercises exactly this (mix c06, second life on a crash
  state; driver line `life2`).
  Core-only.
-/
import GoBeans.Lemmas.Crash
import GoBeans.Lemmas.GCHistory
open Store Spec

namespace StoreLemmas

/-- the end of the last record of a file laid out from `lo` on (or `lo` if there is none) -/
def lastEnd : Nat → List (Nat × Rec) → Nat
  | lo, [] => lo
  | _, p :: rest => lastEnd (p.1 + p.2.size) rest

theorem lastEnd_getLast (lo : Nat) (l : List (Nat × Rec)) :
    lastEnd lo l = (match l.getLast? with | some p => p.1 + p.2.size | none => lo) := by
  induction l generalizing lo with
  | nil => rfl
  | cons p rest ih =>
    simp only [lastEnd]
    rw [ih]
    cases rest with
    | nil => rfl
    | cons q r =>
      rw [List.getLast?_cons_cons]
      cases hq : (q :: r).getLast? with
      | none => simp at hq
      | some x => rfl

/-- records laid out above the cut: none survives -/
theorem filter_nil_of_lo {lo : Nat} {l : List (Nat × Rec)} {sz : Nat} (c : Nat) (h : okFrom lo l sz) (hc : c < lo) :
    l.filter (fun p => decide (p.1 + p.2.size ≤ c)) = [] := by
  induction l generalizing lo with
  | nil => rfl
  | cons p rest ih =>
    obtain ⟨h1, h2, h3⟩ := h
    have hn : ¬ (p.1 + p.2.size ≤ c) := by omega
    rw [List.filter_cons]
    simp only [hn, decide_false]
    exact ih h3 (by omega)

/-- the surviving records of a file are laid out correctly up to the end of the last of them -/
theorem okFrom_durable {lo : Nat} {l : List (Nat × Rec)} {sz : Nat} (c : Nat) (h : okFrom lo l sz) :
    okFrom lo (l.filter (fun p => decide (p.1 + p.2.size ≤ c))) (lastEnd lo (l.filter (fun p => decide (p.1 + p.2.size ≤ c)))) := by
  induction l generalizing lo with
  | nil => exact Nat.le_refl lo
  | cons p rest ih =>
    obtain ⟨h1, h2, h3⟩ := h
    by_cases hp : p.1 + p.2.size ≤ c
    · rw [List.filter_cons]
      simp only [hp, decide_true, if_true, lastEnd]
      exact ⟨h1, h2, ih h3⟩
    · have hn := filter_nil_of_lo c h3 (by omega)
      rw [List.filter_cons]
      simp only [hp, decide_false, hn]
      exact Nat.le_refl lo

theorem lastEnd_durable_le {lo : Nat} {l : List (Nat × Rec)} {sz : Nat} (c : Nat) (h : okFrom lo l sz) :
    lastEnd lo (l.filter (fun p => decide (p.1 + p.2.size ≤ c))) ≤ sz := by
  induction l generalizing lo with
  | nil => exact h
  | cons p rest ih =>
    obtain ⟨h1, h2, h3⟩ := h
    by_cases hp : p.1 + p.2.size ≤ c
    · rw [List.filter_cons]
      simp only [hp, decide_true, if_true, lastEnd]
      exact ih h3
    · have hn := filter_nil_of_lo c h3 (by omega)
      rw [List.filter_cons]
      simp only [hp, decide_false, hn]
      have := okFrom_le h3
      show lo ≤ sz
      omega

/-- what a kill leaves of a well-formed bucket is well formed -/
theorem wf_crashAt {cfg : Store.Cfg} {b : Bucket} (w : WF cfg b) (cut : Nat → Nat) (present : Nat → Bool) :
    WF cfg (b.crashAt cut present) := by
  have hrecs : ∀ i, ((b.crashAt cut present).chunks i).recs
      = (b.chunks i).recs.filter (fun p => decide (p.1 + p.2.size ≤ cut i)) := fun _ => rfl
  have hsz : ∀ i, ((b.crashAt cut present).chunks i).size
      = lastEnd 0 ((b.chunks i).recs.filter (fun p => decide (p.1 + p.2.size ≤ cut i))) := by
    intro i
    rw [lastEnd_getLast]
    rfl
  refine ⟨?_, ?_, ?_⟩
  · intro i
    rw [hsz, hrecs]
    exact okFrom_durable (cut i) (w.ok i)
  · intro i
    rw [hsz]
    exact Nat.le_trans (lastEnd_durable_le (cut i) (w.ok i)) (w.max i)
  · intro i hi
    have hh : (b.crashAt cut present).head = b.head := rfl
    rw [hh] at hi
    obtain ⟨h1, _⟩ := w.fresh i hi
    refine ⟨?_, ?_⟩
    · rw [hrecs, h1]; rfl
    · rw [hsz, h1]; rfl

/-- … and `Good`: every surviving record is readable where the log says it is -/
theorem good_crashAt (K : Key → Prop) {cfg : Store.Cfg} {b : Bucket} (w : WF cfg b) (hk : ∀ x ∈ b.log, K x.2.key)
    (cut : Nat → Nat) (present : Nat → Bool) : Good K (b.crashAt cut present) := by
  have w' := wf_crashAt w cut present
  refine ⟨w'.posInv, ?_, ?_⟩
  · intro x hx
    obtain ⟨p, r⟩ := x
    obtain ⟨c, o⟩ := p
    exact w'.readAt c o r (mem_log hx)
  · intro x hx
    rw [crash_log] at hx
    exact hk x (List.mem_filter.mp hx).1

/-- the induction step over process lives: the next start gives a `Good` bucket again -/
theorem good_recover (hash : Key → Nat) (K : Key → Prop) {cfg : Store.Cfg} {b : Bucket} (w : WF cfg b)
    (hk : ∀ x ∈ b.log, K x.2.key) (cut : Nat → Nat) (present : Nat → Bool) :
    Good K (b.recover hash cfg cut present) :=
  good_step hash K cfg (good_crashAt K w hk cut present) 0 (.reopen false) trivial

/-- the log the next start works on: the durable records, in order -/
theorem recover_log (hash : Key → Nat) {cfg : Store.Cfg} {b : Bucket} (w : WF cfg b) (cut : Nat → Nat) (present : Nat → Bool) :
    (b.recover hash cfg cut present).log = b.log.filter (durableP cut) := by
  obtain ⟨_, hl, _, _⟩ := reopen_facts hash cfg (b.crashAt cut present) (wf_crashAt w cut present).posInv false
  unfold Bucket.recover
  rw [hl, crash_log]

/-- **two lives**: a first life of client commands, flushes, restarts and GC REQUESTS (`ops1`), a kill (`cut1`), the start;
    a second life of client commands, flushes and restarts (`ops2`) on what that start made; a second kill (`cut2`) and
    start: a get returns the live part of the key's last record that is durable in the second crash state — records of
    the first life that survived the first kill, and records of the second life, in log order. -/
theorem second_life_recover_get (hash : Key → Nat) (K : Key → Prop) (hInj : InjOn hash K) (cfg : Store.Cfg)
    (hcv : cfg.checkVHash = false) (R : Nat) (ops1 : List HOp) (hlen : R + ops1.length < 2147483647)
    (hops1 : ∀ op ∈ ops1, HOpOK K cfg R op) (cut1 : Nat → Nat) (present1 : Nat → Bool)
    (R2 : Nat) (ops2 : List Op) (hops2 : ∀ op ∈ ops2, OpOK2 K R2 op) (cut2 : Nat → Nat) (present2 : Nat → Bool)
    (k : Key) (hk : K k) :
    let b1 := (hrun hash cfg {} ops1).1
    let r1 := b1.recover hash cfg cut1 present1
    let b2 := (Store.run hash cfg r1 ops2).1
    r1.log = b1.log.filter (durableP cut1) ∧
    (Store.step hash cfg (b2.recover hash cfg cut2 present2) (.get k)).2.1 =
      (match lastOf k (b2.log.filter (durableP cut2)) with
       | some (_, r) => if r.ver > 0 then Reply.value r.flag r.body else Reply.miss
       | none => Reply.miss) := by
  intro b1 r1 b2
  have h0 : HInv hash K cfg R ({} : Bucket) [] := hinv_mono hash K (Nat.zero_le R) (hinv_init hash K cfg)
  have h1 := (hrun_refines hash K cfg hcv hInj R ops1 R {} [] h0 (Nat.le_refl R) hlen hops1).2
  have g1 : Good K r1 := good_recover hash K h1.wf h1.lr.keys cut1 present1
  have g2 : Good K b2 := good_run hash K cfg R2 ops2 r1 g1 hops2
  exact ⟨recover_log hash h1.wf cut1 present1, recover_get hash K hInj cfg b2 g2.read g2.keys cut2 present2 k hk⟩

end StoreLemmas
