/-
  What a pass leaves in the files, stated on the invariants of a reachable bucket (`Inv`, `LastRec`, `WF`, `NoZero`):
  which files are touched (C17) and that every record left in a file of the range is the current record of its key (C18).
-/
import GoBeans.Lemmas.GCAux
import GoBeans.Lemmas.GCRefine
set_option linter.unusedSimpArgs false
set_option linter.unusedVariables false
namespace StoreLemmas
open Store Spec

section GCFiles
variable (hash : Key → Nat) (K : Key → Prop)

/-- files below the first destination and above the range — in particular the file receiving appends — are not touched;
    a destination below the range only grows -/
theorem gcRun_touch (cfg : Store.Cfg) (hInj : InjOn hash K) {n : Nat} {b : Bucket} {m : KV}
    (inv : Inv hash K n b m) (lr : LastRec hash K b) (w : WF cfg b) (nz : NoZero b)
    (begin stop : Nat) (hbs : begin ≤ stop) (hs : stop < b.head) :
    (∀ i, i < gcDst cfg b begin → (gcRun hash cfg b begin stop).1.chunks i = b.chunks i)
    ∧ (∀ i, stop < i → (gcRun hash cfg b begin stop).1.chunks i = b.chunks i)
    ∧ (gcDst cfg b begin < begin → ∃ ext, ((gcRun hash cfg b begin stop).1.chunks (gcDst cfg b begin)).recs
          = (b.chunks (gcDst cfg b begin)).recs ++ ext)
    ∧ gcDst cfg b begin ≤ begin := by
  obtain ⟨h1, h2, h3, _⟩ := gcRun_files (PG_pos m n) hInj cfg w begin stop hbs hs (vinv_of_inv hash K inv lr w nz)
  exact ⟨h1, h2, h3, (gcDst_spec cfg b begin).1⟩

/-- every record a pass leaves in a file of its range is current: the tree points at it and it is the LAST record of
    its key in the whole store (hence the only surviving one), or it is a delete marker of a key the tree does not know,
    kept because the range does not start at file 0 -/
theorem gcRun_current (cfg : Store.Cfg) (hInj : InjOn hash K) {n : Nat} {b : Bucket} {m : KV}
    (inv : Inv hash K n b m) (lr : LastRec hash K b) (w : WF cfg b) (nz : NoZero b)
    (begin stop : Nat) (hbs : begin ≤ stop) (hs : stop < b.head)
    (i : Nat) (hi1 : begin ≤ i) (hi2 : i ≤ stop) (o : Nat) (r : Rec)
    (hmem : (o, r) ∈ ((gcRun hash cfg b begin stop).1.chunks i).recs) :
    (∃ it, AMap.get (gcRun hash cfg b begin stop).1.tree (hash r.key) = some it ∧ it.pos = { chunk := i, off := o }
        ∧ lastOf r.key (gcRun hash cfg b begin stop).1.log = some (({ chunk := i, off := o } : Pos), r))
    ∨ (AMap.get (gcRun hash cfg b begin stop).1.tree (hash r.key) = none ∧ begin > 0 ∧ r.ver < 0) := by
  have hv0 := vinv_of_inv hash K inv lr w nz
  obtain ⟨_, _, _, h4⟩ := gcRun_files (PG_pos m n) hInj cfg w begin stop hbs hs hv0
  obtain ⟨w', hv', hh⟩ := gcRun_vinv (PG_pos m n) hInj cfg w begin stop hbs hs hv0
  have hc := h4 i hi1 hi2 (o, r) hmem
  unfold CurT at hc
  simp only at hc
  generalize gcRun hash cfg b begin stop = res at *
  have hlog : (({ chunk := i, off := o } : Pos), r) ∈ res.1.log := by
    rw [log_eq, List.mem_flatMap]
    refine ⟨i, by rw [List.mem_range]; omega, ?_⟩
    rw [recsAt_eq_tag, mem_tag]
    exact ⟨rfl, hmem⟩
  have hkr : K r.key := (hv'.recs _ hlog).1
  cases hg : AMap.get res.1.tree (hash r.key) with
  | none =>
    rw [hg] at hc
    exact Or.inr ⟨rfl, hc⟩
  | some it =>
    rw [hg] at hc
    simp only at hc
    left
    refine ⟨it, rfl, hc, ?_⟩
    rcases hv'.key r.key hkr with ⟨it', r0, h1, h2, _⟩ | ⟨h1, _⟩
    · rw [hg] at h1; cases h1
      rw [hc] at h2
      have := eq_of_pos hv'.nodup (lastOf_mem h2).1 hlog rfl
      rw [h2, this]
    · rw [hg] at h1; cases h1

end GCFiles
end StoreLemmas
