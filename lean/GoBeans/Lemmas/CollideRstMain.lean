/-
  C13 (a) WITH RESTARTS: for a key hash injective on the keys in use and `SplitCap ≥ 1`, the replies of the collision-path
  model `Collide.run` — restarts (`reopen`, tree dump kept or rebuilt from the hint files) included — are those of the
  non-colliding bucket model (`hrun` = `Store.step` + `Store.gcRun`) and of the reference map.
-/
import GoBeans.Lemmas.CollideRstOpen4
set_option linter.unusedSimpArgs false
set_option linter.unusedVariables false
namespace CollideLemmas
open Store Spec HintIndex Collide HintBufferLemmas HintLoadLemmas HintIndexLemmas StoreLemmas

section
variable (hash : Key → Nat) (K : Key → Prop)

/-- the invariant of the non-colliding model looks at the tree only through the slots of the keys in use -/
theorem hinv_congr {cfg : Store.Cfg} {n : Nat} {m : KV} {b b' : Bucket} (hc : b'.chunks = b.chunks) (hh : b'.head = b.head)
    (ht : ∀ k, K k → AMap.get b'.tree (hash k) = AMap.get b.tree (hash k)) (h : HInv hash K cfg n b m) : HInv hash K cfg n b' m := by
  have hlog : b'.log = b.log := by unfold Bucket.log; rw [hc, hh]
  have hra : ∀ p, b'.readAt p = b.readAt p := by intro p; unfold Bucket.readAt Bucket.chunk; rw [hc]
  refine ⟨⟨⟨?_, ?_⟩, ?_⟩, ⟨?_, ?_⟩, ⟨?_, ?_, ?_⟩, ?_, h.nd⟩
  · intro i o r hm; rw [hc] at hm ⊢; exact h.inv.pos.below i o r hm
  · intro i hi; rw [hc]; rw [hh] at hi; exact h.inv.pos.fresh i hi
  · intro k hk
    rcases h.inv.agree k hk with ⟨a1, a2⟩ | ⟨it, e, r, a1, a2, a3, a4⟩
    · exact Or.inl ⟨by rw [ht k hk]; exact a1, a2⟩
    · exact Or.inr ⟨it, e, r, by rw [ht k hk]; exact a1, a2, by rw [hra]; exact a3, a4⟩
  · intro x hx; rw [hlog] at hx; exact h.lr.keys x hx
  · intro k hk
    rcases h.lr.last k hk with ⟨it, r, a1, a2, a3, a4⟩ | ⟨a1, a2⟩
    · exact Or.inl ⟨it, r, by rw [ht k hk]; exact a1, by rw [hlog]; exact a2, by rw [hra]; exact a3, a4⟩
    · exact Or.inr ⟨by rw [ht k hk]; exact a1, by rw [hlog]; exact a2⟩
  · intro i; rw [hc]; exact h.wf.ok i
  · intro i; rw [hc]; exact h.wf.max i
  · intro i hi; rw [hc]; rw [hh] at hi; exact h.wf.fresh i hi
  · intro x hx; rw [hlog] at hx; exact h.nz x hx

/-- operations of the histories with restarts: as in the statement (`HOpOK` on the translation), no GC request -/
def RstOK (cfg : Collide.Cfg) (R : Nat) (op : Collide.Op) : Prop :=
  (match toH op with | some h => HOpOK K cfg.s R h | none => True) ∧ (∀ g mg, op ≠ .gc g mg)

theorem sizeOK_of {cfg : Collide.Cfg} {R : Nat} {op : Collide.Op} (h : match toH op with | some h => HOpOK K cfg.s R h | none => True) :
    SizeOK op := by
  cases op with
  | set k body flag rev ts size => exact h.1.2.1
  | delete k size wts => exact h.1.2
  | incr k d size wts => exact h.1.2
  | _ => trivial

theorem rst_run (hInj : InjOn hash K) (cfg : Collide.Cfg) (hcv : cfg.s.checkVHash = false) (hcap : 1 ≤ cfg.cap) (R : Nat) (ops : List Collide.Op) :
    ∀ (st : State) (m : KV) (n : Nat), NoColl hash K st → HInv hash K cfg.s n st.b m → RI hash st → R ≤ n →
      n + ops.length < 2147483647 → (∀ op ∈ ops, RstOK K cfg R op) →
      (Collide.run hash cfg st ops).2 = (hspec { checkVHash := cfg.s.checkVHash } m (ops.filterMap toH)).2 := by
  induction ops with
  | nil => intro st m n _ _ _ _ _ _; rfl
  | cons op ops ih =>
    intro st m n nc h ri hR hn hops
    have hlen : (op :: ops).length = ops.length + 1 := rfl
    have hrest : ∀ o ∈ ops, RstOK K cfg R o := fun o ho => hops o (by simp [ho])
    obtain ⟨hop, hnogc⟩ := hops op (by simp)
    have hmg : (st.merge false).ct.items = [] := (merge_nc hash K hInj nc false).1.ct
    cases hto : toH op with
    | none =>
      have hb : (Collide.step hash cfg st op).1.b = st.b ∧ NoColl hash K (Collide.step hash cfg st op).1 ∧ Collide.cmdOf op = none
          ∧ (∀ kt, op ≠ .reopen kt) := by
        cases op <;> simp [toH] at hto
        · exact ⟨rfl, ⟨nc.ct, hsNC_dumpAll hash K _ _ nc.hs⟩, rfl, fun kt e => by cases e⟩
        · obtain ⟨m1, m2⟩ := merge_nc hash K hInj nc false
          exact ⟨m2, m1, rfl, fun kt e => by cases e⟩
      obtain ⟨hb1, hb2, hb3, hb4⟩ := hb
      have ri' := ri_step hash cfg hcap ri h.wf op (sizeOK_of K hop) ⟨hb4, hnogc⟩ hmg
      have := ih _ m (n + 1) hb2 (by rw [hb1]; exact hinv_mono hash K (Nat.le_succ n) h) ri' (by omega) (by rw [hlen] at hn; omega) hrest
      unfold Collide.run
      simp only [List.filterMap_cons, hto, hb3]
      exact this
    | some ho =>
      cases ho with
      | gc g =>
        exfalso
        cases op <;> simp [toH] at hto
        rename_i g' mg
        exact hnogc g' mg rfl
      | op o =>
        have hok : OpOK3 K cfg.s R o := by
          rw [hto] at hop; exact hop
        obtain ⟨h', hr⟩ := op_hinv hash K cfg.s hcv hInj R h hR (by rw [hlen] at hn; omega) o hok
        by_cases hre : ∃ kt, op = .reopen kt
        · obtain ⟨kt, rfl⟩ := hre
          have ho : o = .reopen kt := by simp [toH] at hto; exact hto.symm
          subst ho
          have r := reopen_ok hash K hInj cfg hcap nc h ri kt
          unfold ReopenOK at r
          have h'' := hinv_congr hash K r.chunks r.head r.tree h'
          have := ih _ _ (n + 1) r.nc h'' r.ri (by omega) (by rw [hlen] at hn; omega) hrest
          unfold Collide.run
          simp only [List.filterMap_cons, hto, hspec, Collide.cmdOf, Collide.step]
          rw [this]
          cases kt <;> rfl
        · have hext : ExtOK K cfg R op := by
            cases op <;> first | (rw [hto] at hop; simp only [ExtOK, hto]; exact hop) | exact absurd ⟨_, rfl⟩ hre
          obtain ⟨e1, e2, e3⟩ := client_ext hash K hInj cfg hcv R nc h op o hto hext
          have ri' := ri_step hash cfg hcap ri h.wf op (sizeOK_of K hop) ⟨fun kt e => hre ⟨kt, e⟩, hnogc⟩ hmg
          have := ih _ _ (n + 1) e3 (by rw [e1]; exact h') ri' (by omega) (by rw [hlen] at hn; omega) hrest
          unfold Collide.run
          simp only [List.filterMap_cons, hto, hspec]
          rw [this, e2, cmdOf_toH op o hto]
          generalize (hspec { checkVHash := cfg.s.checkVHash } (specStep { checkVHash := cfg.s.checkVHash } m o).1 (ops.filterMap toH)).2 = rs
          generalize (specStep { checkVHash := cfg.s.checkVHash } m o).2 = sr at hr
          generalize (Store.step hash cfg.s st.b o).2.1 = rr at hr
          cases hc : Store.cmdOf o <;> cases sr <;> simp [hc] at hr ⊢
          exact hr

end
end CollideLemmas
