/-
  QuickLZ (C10) — kernel-checked evaluations of the `Compress` model (sanity / non-vacuity of the hypotheses of the
  round-trip theorems).  Larger inputs are compared with the real code by engine `qlz`.  Core-only.
-/
import GoBeans.Lemmas.QlzRT
namespace QlzRT
open Qlz QlzLemmas

/-- level 1 on the 50-byte example of `Lemmas/Qlz.lean` (three literals, a 39-byte hash-table match, final literals):
    exactly the bytes the real `Compress(·, 1)` returns -/
theorem ex_compress_level1 : compress exOrig 1 = some exC1 := by decide +kernel

/-- level 3, a value below the match threshold (the first loop does not run): header, control word 0x80000000, literals -/
theorem ex_compress_level3_short :
    compress #[7, 7, 7, 9] 3 = some #[79, 17, 0, 0, 0, 4, 0, 0, 0, 0, 0, 0, 128, 7, 7, 7, 9] := by decide +kernel

/-- the hypotheses of `compress3_roundtrip` are satisfiable; its conclusion on this instance -/
example : decompressSafe #[79, 17, 0, 0, 0, 4, 0, 0, 0, 0, 0, 0, 128, 7, 7, 7, 9] = .ok #[7, 7, 7, 9] :=
  (compress3_roundtrip (by decide) (by decide) ex_compress_level3_short).2

/-- the stored form: header with compressible bit 0, both sizes, then the value -/
example : storedStream #[1, 2, 3] 3 = some #[78, 12, 0, 0, 0, 3, 0, 0, 0, 1, 2, 3] := by decide +kernel
example : decompress #[78, 12, 0, 0, 0, 3, 0, 0, 0, 1, 2, 3] = .ok #[1, 2, 3] :=
  (stored_roundtrip (Or.inr rfl) (by decide) (by decide +kernel : storedStream #[1, 2, 3] 3 = some _)).1

/-- `Compress` of an empty value returns nil; a level other than 1/3 panics -/
example : compress #[] 3 = some #[] ∧ compress #[1] 2 = none := by decide +kernel

/-- the give-up rule (quicklz.go:119) -/
example : giveUp 1000 751 740 = true ∧ giveUp 1000 750 740 = false ∧ giveUp 1000 800 775 = false := by decide

end QlzRT
