/-
  C13 (b): a write (`Bucket.set`: append → tree slot of the key hash → `hints.set`) keeps the invariant.
-/
import GoBeans.Lemmas.CollideSafeRead
import GoBeans.Lemmas.CollideAppend
set_option linter.unusedSimpArgs false
set_option linter.unusedVariables false
namespace CollideLemmas
open Store Spec HintIndex Collide StoreLemmas HintBufferLemmas

section
variable (hash : Key → Nat)

/-- the hint item of a write -/
def wItem (r : Rec) (pos : Pos) : Item :=
  { khash := hash r.key, chunk := 0, off := pos.off, ver := r.ver, vhash := if r.ver > 0 then vhashOf r.body else 0, key := r.key }

/-- the same item with the full position, as it goes into the collision table -/
def wItemC (r : Rec) (pos : Pos) : Item :=
  { khash := hash r.key, chunk := pos.chunk, off := pos.off, ver := r.ver, vhash := if r.ver > 0 then vhashOf r.body else 0, key := r.key }

/-- the collision table after `hints.set` of a write -/
def wTable (ct : CTable) (r : Rec) (pos : Pos) : CTable :=
  if thas ct (hash r.key) then ct.compareAndSet (wItemC hash r pos) false else ct

theorem cas_w (ct : CTable) (r : Rec) (pos : Pos) :
    (tget (ct.compareAndSet (wItemC hash r pos) false) (hash r.key) r.key = some (wItemC hash r pos)
      ∨ (∃ old, tget ct (hash r.key) r.key = some old ∧ tget (ct.compareAndSet (wItemC hash r pos) false) (hash r.key) r.key = some old
            ∧ false = false ∧ cmpKey (wItemC hash r pos) < cmpKey old))
    ∧ (∀ h k, ¬ (h = hash r.key ∧ k = r.key) → tget (ct.compareAndSet (wItemC hash r pos) false) h k = tget ct h k)
    ∧ (∀ h, thas (ct.compareAndSet (wItemC hash r pos) false) h = (thas ct h || decide (h = hash r.key))) :=
  cas_spec ct (wItemC hash r pos) false

theorem put_eq (cfg : Collide.Cfg) (st : State) (r : Rec) :
    st.put hash cfg r =
      ({ st with
          b := { (st.b.append cfg.s r).1 with
                  tree := AMap.set (st.b.append cfg.s r).1.tree (hash r.key)
                    { pos := (st.b.append cfg.s r).2, ver := r.ver, vhash := if r.ver > 0 then vhashOf r.body else 0 } },
          ct := wTable hash st.ct r (st.b.append cfg.s r).2,
          hs := (st.hs.setItem cfg.cap (wItem hash r (st.b.append cfg.s r).2) (st.b.append cfg.s r).2.chunk r.size).1 },
       (st.b.append cfg.s r).2) := by
  unfold State.put hintSet wTable wItem wItemC
  generalize st.b.append cfg.s r = A
  obtain ⟨b', pos⟩ := A
  simp only [ctGet_eq]

theorem det_iff {cfg : Collide.Cfg} {st : State} {t : Trk} {n : Nat} (inv : SInv hash cfg st t n) (h : Nat) :
    t.det hash h = thas st.ct h := by
  unfold Trk.det
  cases hh : thas st.ct h with
  | true =>
    obtain ⟨k, it, e⟩ := inv.tabne h hh
    obtain ⟨a, b, _⟩ := inv.tab _ _ _ e
    rw [List.any_eq_true]
    exact ⟨k, b, by simp [a]⟩
  | false =>
    rw [List.any_eq_false]
    intro k hk hc
    have := inv.tabc k hk
    cases e : tget st.ct (hash k) k with
    | none => rw [e] at this; simp at this
    | some it =>
      have := tget_thas e
      simp only [beq_iff_eq] at hc
      rw [hc, hh] at this
      cases this


theorem posInv_tree {b : Bucket} (hp : PosInv b) (t : List (Nat × TItem)) : PosInv { b with tree := t } :=
  ⟨hp.below, hp.fresh⟩

theorem put_inv {cfg : Collide.Cfg} (hdf : cfg.s.dataFileMax < 4294967296) (hcap : 1 ≤ cfg.cap)
    {st : State} {t : Trk} {n : Nat} (inv : SInv hash cfg st t n) (r : Rec) (hsz : 0 < r.size)
    (hvb : r.ver.natAbs ≤ n + 1) (m' : KV) (hm' : ∀ k', k' ≠ r.key → AMap.get m' k' = AMap.get t.m k')
    (hspec : LogSpec (some ((st.b.append cfg.s r).2, r)) (AMap.get m' r.key)) :
    SInv hash cfg (st.put hash cfg r).1 (t.afterWrite hash r.key m') (n + 1) := by
  rw [put_eq]
  obtain ⟨f1, f2, f3, f4⟩ := append_spec cfg.s st.b r inv.pos hsz
  have flog := log_append cfg.s st.b r inv.pos
  obtain ⟨c1, c2, c3, c4, c5, c6⟩ := append_chunks cfg.s st.b r inv.pos
  generalize hA : st.b.append cfg.s r = A at *
  obtain ⟨b1, pos⟩ := A
  simp only at f1 f2 f3 f4 flog c1 c2 c3 c4 c5 c6 hspec ⊢
  -- the last record of every key in the new log
  have hlast : ∀ k', lastOf k' (st.b.log ++ [(pos, r)]) = if r.key = k' then some (pos, r) else lastOf k' st.b.log := by
    intro k'; rw [lastOf_append_single]
  have hrecs : ∀ c, (b1.chunks c).recs = if c = pos.chunk then (st.b.chunks pos.chunk).recs ++ [(pos.off, r)] else (st.b.chunks c).recs := by
    intro c
    by_cases hc : c = pos.chunk
    · subst hc; rw [if_pos rfl]; exact c1
    · rw [if_neg hc]; exact c2 c hc
  have hposeta : (⟨pos.chunk, pos.off⟩ : Pos) = pos := by cases pos; rfl
  -- the hint manager
  obtain ⟨s1, s2, s3, s4, s5, s6⟩ := setItem_spec cfg.cap hcap st.hs (wItem hash r pos) pos.chunk r.size inv.hgood
  -- the collision table
  have hdet := det_iff hash inv (hash r.key)
  -- positions of existing records are smaller than the new one
  have hsmall : ∀ k0 (p0 : Pos) (r0 : Rec), lastOf k0 st.b.log = some (p0, r0) →
      p0.chunk * 4294967296 + p0.off < pos.chunk * 4294967296 + pos.off := by
    intro k0 p0 r0 hl
    obtain ⟨_, _, hmem, hle, _⟩ := lastOf_facts hash inv hl
    have hob := inv.ob _ _ _ hmem
    have hbel := inv.pos.below _ _ _ hmem
    by_cases hc : p0.chunk = pos.chunk
    · rw [hc] at hbel ⊢; omega
    · have : p0.chunk < pos.chunk := by omega
      have : (p0.chunk + 1) * 4294967296 ≤ pos.chunk * 4294967296 := Nat.mul_le_mul_right _ (by omega)
      omega
  have tabNew : ∀ h k it, tget (wTable hash st.ct r pos) h k = some it →
      hash k = h ∧ k ∈ (t.afterWrite hash r.key m').reg ∧ it.key = k ∧ it.khash = h
        ∧ ∃ r', lastOf k (st.b.log ++ [(pos, r)]) = some (⟨it.chunk, it.off⟩, r') ∧ it.ver = r'.ver := by
    intro h k it hg
    unfold wTable at hg
    unfold Trk.afterWrite
    simp only
    rw [hdet]
    cases hth : thas st.ct (hash r.key) with
    | false =>
      rw [hth] at hg
      simp only [Bool.false_eq_true, if_false] at hg ⊢
      obtain ⟨d1, d2, d3, d4, r', d5, d6⟩ := inv.tab _ _ _ hg
      have hne : ¬ r.key = k := by
        intro e
        have := tget_thas hg
        rw [← d1, ← e, hth] at this; cases this
      exact ⟨d1, d2, d3, d4, r', by rw [hlast, if_neg hne]; exact d5, d6⟩
    | true =>
      rw [hth] at hg
      simp only [if_true] at hg ⊢
      obtain ⟨a1, a2, _⟩ := cas_w hash st.ct r pos
      by_cases hc : h = hash r.key ∧ k = r.key
      · obtain ⟨hh, hk⟩ := hc
        subst hh; subst hk
        have hnew : tget (st.ct.compareAndSet (wItemC hash r pos) false) (hash r.key) r.key
            = some (wItemC hash r pos) := by
          rcases a1 with e | ⟨old, e0, _, _, hlt⟩
          · exact e
          · exfalso
            obtain ⟨_, _, _, _, r0, d5, _⟩ := inv.tab _ _ _ e0
            have := hsmall _ _ _ d5
            simp only [cmpKey, wItemC] at hlt this
            omega
        rw [hnew] at hg
        cases hg
        refine ⟨rfl, by simp, rfl, rfl, r, ?_, rfl⟩
        rw [hlast, if_pos rfl]
        simp only [wItemC, hposeta]
      · rw [a2 h k hc] at hg
        obtain ⟨d1, d2, d3, d4, r', d5, d6⟩ := inv.tab _ _ _ hg
        have hne : ¬ r.key = k := by
          intro e
          apply hc
          rw [← e] at d1
          exact ⟨d1.symm, e.symm⟩
        exact ⟨d1, by simp [d2], d3, d4, r', by rw [hlast, if_neg hne]; exact d5, d6⟩
  have tabSome : ∀ h k, (tget st.ct h k).isSome = true → (tget (wTable hash st.ct r pos) h k).isSome = true := by
    intro h k hs
    unfold wTable
    cases hth : thas st.ct (hash r.key) with
    | false => simpa using hs
    | true =>
      simp only [if_true]
      obtain ⟨a1, a2, _⟩ := cas_w hash st.ct r pos
      by_cases hc : h = hash r.key ∧ k = r.key
      · obtain ⟨hh, hk⟩ := hc
        subst hh; subst hk
        rcases a1 with e | ⟨old, _, e, _, _⟩ <;> rw [e] <;> rfl
      · rw [a2 h k hc]; exact hs
  refine { pos := posInv_tree f3 _, ra := ?_, ob := ?_, spec := ?_, wr := ?_, vers := ?_, tab := ?_, tabc := ?_, tabne := ?_,
           slot := ?_, own := ?_, hgood := s1, hmerged := by rw [s6]; exact inv.hmerged, hex := ?_, hmax := ?_ }
  · -- ra
    intro c o r0 hm
    show b1.readAt ⟨c, o⟩ = some r0
    rw [hrecs] at hm
    by_cases hc : c = pos.chunk
    · rw [if_pos hc, List.mem_append] at hm
      rcases hm with hm | hm
      · exact f2 _ _ (inv.ra c o r0 (by rw [hc]; exact hm))
      · simp only [List.mem_singleton, Prod.mk.injEq] at hm
        obtain ⟨ho, hr⟩ := hm
        subst ho; subst hr; subst hc
        rw [hposeta]; exact f1
    · rw [if_neg hc] at hm
      exact f2 _ _ (inv.ra c o r0 hm)
  · -- ob
    intro c o r0 hm
    have hm' : (o, r0) ∈ (b1.chunks c).recs := hm
    rw [hrecs] at hm'
    by_cases hc : c = pos.chunk
    · rw [if_pos hc, List.mem_append] at hm'
      rcases hm' with hm' | hm'
      · exact inv.ob c o r0 (by rw [hc]; exact hm')
      · simp only [List.mem_singleton, Prod.mk.injEq] at hm'
        rw [hm'.1]; exact c6
    · rw [if_neg hc] at hm'
      exact inv.ob c o r0 hm'
  · -- spec
    intro k'
    show LogSpec (lastOf k' b1.log) (AMap.get m' k')
    rw [flog, hlast]
    by_cases hk : r.key = k'
    · subst hk; rw [if_pos rfl]; exact hspec
    · rw [if_neg hk, hm' k' (Ne.symm hk)]; exact inv.spec k'
  · -- wr
    intro k'
    show k' ∈ r.key :: t.written ↔ (lastOf k' b1.log).isSome = true
    rw [flog, hlast, List.mem_cons]
    by_cases hk : r.key = k'
    · subst hk; simp
    · rw [if_neg hk, ← inv.wr k']
      constructor
      · rintro (e | e)
        · exact absurd e.symm hk
        · exact e
      · intro e; exact Or.inr e
  · -- vers
    intro x hx
    have hx' : x ∈ b1.log := hx
    rw [flog, List.mem_append] at hx'
    rcases hx' with hx' | hx'
    · have := inv.vers x hx'; omega
    · simp only [List.mem_singleton] at hx'; subst hx'; exact hvb
  · -- tab
    intro h k it hg
    have := tabNew h k it hg
    show _ ∧ _ ∧ _ ∧ _ ∧ ∃ r', lastOf k b1.log = _ ∧ _
    rw [flog]; exact this
  · -- tabc
    intro k hk
    show (tget (wTable hash st.ct r pos) (hash k) k).isSome = true
    unfold Trk.afterWrite at hk
    simp only at hk
    rw [hdet] at hk
    cases hth : thas st.ct (hash r.key) with
    | false =>
      rw [hth] at hk
      simp only [Bool.false_eq_true, if_false] at hk
      exact tabSome _ _ (inv.tabc k hk)
    | true =>
      rw [hth] at hk
      simp only [if_true, List.mem_cons] at hk
      rcases hk with rfl | hk
      · unfold wTable
        rw [hth]
        simp only [if_true]
        obtain ⟨a1, _, _⟩ := cas_w hash st.ct r pos
        rcases a1 with e | ⟨old, _, e, _, _⟩ <;> rw [e] <;> rfl
      · exact tabSome _ _ (inv.tabc k hk)
  · -- tabne
    intro h hh
    show ∃ k it, tget (wTable hash st.ct r pos) h k = some it
    have key : ∀ h k, (tget (wTable hash st.ct r pos) h k).isSome = true → ∃ it, tget (wTable hash st.ct r pos) h k = some it := by
      intro h k hs
      cases e : tget (wTable hash st.ct r pos) h k with
      | none => rw [e] at hs; simp at hs
      | some it => exact ⟨it, rfl⟩
    unfold wTable at hh
    cases hth : thas st.ct (hash r.key) with
    | false =>
      rw [hth] at hh
      simp only [Bool.false_eq_true, if_false] at hh
      obtain ⟨k, it, e⟩ := inv.tabne h hh
      obtain ⟨it', e'⟩ := key h k (tabSome _ _ (by rw [e]; rfl))
      exact ⟨k, it', e'⟩
    | true =>
      rw [hth] at hh
      simp only [if_true] at hh
      obtain ⟨_, _, a3⟩ := cas_w hash st.ct r pos
      rw [a3] at hh
      simp only [Bool.or_eq_true, decide_eq_true_eq] at hh
      have hold : thas st.ct h = true := by
        rcases hh with hh | hh
        · exact hh
        · rw [hh]; exact hth
      obtain ⟨k, it, e⟩ := inv.tabne h hold
      obtain ⟨it', e'⟩ := key h k (tabSome _ _ (by rw [e]; rfl))
      exact ⟨k, it', e'⟩
  · -- slot
    intro h ti hti
    have hti' : AMap.get (AMap.set b1.tree (hash r.key) { pos := pos, ver := r.ver, vhash := if r.ver > 0 then vhashOf r.body else 0 }) h = some ti := hti
    show ∃ o r', AMap.get (AMap.set t.owner (hash r.key) r.key) h = some o ∧ hash o = h ∧ lastOf o b1.log = some (ti.pos, r') ∧ ti.ver = r'.ver
    rw [flog]
    by_cases hh : hash r.key = h
    · subst hh
      rw [AMap.get_set_self] at hti'
      cases hti'
      exact ⟨r.key, r, AMap.get_set_self _ _ _, rfl, by rw [hlast, if_pos rfl], rfl⟩
    · rw [AMap.get_set_ne _ _ _ _ hh, f4] at hti'
      obtain ⟨o, r', e1, e2, e3, e4⟩ := inv.slot h ti hti'
      have hne : ¬ r.key = o := by intro e; apply hh; rw [e]; exact e2
      exact ⟨o, r', by rw [AMap.get_set_ne _ _ _ _ hh]; exact e1, e2, by rw [hlast, if_neg hne]; exact e3, e4⟩
  · -- own
    intro k hk
    show ∃ ti, AMap.get (AMap.set b1.tree (hash r.key) { pos := pos, ver := r.ver, vhash := if r.ver > 0 then vhashOf r.body else 0 }) (hash k) = some ti
    by_cases hh : hash r.key = hash k
    · rw [← hh, AMap.get_set_self]; exact ⟨_, rfl⟩
    · rw [AMap.get_set_ne _ _ _ _ hh, f4]
      have : k ∈ r.key :: t.written := hk
      rw [List.mem_cons] at this
      rcases this with e | e
      · exact absurd (by rw [e]) hh
      · exact inv.own k e
  · -- hex
    intro c k
    show HintAt hash k (((st.hs.setItem cfg.cap (wItem hash r pos) pos.chunk r.size).1.chunks c).get (hash k) k) (lastIn k (b1.chunks c).recs)
    rw [hrecs]
    by_cases hc : c = pos.chunk
    · subst hc
      rw [if_pos rfl, lastIn_append_single]
      by_cases hk : r.key = k
      · subst hk
        simp only [if_true]
        have s2' : ((st.hs.setItem cfg.cap (wItem hash r pos) pos.chunk r.size).1.chunks pos.chunk).get (hash r.key) r.key = some (wItem hash r pos) := s2
        rw [s2']
        exact ⟨rfl, rfl, rfl, rfl⟩
      · simp only [hk, if_false]
        rw [s3 (hash k) k (by intro e; exact hk e.2)]
        exact inv.hex pos.chunk k
    · rw [if_neg hc, s4 c hc]
      exact inv.hex c k
  · -- hmax
    intro c hne
    have hne' : (b1.chunks c).recs ≠ [] := hne
    show c ≤ (st.hs.setItem cfg.cap (wItem hash r pos) pos.chunk r.size).1.maxChunk
    rw [s5]
    by_cases hc : c = pos.chunk
    · subst hc
      by_cases hgt : pos.chunk > st.hs.maxChunk
      · rw [if_pos hgt]; exact Nat.le_refl _
      · rw [if_neg hgt]; omega
    · rw [hrecs, if_neg hc] at hne'
      have := inv.hmax c hne'
      by_cases hgt : pos.chunk > st.hs.maxChunk
      · rw [if_pos hgt]; omega
      · rw [if_neg hgt]; exact this

end
end CollideLemmas
