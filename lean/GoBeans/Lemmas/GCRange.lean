/-
  Range resolution of a GC request (`gcCheckStart` / `gcCheckEnd` / `gcCheckRange`): every accepted request resolves
  to  start ≤ end < head  — the file receiving appends is never inside the range.
-/
import GoBeans.Model.GC
namespace StoreLemmas
open Store

theorem gcBack_le (b : Bucket) (start : Nat) : ∀ fuel e, gcBack b start fuel e ≤ e := by
  intro fuel
  induction fuel with
  | zero => intro e; exact Int.le_refl e
  | succ f ih =>
    intro e
    unfold gcBack
    split
    · exact Int.le_trans (ih (e - 1)) (by omega)
    · exact Int.le_refl e

theorem gcScan_le (b : Bucket) (start : Nat) (now days : Int) :
    ∀ fuel next r, gcScan b start now days fuel next = .ok r → r ≤ next - 1 := by
  intro fuel
  induction fuel with
  | zero => intro next r h; simp [gcScan] at h
  | succ f ih =>
    intro next r h
    unfold gcScan at h
    split at h
    · cases h
    · simp only [] at h
      split at h
      · exact Int.le_trans (ih _ _ h) (by omega)
      · split at h
        · cases h
        · split at h
          · cases h; exact gcBack_le b start _ _
          · exact Int.le_trans (ih _ _ h) (by omega)

/-- Every accepted GC request, whatever its arguments, resolves to  start ≤ end < head. -/
theorem gcCheckRange_range (cfg : Cfg) (b : Bucket) (g : GcArgs) (s e : Nat)
    (h : gcCheckRange cfg b g = .ok (s, e)) : s ≤ e ∧ e < b.head := by
  unfold gcCheckRange at h
  split at h
  · cases h
  · rename_i s' hs
    split at h
    · cases h
    · rename_i e' he
      split at h
      · cases h
      · rename_i hlt
        simp only [Except.ok.injEq, Prod.mk.injEq] at h
        obtain ⟨rfl, rfl⟩ := h
        unfold gcCheckEnd at he
        have hle := gcScan_le b s' g.now _ _ _ _ he
        have hge : (s' : Int) ≤ e' := by omega
        constructor
        · omega
        · split at hle <;> omega
end StoreLemmas
