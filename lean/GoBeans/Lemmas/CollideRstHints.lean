/-
  C13 (a) with restarts, hint side II: the invariant of the whole hint manager (`HsG`): every chunk describes its data
  file exactly (`CkI`), closed splits are written files, chunks above `maxChunkID` hold nothing unwritten, every written
  split id is at most `maxDumpedHintID`.  Kept by `trydump`, `hintMgr.setItem`, the dumper's round and `close`.
-/
import GoBeans.Lemmas.CollideRstDisk
import GoBeans.Lemmas.CollideRReopen2
set_option linter.unusedSimpArgs false
set_option linter.unusedVariables false
namespace CollideLemmas
open Store Spec HintIndex Collide HintBufferLemmas HintLoadLemmas HintIndexLemmas StoreLemmas

section
variable (hash : Key → Nat)

/-- the hint manager describes the data files `V` (write-path buffers) -/
def HsI (V : Nat → FileRecs) (hs : Hints) : Prop := ∀ c, CkI hash false (V c) (V c) [] (hs.chunks c)

theorem fileOfBuf_nonempty {b : Buf} (h : b.items.isEmpty = false) : fileOfBuf b = some b.dump := by
  unfold fileOfBuf; simp [h]

theorem hsI_trydump {V : Nat → FileRecs} {hs : Hints} (h : HsI hash V hs) (c : Nat) (dl : Bool) : HsI hash V (hs.trydump c dl) := by
  intro j
  unfold Hints.trydump
  simp only
  have e1 := dumpOldGo_fst c (hs.chunks c).old 0 hs.maxDumped
  split
  · simp only [setCk_chunks]
    by_cases hj : j = c
    · rw [if_pos hj, e1]; subst hj; exact ckI_dumpOld hash (h j)
    · rw [if_neg hj]; exact h j
  · rename_i hc
    simp only [setCk_chunks]
    by_cases hj : j = c
    · rw [if_pos hj, e1]; subst hj
      have hne : (hs.chunks j).last.items.isEmpty = false := by
        cases he : (hs.chunks j).last.items.isEmpty with
        | false => rfl
        | true => rw [he] at hc; simp at hc
      exact ckI_close hash false ({ buf := none, file := some (hs.chunks j).last.dump } : HSplit)
        (by rw [vfile_filesplit]; exact (fileOfBuf_nonempty hne).symm) (ckI_dumpOld hash (h j))
    · rw [if_neg hj]; exact h j

/-- the data files after one more record in file `c` -/
def Vpush (V : Nat → FileRecs) (c : Nat) (p : Nat × Rec) : Nat → FileRecs := fun j => if j = c then V c ++ [p] else V j

theorem hsI_setItem {V : Nat → FileRecs} {hs : Hints} (h : HsI hash V hs) (cap : Nat) (hcap : 1 ≤ cap) (c : Nat) (p : Nat × Rec)
    (hp : ∀ x ∈ V c, x.1 + x.2.size ≤ p.1) (hps : 0 < p.2.size) :
    HsI hash (Vpush V c p) (hs.setItem cap (mkItem hash false p) c p.2.size).1 := by
  have h1 : HsI hash (Vpush V c p) (hs.setCk c ((hs.chunks c).setItem cap (mkItem hash false p) p.2.size).1) := by
    intro j
    rw [setCk_chunks]
    unfold Vpush
    by_cases hj : j = c
    · rw [if_pos hj, if_pos hj]
      have g := ckI_grow hash p hp (h c)
      exact ckI_setItem hash cap hcap p (by simp) hps (by simp) g
    · rw [if_neg hj, if_neg hj]; exact h j
  unfold Hints.setItem
  simp only
  intro j
  split
  · exact hsI_trydump hash h1 c false j
  · exact h1 j

theorem hsI_dumpAll {V : Nat → FileRecs} (n : Nat) {hs : Hints} (h : HsI hash V hs) : HsI hash V (hs.dumpAll n) := by
  unfold Hints.dumpAll
  induction n with
  | zero => exact h
  | succ n ih =>
    rw [List.range_succ, List.foldl_append]
    exact hsI_trydump hash ih n false

theorem hsI_closeAll {V : Nat → FileRecs} (n : Nat) {hs : Hints} (h : HsI hash V hs) : HsI hash V (closeAll hs n) := by
  unfold closeAll
  induction n with
  | zero => exact h
  | succ n ih =>
    rw [List.range_succ, List.foldl_append]
    exact hsI_trydump hash ih n true

/-! ### shape: closed splits are files -/

/-- every closed split is a written file -/
def OldF (ck : HCk) : Prop := ∀ sp ∈ ck.old, sp.buf = none ∧ ∃ f, sp.file = some f

theorem dedupLast_nodupKey : ∀ l : List Item, NodupKey (dedupLast l) := by
  intro l
  induction l with
  | nil => simp [dedupLast, NodupKey]
  | cons x l ih =>
    unfold dedupLast
    by_cases hx : l.any (sameKey x) = true
    · rw [if_pos hx]; exact ih
    · rw [if_neg hx]
      unfold NodupKey
      rw [List.pairwise_cons]
      refine ⟨?_, ih⟩
      intro y hy
      have hyl := dedupLast_subset hy
      cases hs : sameKey x y with
      | false => rfl
      | true =>
        exfalso
        apply hx
        rw [List.any_eq_true]
        exact ⟨y, hyl, hs⟩

theorem splitFileOf_nodup {s : FileRecs} {items : List Item} (h : SplitFileOf hash s items) : NodupKey items := by
  obtain ⟨scan, hp⟩ := h
  exact nodupKey_perm hp.symm (dedupLast_nodupKey _)

theorem diskFull_nodup (all : FileRecs) : ∀ (segs : List FileRecs) (fs : List (Option SplitFile)) (tail : FileRecs),
    DiskFull hash all segs fs tail → ∀ f, some f ∈ fs → NodupKey f.items := by
  intro segs
  induction segs with
  | nil =>
    intro fs tail h f hf
    cases fs with
    | nil => cases hf
    | cons _ _ => simp [DiskFull] at h
  | cons s ss ih =>
    intro fs tail h f hf
    cases fs with
    | nil => cases hf
    | cons f0 fs =>
      simp only [DiskFull] at h
      rw [List.mem_cons] at hf
      rcases hf with hf | hf
      · subst hf
        exact splitFileOf_nodup hash h.1.1
      · exact ih fs tail h.2 f hf

theorem ckGood_of {scan : Bool} {all pre rest : FileRecs} {ck : HCk} (h : CkI hash scan all pre rest ck) (ho : OldF ck) : CkGood ck := by
  obtain ⟨segs, segLast, h1, h2, h3⟩ := h
  refine ⟨h3.binv, ?_⟩
  intro sp hsp
  obtain ⟨hb, f, hf⟩ := ho sp hsp
  refine ⟨hb, f, hf, ?_⟩
  apply diskFull_nodup hash all segs _ _ h2 f
  rw [List.mem_map]
  exact ⟨sp, hsp, by unfold vfile; rw [hf]⟩

/-! ### the whole hint manager -/

/-- the id `(c, j)` is at most `md` -/
def idLe (c j : Nat) (md : Nat × Int) : Prop := isLarger (c, (j : Int)) md.1 md.2 = true

structure HsG (V : Nat → FileRecs) (hs : Hints) : Prop where
  ck : HsI hash V hs
  oldf : ∀ c, OldF (hs.chunks c)
  le : ∀ c, hs.maxChunk < c → (hs.chunks c).last.items = []
  mdb : ∀ c j, j < (hs.chunks c).old.length → idLe c j hs.maxDumped

theorem HsG.good {V : Nat → FileRecs} {hs : Hints} (g : HsG hash V hs) (c : Nat) : CkGood (hs.chunks c) :=
  ckGood_of hash (g.ck c) (g.oldf c)

theorem idLe_setIfLarger_self (md : Nat × Int) (c j : Nat) : idLe c j (setIfLarger md c j) := by
  unfold idLe setIfLarger
  by_cases hl : isLarger md c (j : Int) = true
  · rw [if_pos hl]; unfold isLarger; simp
  · rw [if_neg hl]
    unfold isLarger at hl ⊢
    simp only [Bool.or_eq_true, Bool.and_eq_true, decide_eq_true_eq, not_or, not_and] at hl ⊢
    omega

theorem idLe_setIfLarger (md : Nat × Int) (c j c' j' : Nat) (h : idLe c j md) : idLe c j (setIfLarger md c' j') :=
  isLarger_setIfLarger _ _ _ _ h

/-- `maxDumpedHintID` only grows -/
def MdMono (hs hs' : Hints) : Prop := ∀ a, isLarger a hs.maxDumped.1 hs.maxDumped.2 = true → isLarger a hs'.maxDumped.1 hs'.maxDumped.2 = true

theorem mdMono_refl (hs : Hints) : MdMono hs hs := fun _ h => h
theorem mdMono_trans {a b c : Hints} (h1 : MdMono a b) (h2 : MdMono b c) : MdMono a c := fun x h => h2 x (h1 x h)

theorem hsG_trydump {V : Nat → FileRecs} {hs : Hints} (g : HsG hash V hs) (c : Nat) (dl : Bool) :
    HsG hash V (hs.trydump c dl) ∧ MdMono hs (hs.trydump c dl) ∧ (hs.trydump c dl).maxChunk = hs.maxChunk
    ∧ (∀ j, j ≠ c → (hs.trydump c dl).chunks j = hs.chunks j)
    ∧ ((hs.chunks c).last.items = [] → (hs.trydump c dl).chunks c = hs.chunks c)
    ∧ (dl = true → ((hs.trydump c dl).chunks c).last.items = []) := by
  have hck := hsI_trydump hash g.ck c dl
  have hmc := (trydump_maxChunk hs c dl).1
  rw [trydump_form hs c dl (g.good hash c)] at hck hmc ⊢
  by_cases hd : dumpsLast hs c dl = true
  · rw [if_pos hd] at hck hmc ⊢
    have hne : (hs.chunks c).last.items ≠ [] := by
      unfold dumpsLast at hd
      intro he; rw [he] at hd; simp at hd
    refine ⟨⟨hck, ?_, ?_, ?_⟩, fun a ha => isLarger_setIfLarger a _ _ _ ha, hmc, ?_, fun he => absurd he hne, fun _ => ?_⟩
    · intro j sp hsp
      simp only [setCk_chunks] at hsp
      by_cases hj : j = c
      · rw [if_pos hj] at hsp
        simp only [List.mem_append, List.mem_singleton] at hsp
        rcases hsp with hsp | hsp
        · exact g.oldf c sp hsp
        · subst hsp; exact ⟨rfl, _, rfl⟩
      · rw [if_neg hj] at hsp; exact g.oldf j sp hsp
    · intro j hj
      rw [hmc] at hj
      simp only [setCk_chunks]
      by_cases hjc : j = c
      · rw [if_pos hjc]
      · rw [if_neg hjc]; exact g.le j hj
    · intro j i hi
      simp only [setCk_chunks] at hi
      show idLe j i (setIfLarger hs.maxDumped c (hs.chunks c).old.length)
      by_cases hjc : j = c
      · rw [if_pos hjc] at hi
        simp only [List.length_append, List.length_singleton] at hi
        by_cases hil : i < (hs.chunks c).old.length
        · exact idLe_setIfLarger _ _ _ _ _ (g.mdb j i (by rw [hjc]; exact hil))
        · have : i = (hs.chunks c).old.length := by omega
          rw [this, hjc]; exact idLe_setIfLarger_self _ _ _
      · rw [if_neg hjc] at hi
        exact idLe_setIfLarger _ _ _ _ _ (g.mdb j i hi)
    · intro j hj
      simp only [setCk_chunks, if_neg hj]
    · simp only [setCk_chunks, if_true]
  · rw [if_neg hd] at hck hmc ⊢
    have hch : ∀ j, ({ hs.setCk c (hs.chunks c) with maxDumped := hs.maxDumped } : Hints).chunks j = hs.chunks j := by
      intro j
      simp only [setCk_chunks]
      by_cases hj : j = c
      · rw [if_pos hj, hj]
      · rw [if_neg hj]
    refine ⟨⟨hck, ?_, ?_, ?_⟩, fun a ha => ha, hmc, fun j _ => hch j, fun _ => hch c, ?_⟩
    · intro j; rw [hch]; exact g.oldf j
    · intro j hj; rw [hch]; rw [hmc] at hj; exact g.le j hj
    · intro j i hi; rw [hch] at hi; exact g.mdb j i hi
    · intro hdl
      rw [hch]
      subst hdl
      unfold dumpsLast at hd
      simp only [Bool.not_true, Bool.false_and, Bool.false_or, Bool.not_eq_true', Bool.not_eq_false] at hd
      exact List.isEmpty_iff.mp hd

theorem setItem_maxChunk (cap : Nat) (hs : Hints) (it : Item) (c sz : Nat) :
    (hs.setItem cap it c sz).1.maxChunk = if c > hs.maxChunk then c else hs.maxChunk := by
  unfold Hints.setItem
  simp only
  split
  · rw [(trydump_maxChunk _ c false).1]; rfl
  · rfl

theorem hsG_setItem {V : Nat → FileRecs} {hs : Hints} (g : HsG hash V hs) (cap : Nat) (hcap : 1 ≤ cap) (c : Nat) (p : Nat × Rec)
    (hp : ∀ x ∈ V c, x.1 + x.2.size ≤ p.1) (hps : 0 < p.2.size) :
    HsG hash (Vpush V c p) (hs.setItem cap (mkItem hash false p) c p.2.size).1
    ∧ MdMono hs (hs.setItem cap (mkItem hash false p) c p.2.size).1
    ∧ (∀ j, j ≠ c → (hs.setItem cap (mkItem hash false p) c p.2.size).1.chunks j = hs.chunks j) := by
  have hck := hsI_setItem hash g.ck cap hcap c p hp hps
  have hmc := setItem_maxChunk cap hs (mkItem hash false p) c p.2.size
  have gd := g.good hash c
  by_cases ha : ((hs.chunks c).last.set cap (mkItem hash false p) p.2.size).2 = true
  · obtain ⟨e1, e2, e3⟩ := setItem_accepted_form cap hs (mkItem hash false p) c p.2.size ha
    refine ⟨⟨hck, ?_, ?_, ?_⟩, fun a h => by rw [e3]; exact h, e2⟩
    · intro j
      by_cases hj : j = c
      · subst hj; rw [e1]; exact g.oldf j
      · rw [e2 j hj]; exact g.oldf j
    · intro j hj
      rw [hmc] at hj
      have hjc : j ≠ c := by intro e; subst e; split at hj <;> omega
      rw [e2 j hjc]
      apply g.le j
      split at hj <;> omega
    · intro j i hi
      rw [e3]
      by_cases hj : j = c
      · subst hj; rw [e1] at hi; exact g.mdb j i hi
      · rw [e2 j hj] at hi; exact g.mdb j i hi
  · have ha' : ((hs.chunks c).last.set cap (mkItem hash false p) p.2.size).2 = false := by
      cases hx : ((hs.chunks c).last.set cap (mkItem hash false p) p.2.size).2 with
      | true => exact absurd hx ha
      | false => rfl
    have hitems := set_refuse cap _ gd.last (mkItem hash false p) p.2.size ha'
    have hne := refused_nonempty cap hcap _ gd.last (mkItem hash false p) p.2.size ha'
    obtain ⟨f1, f2⟩ := set_fresh_all cap hcap (mkItem hash false p) p.2.size
    obtain ⟨e1, e2, e3⟩ := setItem_refused_form cap hs (mkItem hash false p) c p.2.size gd (by rw [hitems]; exact hne) ha'
    have hempty : (({} : Buf).set cap (mkItem hash false p) p.2.size).1.items.isEmpty = false := by rw [f1]; rfl
    -- `maxDumped` after the refused set: at least the id of the closed split (and of the second one if it was written too)
    have hmd : ∀ i, i < ((hs.setItem cap (mkItem hash false p) c p.2.size).1.chunks c).old.length →
        idLe c i (hs.setItem cap (mkItem hash false p) c p.2.size).1.maxDumped := by
      intro i hi
      unfold Hints.setItem HCk.setItem at hi ⊢
      simp only [ha', Bool.false_eq_true, if_false, if_true] at hi ⊢
      have hnd : ({ buf := some ((hs.chunks c).last.set cap (mkItem hash false p) p.2.size).1, file := none } : HSplit).needDump = true := by
        unfold HSplit.needDump
        simp only [Option.isNone_none, Bool.true_and]
        cases hi' : ((hs.chunks c).last.set cap (mkItem hash false p) p.2.size).1.items with
        | nil => rw [hitems] at hi'; exact absurd hi' hne
        | cons _ _ => rfl
      unfold Hints.trydump at hi ⊢
      simp only [setCk_chunks, if_true] at hi ⊢
      rw [dumpOldGo_snoc c _ gd.files _ hnd 0 _] at hi ⊢
      simp only [Nat.zero_add] at hi ⊢
      split at hi
      · simp only [setCk_chunks, if_true, List.length_append, List.length_singleton] at hi
        split
        · show idLe c i (setIfLarger hs.maxDumped c (((0 : Nat) : Int) + (((hs.chunks c).old.length : Nat) : Int)))
          have e0 : (((0 : Nat) : Int) + (((hs.chunks c).old.length : Nat) : Int)) = (((hs.chunks c).old.length : Nat) : Int) := by omega
          rw [e0]
          by_cases hil : i < (hs.chunks c).old.length
          · exact idLe_setIfLarger _ _ _ _ _ (g.mdb c i hil)
          · have : i = (hs.chunks c).old.length := by omega
            rw [this]; exact idLe_setIfLarger_self _ _ _
        · rename_i h1 h2; exact absurd h1 h2
      · simp only [setCk_chunks, if_true, List.length_append, List.length_singleton] at hi
        split
        · rename_i h1 h2; exact absurd h2 h1
        · show idLe c i (setIfLarger (setIfLarger hs.maxDumped c (((0 : Nat) : Int) + (((hs.chunks c).old.length : Nat) : Int))) c _)
          have e0 : (((0 : Nat) : Int) + (((hs.chunks c).old.length : Nat) : Int)) = (((hs.chunks c).old.length : Nat) : Int) := by omega
          rw [e0]
          simp only [List.length_append, List.length_singleton]
          by_cases hil : i < (hs.chunks c).old.length
          · exact idLe_setIfLarger _ _ _ _ _ (idLe_setIfLarger _ _ _ _ _ (g.mdb c i hil))
          · by_cases hil2 : i = (hs.chunks c).old.length
            · rw [hil2]; exact idLe_setIfLarger _ _ _ _ _ (idLe_setIfLarger_self _ _ _)
            · have : i = (hs.chunks c).old.length + 1 := by omega
              rw [this]
              have := idLe_setIfLarger_self (setIfLarger hs.maxDumped c ((hs.chunks c).old.length)) c ((hs.chunks c).old.length + 1)
              simpa using this
    refine ⟨⟨hck, ?_, ?_, ?_⟩, e3, e2⟩
    · intro j
      by_cases hj : j = c
      · subst hj
        rw [e1]
        intro sp hsp
        split at hsp
        · simp only [List.mem_append, List.mem_singleton] at hsp
          rcases hsp with hsp | hsp
          · exact g.oldf j sp hsp
          · subst hsp; exact ⟨rfl, _, rfl⟩
        · simp only [List.mem_append, List.mem_singleton] at hsp
          rcases hsp with (hsp | hsp) | hsp
          · exact g.oldf j sp hsp
          · subst hsp; exact ⟨rfl, _, rfl⟩
          · subst hsp; exact ⟨rfl, _, rfl⟩
      · rw [e2 j hj]; exact g.oldf j
    · intro j hj
      rw [hmc] at hj
      have hjc : j ≠ c := by intro e; subst e; split at hj <;> omega
      rw [e2 j hjc]
      apply g.le j
      split at hj <;> omega
    · intro j i hi
      by_cases hj : j = c
      · subst hj; exact hmd i hi
      · rw [e2 j hj] at hi
        exact e3 _ (g.mdb j i hi)

theorem hsG_dumpAll {V : Nat → FileRecs} (n : Nat) {hs : Hints} (g : HsG hash V hs) :
    HsG hash V (hs.dumpAll n) ∧ MdMono hs (hs.dumpAll n) ∧ (hs.dumpAll n).maxChunk = hs.maxChunk := by
  unfold Hints.dumpAll
  induction n with
  | zero => exact ⟨g, mdMono_refl hs, rfl⟩
  | succ n ih =>
    rw [List.range_succ, List.foldl_append]
    obtain ⟨i1, i2, i3⟩ := ih
    obtain ⟨t1, t2, t3, _⟩ := hsG_trydump hash i1 n false
    exact ⟨t1, mdMono_trans i2 t2, by simp only [List.foldl_cons, List.foldl_nil]; rw [t3, i3]⟩

theorem hsG_closeAll {V : Nat → FileRecs} (n : Nat) {hs : Hints} (g : HsG hash V hs) :
    HsG hash V (closeAll hs n) ∧ MdMono hs (closeAll hs n) ∧ (closeAll hs n).maxChunk = hs.maxChunk
    ∧ (∀ j, (j < n ∨ (hs.chunks j).last.items = []) → ((closeAll hs n).chunks j).last.items = []) := by
  unfold closeAll
  induction n with
  | zero =>
    refine ⟨g, mdMono_refl hs, rfl, ?_⟩
    intro j hj
    simp only [List.range_zero, List.foldl_nil]
    rcases hj with hj | hj
    · omega
    · exact hj
  | succ n ih =>
    rw [List.range_succ, List.foldl_append]
    obtain ⟨i1, i2, i3, i4⟩ := ih
    obtain ⟨t1, t2, t3, t4, t5, t6⟩ := hsG_trydump hash i1 n true
    refine ⟨t1, mdMono_trans i2 t2, by simp only [List.foldl_cons, List.foldl_nil]; rw [t3, i3], ?_⟩
    intro j hj
    simp only [List.foldl_cons, List.foldl_nil]
    by_cases hjn : j = n
    · subst hjn; exact t6 rfl
    · rw [t4 j hjn]
      apply i4 j
      rcases hj with hj | hj
      · left; omega
      · exact Or.inr hj

end
end CollideLemmas
