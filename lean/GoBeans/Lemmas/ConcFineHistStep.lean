/-
  Layer 4 of the invariants of the fine-grained interleaving model, continued: every scheduler decision preserves
  `HistInv` — case analysis over the 23 micro-steps: 4 linearisation steps (`hist_log`), 5 response steps
  (`hist_respond`), all others record nothing (`hist_same`).  Core-only.
-/
import GoBeans.Lemmas.ConcFineHist

namespace ConcFine
open Conc (AOp Out Ev Reg regStep)

/-- the tree update of an accepted write IS one step of the atomic register -/
theorem treeSet_reg {s : State} (hc : ChunkInv s) (hd : DataInv s) {q : WReq} {ver : Int} (hq : QOK q)
    (hw : WPre s q ver) :
    regStep (absReg s q.key) q.aop = ({ ver := ver.natAbs, val := q.val }, .acc ver.natAbs) := by
  have hver : (absReg s q.key).ver = (oldVer s q.key).natAbs := by
    unfold oldVer
    cases hit : s.tree q.key with
    | none => rw [absReg_none hit]; rfl
    | some it => obtain ⟨r, _, _, _, _, h5⟩ := absReg_eq hc hd hit; rw [h5]
  cases hdel : q.del with
  | false =>
    have h1 := cauv_write (oldVer s q.key) q hdel
    rw [← hw.1] at h1
    have : ver.natAbs = (absReg s q.key).ver + 1 := by rw [hver]; omega
    simp only [WReq.aop, hdel, Bool.false_eq_true, if_false, regStep, this]
  | true =>
    have h1 := cauv_delete (oldVer s q.key) q hdel
    rw [← hw.1] at h1
    have hneg : ver < 0 := by omega
    have hv0 := hq.1 hdel
    have : ver.natAbs = (absReg s q.key).ver + 1 := by rw [hver]; omega
    have hval : (absReg s q.key).val ≠ 0 := by
      cases hit : s.tree q.key with
      | none => exact absurd ⟨hneg, Or.inl hit⟩ hw.2
      | some it =>
        obtain ⟨r, _, _, h3, h4, h5⟩ := absReg_eq hc hd hit
        rw [h5]
        have hov : oldVer s q.key = it.ver := by unfold oldVer; rw [hit]
        have hge : ¬ it.ver < 0 := fun hlt => hw.2 ⟨hneg, Or.inr (by rw [hov]; exact hlt)⟩
        have : 0 < r.ver := by have := h4.1; omega
        exact h4.2.1 this
    simp only [WReq.aop, hdel, if_true, regStep, hval, ne_eq, not_false_eq_true, this, hv0]

/-- the NOT_FOUND answer of a delete IS the atomic register's refusal -/
theorem reject_reg {s : State} (hc : ChunkInv s) (hd : DataInv s) {q : WReq}
    (hno : (checkAndUpdateVersion (oldVer s q.key) q.rev).1 < 0 ∧ (s.tree q.key = none ∨ oldVer s q.key < 0)) :
    regStep (absReg s q.key) q.aop = (absReg s q.key, .rej) := by
  have hdel : q.del = true := by
    cases hdel : q.del with
    | true => rfl
    | false => have := cauv_write (oldVer s q.key) q hdel; omega
  have hval : (absReg s q.key).val = 0 := by
    cases hit : s.tree q.key with
    | none => rw [absReg_none hit]
    | some it =>
      obtain ⟨r, _, _, h3, h4, h5⟩ := absReg_eq hc hd hit
      rw [h5]
      have hov : oldVer s q.key = it.ver := by unfold oldVer; rw [hit]
      rcases hno.2 with h | h
      · rw [hit] at h; contradiction
      · exact h4.2.2 (by omega)
  simp [WReq.aop, hdel, regStep, hval]

local macro "others" : tactic =>
  `(tactic| (intro u hu; simp [State.goto, State.log, State.respond, State.readDone, State.setChunk, hu]))

local macro "same_case" t:ident hi:ident hpc:ident g:ident hd:ident hc:ident hc':ident : tactic => `(tactic| (
  have hlt := HistInv.inv $hi $t (by rw [$hpc:ident]; intro hh; cases hh)
  refine hist_same $t $hi rfl rfl (by others) ?_ $g (fun k => absReg_stable rfl $g $hd $hc $hc') ?_
  · intro _; simp [State.goto, State.log, State.respond, State.readDone, State.setChunk]; omega
  · intro out hp; rw [$hpc:ident] at hp; exact False.elim hp))

theorem micro_hist (cfg : Cfg) (s s' : State) (t : Nat) (hl : LockInv s) (hc : ChunkInv s) (hd : DataInv s)
    (hi : HistInv s) (h : micro cfg s t = some s') : HistInv s'.tick := by
  have g := micro_grows hl hc h
  have hc' := micro_layout cfg s s' t hl hc h
  have hw := hd.wr t
  cases hpc : (s.thr t).pc with
  | idle => simp [micro, hpc] at h
  | wLock q =>
    simp only [micro, hpc] at h
    split at h
    · obtain rfl := Option.some.inj h; same_case t hi hpc g hd hc hc'
    · contradiction
  | wGet q =>
    simp only [micro, hpc] at h
    have hne : (s.thr t).pc ≠ .idle := by rw [hpc]; intro hh; cases hh
    split at h
    · rename_i hno
      obtain rfl := Option.some.inj h
      have hrr := reject_reg hc hd hno
      refine hist_log t q.key q.aop .rej hi rfl rfl (by others) hne (by simp [State.goto, State.log]) g ?_ ?_ ?_ ?_ ?_
      · rw [hrr]
      · rw [hrr]; exact absReg_stable rfl g hd hc hc'
      · intro k' _; exact absReg_stable rfl g hd hc hc'
      · intro o hp; rw [hpc] at hp; exact hp
      · simp [State.goto, State.log, PendPC]
    · obtain rfl := Option.some.inj h; same_case t hi hpc g hd hc hc'
  | wSlot q ver =>
    simp only [micro, hpc] at h
    split at h
    · split at h <;> (obtain rfl := Option.some.inj h; same_case t hi hpc g hd hc hc')
    · contradiction
  | wAppend q ver pos =>
    simp only [micro, hpc] at h
    obtain rfl := Option.some.inj h; same_case t hi hpc g hd hc hc'
  | wDsUnlock q ver pos =>
    simp only [micro, hpc] at h
    obtain rfl := Option.some.inj h; same_case t hi hpc g hd hc hc'
  | wTreeSet q ver pos =>
    simp only [micro, hpc] at h
    have hne : (s.thr t).pc ≠ .idle := by rw [hpc]; intro hh; cases hh
    rw [hpc] at hw
    obtain ⟨hq, hwp, hst⟩ := hw
    have hts := treeSet_reg hc hd hq hwp
    obtain rfl := Option.some.inj h
    refine hist_log t q.key q.aop (.acc ver.natAbs) hi rfl rfl (by others) hne (by simp [State.goto, State.log]) g
      ?_ ?_ ?_ ?_ ?_
    · rw [hts]
    · rw [hts]
      have hst' : StoredAt s.chunks pos (q.toRec ver pos.off) := hst
      have hlk := (hc.ok pos.chunk).lookup _ hst'.1
      have hoff : (q.toRec ver pos.off).off = pos.off := rfl
      rw [hoff] at hlk
      simp [absReg, State.goto, State.log, hlk, WReq.toRec]
    · intro k' hk'
      exact absReg_stable (by simp [State.goto, State.log, hk']) g hd hc hc'
    · intro o hp; rw [hpc] at hp; exact hp
    · simp [State.goto, State.log, PendPC]
  | wUnlock k out =>
    simp only [micro, hpc] at h
    obtain rfl := Option.some.inj h
    refine hist_respond t out hi rfl rfl (by others) (by simp [State.goto]) g
      (fun k => absReg_stable rfl g hd hc hc') ?_
    intro o hp; rw [hpc] at hp; exact hp
  | rGet k =>
    simp only [micro, hpc] at h
    have hne : (s.thr t).pc ≠ .idle := by rw [hpc]; intro hh; cases hh
    split at h
    · rename_i hit
      obtain rfl := Option.some.inj h
      refine hist_log t k .read (.got 0 0) hi rfl rfl (by others) hne (by simp [State.goto, State.log]) g ?_ ?_ ?_ ?_ ?_
      · rw [absReg_none hit]; rfl
      · exact absReg_stable rfl g hd hc hc'
      · intro k' _; exact absReg_stable rfl g hd hc hc'
      · intro o hp; rw [hpc] at hp; exact hp
      · simp [State.goto, State.log, PendPC]
    · rename_i it hit
      obtain rfl := Option.some.inj h
      refine hist_log t k .read (.got (absReg s k).val (absReg s k).ver) hi rfl rfl (by others) hne
        (by simp [State.goto, State.log]) g rfl ?_ ?_ ?_ ?_
      · exact absReg_stable rfl g hd hc hc'
      · intro k' _; exact absReg_stable rfl g hd hc hc'
      · intro o hp; rw [hpc] at hp; exact hp
      · obtain ⟨r, h1, h2, _, _, h5⟩ := absReg_eq hc hd hit
        simp only [State.goto, State.log, if_true, PendPC]
        exact ⟨r, h1, h2, by rw [h5]⟩
  | rRet k =>
    simp only [micro, hpc] at h
    obtain rfl := Option.some.inj h
    refine hist_respond t (.got 0 0) hi rfl rfl (by others) (by simp [State.goto]) g
      (fun k => absReg_stable rfl g hd hc hc') ?_
    intro o hp; rw [hpc] at hp; exact hp
  | rBuf k it =>
    simp only [micro, hpc] at h
    split at h
    · rename_i r' hfound
      obtain rfl := Option.some.inj h
      refine hist_respond t (readOut k it (some r')) hi rfl rfl (by others) (by simp [State.goto, State.readDone]) g
        (fun k => absReg_stable rfl g hd hc hc') ?_
      intro o hp; rw [hpc] at hp
      obtain ⟨r, h1, h2, h3⟩ := hp
      rcases (hc.ok it.pos.chunk).read r h1.1 with hf | ⟨hf, _⟩
      · rw [h1.2, hfound] at hf
        obtain rfl := BufRes.found.inj hf
        simp [readOut, h2, h3]
      · rw [h1.2, hfound] at hf; contradiction
    · rename_i herr
      obtain rfl := Option.some.inj h
      refine hist_respond t (readOut k it none) hi rfl rfl (by others) (by simp [State.goto, State.readDone]) g
        (fun k => absReg_stable rfl g hd hc hc') ?_
      intro o hp; rw [hpc] at hp
      obtain ⟨r, h1, h2, h3⟩ := hp
      rcases (hc.ok it.pos.chunk).read r h1.1 with hf | ⟨hf, _⟩
      · rw [h1.2, herr] at hf; contradiction
      · rw [h1.2, herr] at hf; contradiction
    · rename_i hmiss
      obtain rfl := Option.some.inj h
      have hlt := hi.inv t (by rw [hpc]; intro hh; cases hh)
      refine hist_same t hi rfl rfl (by others) ?_ g (fun k => absReg_stable rfl g hd hc hc') ?_
      · intro _; simp [State.goto]; omega
      · intro o hp; rw [hpc] at hp
        obtain ⟨r, h1, h2, h3⟩ := hp
        simp only [State.goto, if_true, PendPC]
        rcases (hc.ok it.pos.chunk).read r h1.1 with hf | ⟨_, hf, _⟩
        · rw [h1.2, hmiss] at hf; contradiction
        · exact ⟨r, hf, h1.2, h2, h3⟩
  | rFile k it =>
    simp only [micro, hpc] at h
    obtain rfl := Option.some.inj h
    refine hist_respond t (readOut k it (fileLookup (s.chunks it.pos.chunk) it.pos.off)) hi rfl rfl (by others)
      (by simp [State.goto, State.readDone]) g (fun k => absReg_stable rfl g hd hc hc') ?_
    intro o hp; rw [hpc] at hp
    obtain ⟨r, h1, h2, h3, h4⟩ := hp
    have hfl : fileLookup (s.chunks it.pos.chunk) it.pos.off = some r := by
      have := contig_find _ _ _ (hc.ok it.pos.chunk).cfile r h1
      rw [h2] at this; exact this
    rw [hfl]
    simp [readOut, h3, h4]
  | fPre c force late =>
    simp only [micro, hpc] at h
    split at h <;> (obtain rfl := Option.some.inj h; same_case t hi hpc g hd hc hc')
  | fLock c force late =>
    simp only [micro, hpc] at h
    split at h
    · obtain rfl := Option.some.inj h; same_case t hi hpc g hd hc hc'
    · contradiction
  | fDs1 c force late =>
    simp only [micro, hpc] at h
    split at h
    · split at h
      · obtain rfl := Option.some.inj h; same_case t hi hpc g hd hc hc'
      · split at h <;> (obtain rfl := Option.some.inj h; same_case t hi hpc g hd hc hc')
    · contradiction
  | fOpen c =>
    simp only [micro, hpc] at h
    obtain rfl := Option.some.inj h; same_case t hi hpc g hd hc hc'
  | fCheck c woff =>
    simp only [micro, hpc] at h
    split at h <;> (obtain rfl := Option.some.inj h; same_case t hi hpc g hd hc hc')
  | fCount c woff =>
    simp only [micro, hpc] at h
    obtain rfl := Option.some.inj h; same_case t hi hpc g hd hc hc'
  | fFetch c woff n i fl =>
    simp only [micro, hpc] at h
    split at h
    · split at h <;> (obtain rfl := Option.some.inj h; same_case t hi hpc g hd hc hc')
    · obtain rfl := Option.some.inj h; same_case t hi hpc g hd hc hc'
  | fWrite c woff n i fl r =>
    simp only [micro, hpc] at h
    obtain rfl := Option.some.inj h; same_case t hi hpc g hd hc hc'
  | fDetach c n fl =>
    simp only [micro, hpc] at h
    obtain rfl := Option.some.inj h; same_case t hi hpc g hd hc hc'
  | fDs2 fl =>
    simp only [micro, hpc] at h
    split at h
    · obtain rfl := Option.some.inj h; same_case t hi hpc g hd hc hc'
    · contradiction
  | fUnlock =>
    simp only [micro, hpc] at h
    obtain rfl := Option.some.inj h; same_case t hi hpc g hd hc hc'

theorem invoke_hist (s s' : State) (t : Nat) (op : Op) (hi : HistInv s) (h : invoke s t op = some s') :
    HistInv s'.tick := by
  unfold invoke at h
  split at h
  · rename_i hpc
    dsimp only at h
    have key : ∀ pc : PC,
        HistInv ({ s with thr := fun u => if u = t then { pc := pc, inv := s.clock } else s.thr u } : State).tick := by
      intro pc
      refine hist_same t hi rfl rfl (by intro u hu; simp [hu]) (by intro _; simp) (grows_refl _) (fun k => rfl) ?_
      intro out hp; rw [hpc] at hp; exact False.elim hp
    cases op with
    | write k v sz =>
      dsimp only at h
      split at h
      · contradiction
      · obtain rfl := Option.some.inj h; exact key _
    | delete k sz => obtain rfl := Option.some.inj h; exact key _
    | read k => obtain rfl := Option.some.inj h; exact key _
    | flush c force late => obtain rfl := Option.some.inj h; exact key _
  · contradiction

theorem step_hist (cfg : Cfg) (s s' : State) (t : Nat) (a : Act) (hl : LockInv s) (hc : ChunkInv s) (hd : DataInv s)
    (hi : HistInv s) (h : step cfg s t a = some s') : HistInv s' := by
  obtain ⟨_, s1, rfl, h1 | ⟨op, h1⟩⟩ := step_cases h
  · exact micro_hist cfg s s1 t hl hc hd hi h1
  · exact invoke_hist s s1 t op hi h1

end ConcFine
