/-
  C13 (a) with restarts: `Collide.reopen` with data files present — `close` (all hint buffers written, tree dump),
  then `open` (tree dump loaded or not, hint loop) — against `Store.step … (.reopen _)`.
-/
import GoBeans.Lemmas.CollideRstOpen3
set_option linter.unusedSimpArgs false
set_option linter.unusedVariables false
namespace CollideLemmas
open Store Spec HintIndex Collide HintBufferLemmas HintLoadLemmas HintIndexLemmas StoreLemmas

section
variable (hash : Key → Nat) (K : Key → Prop)

theorem isLarger_zero_of_idLe {c j : Nat} {md : Nat × Int} (h : idLe c j md) : isLarger ((0, 0) : Nat × Int) md.1 md.2 = true := by
  unfold idLe isLarger at *
  simp only [Bool.or_eq_true, Bool.and_eq_true, decide_eq_true_eq] at *
  omega

theorem foldl_id_of {α : Type} (f : α → Nat → α) (l : List Nat) (h : ∀ i ∈ l, ∀ t, f t i = t) (t : α) : l.foldl f t = t := by
  induction l generalizing t with
  | nil => rfl
  | cons i rest ih =>
    simp only [List.foldl_cons]
    rw [h i (by simp)]
    exact ih (fun j hj => h j (by simp [hj])) t

theorem reopen_some_ok (hInj : InjOn hash K) (cfg : Collide.Cfg) (hcap : 1 ≤ cfg.cap) {st : State} {m : KV} {n : Nat} (nc : NoColl hash K st)
    (h : HInv hash K cfg.s n st.b m) (ri : RI hash st) (kt : Bool) (mx : Nat)
    (hmx : lastNonEmpty ((List.range (st.b.head + 1)).map (fun i => { st.b.chunks i with flushed := (st.b.chunks i).recs.length })) = some mx)
    (hmxle : mx ≤ st.b.head) (hex : Exists' st.b mx) (habove : ∀ j, mx < j → j ≤ st.b.head → ¬ Exists' st.b j) :
    ReopenOK hash K cfg st kt := by
  have w := h.wf
  have hemp : ∀ j, mx < j → (st.b.chunks j).recs = [] ∧ (st.b.chunks j).size = 0 := by
    intro j hj
    by_cases hi : j ≤ st.b.head
    · exact not_exists_empty w.posInv (habove j hj hi)
    · exact w.fresh j (by omega)
  have hle_mx : ∀ i, i ≤ st.b.head → Exists' st.b i → i ≤ mx := by
    intro i hi he
    cases Nat.lt_or_ge mx i with
    | inl hlt => exact absurd he (habove i hlt hi)
    | inr hge => exact hge
  have hKrecs := allrecs_K hash K h
  have hz : ∀ i, (st.b.chunks i).size = 0 → (st.b.chunks i).recs = [] := by
    intro i hs
    have := w.ok i
    rw [hs] at this
    exact okFrom_nil_of_zero this
  -- the Store side
  have es : (Store.step hash cfg.s st.b (.reopen kt)).1 =
      { chunks := fun i => { st.b.chunks i with flushed := (st.b.chunks i).recs.length }, head := mx + 1,
        tree := if kt then st.b.tree else replayTree hash st.b.log, nextGC := st.b.nextGC } := by
    simp only [Store.step, hmx]
  -- the close
  obtain ⟨cl, hmono, hmtop⟩ := closed_of hash (cfg := cfg.s) ri
  have hnc1 := hsNC_closeAll hash K (st.hs.maxChunk + 1) st.hs nc.hs
  unfold ReopenOK
  rw [show st.reopen hash cfg kt = _ from reopen_some hash cfg st kt mx hmx, es]
  generalize hhs1 : closeAll st.hs (st.hs.maxChunk + 1) = hs1 at cl hmono hmtop hnc1
  have cov : Covers hs1 (reB st mx) := covers_of hash w cl mx
  -- `maxDumpedHintID` after the close names an existing data file
  have hmd1 : hs1.maxDumped.1 ≤ mx := by
    rcases hmtop with e | e
    · rw [e]
      rcases ri.top with t | ⟨i, t1, t2, t3⟩
      · omega
      · have := hle_mx i t2 t3; omega
    · obtain ⟨t1, t2⟩ := top_of_nonempty w _ e
      exact hle_mx _ t1 (Or.inl t2)
  -- what is loaded
  generalize hL : reLoaded st mx kt hs1 = L
  have hLcases : (L = none ∧ (kt = true → ∀ c, (st.b.chunks c).recs = [])) ∨ (L = some (hs1.maxDumped, st.b.tree) ∧ kt = true) := by
    rw [← hL]
    unfold reLoaded
    cases kt with
    | false => left; exact ⟨rfl, fun e => by cases e⟩
    | true =>
      simp only [if_true]
      by_cases hdump : isLarger st.treeID hs1.maxDumped.1 hs1.maxDumped.2 = true
      · right
        have hgt : ¬ hs1.maxDumped.1 > mx := by omega
        simp [hdump, hgt]
      · left
        have htf : st.treeFile = none ∧ st.treeID = (0, 0) := by
          rcases ri.tid with t | t
          · exact absurd (hmono _ t) hdump
          · exact t
        simp only [hdump, Bool.false_eq_true, if_false, htf.1]
        refine ⟨trivial, fun _ c => ?_⟩
        cases hr : (st.b.chunks c).recs with
        | nil => rfl
        | cons p l =>
          exfalso
          rcases ckI_nonempty hash (cl.g.ck c) (by show (st.b.chunks c).recs ≠ []; rw [hr]; simp) with e | e
          · exact e (cl.empty c)
          · have hlen : 0 < (hs1.chunks c).old.length := by
              cases ho : (hs1.chunks c).old with
              | nil => exact absurd ho e
              | cons _ _ => simp
            have := isLarger_zero_of_idLe (cl.g.mdb c 0 hlen)
            rw [htf.2] at hdump
            exact hdump this
  have htidle : (reTid L).1 ≤ mx := by
    rcases hLcases with ⟨e, _⟩ | ⟨e, _⟩
    · rw [e]; exact Nat.zero_le _
    · rw [e]; exact hmd1
  -- the two loops
  have hnd1 : ((List.range (mx + 1)).filter (fun i => decide ((reTid L).1 ≤ i))).Nodup := List.Nodup.sublist List.filter_sublist List.nodup_range
  have hnd2 : ((List.range (mx + 1)).filter (fun i => decide (i < (reTid L).1))).Nodup := List.Nodup.sublist List.filter_sublist List.nodup_range
  obtain ⟨a1, a2, a3, a4, a5⟩ := openFold_spec hash cfg.cap (reB st mx) hs1 cov (reTid L) _ hnd1
    (({ maxDumped := reTid L } : Hints), reTree0 L) (fun j _ => rfl) (isLarger_refl _)
  have a6 := openFold_md hash cfg.cap (reB st mx) hs1 cov (reTid L) _ hnd1
    (({ maxDumped := reTid L } : Hints), reTree0 L) (fun j _ => rfl) (isLarger_refl _)
  have a7 : L = none → ∀ c ∈ (List.range (mx + 1)).filter (fun i => decide ((reTid L).1 ≤ i)),
      ∀ j, j < (loadedCk (hs1.chunks c) ((reB st mx).chunks c).size).old.length →
        idLe c j (((List.range (mx + 1)).filter (fun i => decide ((reTid L).1 ≤ i))).foldl
          (openChunk hash cfg.cap (reB st mx) (diskOf hs1) (reTid L)) (({ maxDumped := reTid L } : Hints), reTree0 L)).1.maxDumped := by
    intro e
    subst e
    exact openFold_mdb hash cfg.cap (reB st mx) hs1 cov _ (List.Pairwise.sublist List.filter_sublist List.pairwise_lt_range)
      (({ maxDumped := ((0, -1) : Nat × Int) } : Hints), reTree0 none) (fun j _ => rfl) (isLarger_refl _)
  generalize hx1 : ((List.range (mx + 1)).filter (fun i => decide ((reTid L).1 ≤ i))).foldl
      (openChunk hash cfg.cap (reB st mx) (diskOf hs1) (reTid L)) (({ maxDumped := reTid L } : Hints), reTree0 L) = x1 at a1 a2 a3 a4 a5 a6 a7
  have hfresh2 : ∀ j ∈ (List.range (mx + 1)).filter (fun i => decide (i < (reTid L).1)), x1.1.chunks j = {} := by
    intro j hj
    have hnj : ¬ j ∈ (List.range (mx + 1)).filter (fun i => decide ((reTid L).1 ≤ i)) := by
      rw [mem_filter_range_le]; rw [mem_filter_range_lt] at hj; omega
    rw [a1 j, if_neg hnj]
  obtain ⟨b1, b2, b3, b4, b5⟩ := openFold_spec hash cfg.cap (reB st mx) hs1 cov (reTid L) _ hnd2 x1 hfresh2 a4
  have b6 := openFold_md hash cfg.cap (reB st mx) hs1 cov (reTid L) _ hnd2 x1 hfresh2 a4
  have hfold : reFold hash cfg st mx hs1 L =
      ((List.range (mx + 1)).filter (fun i => decide (i < (reTid L).1))).foldl (openChunk hash cfg.cap (reB st mx) (diskOf hs1) (reTid L)) x1 := by
    unfold reFold; rw [hx1]
  rw [hfold]
  have hx2none : L = none → ((List.range (mx + 1)).filter (fun i => decide (i < (reTid L).1))).foldl
      (openChunk hash cfg.cap (reB st mx) (diskOf hs1) (reTid L)) x1 = x1 := by
    intro e
    subst e
    have : (List.range (mx + 1)).filter (fun i => decide (i < (reTid none).1)) = [] := by
      rw [List.filter_eq_nil_iff]
      intro a _
      simp [reTid]
    rw [this]; rfl
  generalize hx2 : ((List.range (mx + 1)).filter (fun i => decide (i < (reTid L).1))).foldl
      (openChunk hash cfg.cap (reB st mx) (diskOf hs1) (reTid L)) x1 = x2 at b1 b2 b3 b4 b5 b6 hx2none
  -- the hint chunks of the new process
  have hchunks : ∀ j, x2.1.chunks j = if j ≤ mx then loadedCk (hs1.chunks j) (st.b.chunks j).size else {} := by
    intro j
    rw [b1 j]
    by_cases hj2 : j ∈ (List.range (mx + 1)).filter (fun i => decide (i < (reTid L).1))
    · rw [if_pos hj2, if_pos ((mem_filter_range_lt _ _ _).mp hj2).1]; rfl
    · rw [if_neg hj2, a1 j]
      by_cases hj1 : j ∈ (List.range (mx + 1)).filter (fun i => decide ((reTid L).1 ≤ i))
      · rw [if_pos hj1, if_pos ((mem_filter_range_le _ _ _).mp hj1).1]; rfl
      · rw [if_neg hj1]
        have : ¬ j ≤ mx := by
          intro hle
          rw [mem_filter_range_le] at hj1; rw [mem_filter_range_lt] at hj2
          omega
        rw [if_neg this]
  have htree : x2.2 = ((List.range (mx + 1)).filter (fun i => decide ((reTid L).1 ≤ i))).foldl
      (fun t i => treeStep (reTid L) (loadedCk (hs1.chunks i) ((reB st mx).chunks i).size) t i) (reTree0 L) := by
    rw [b5, treeStep_below _ _ _ (fun i hi => ((mem_filter_range_lt _ _ _).mp hi).2), a5]
  -- `maxDumpedHintID` of the new process names an existing data file
  have hmd2 : x2.1.maxDumped.1 ≤ mx := by
    rcases b6 with e | e
    · rw [e]
      rcases a6 with e' | e'
      · rw [e']; exact htidle
      · exact ((mem_filter_range_le _ _ _).mp e').1
    · exact ((mem_filter_range_lt _ _ _).mp e).1
  -- every split of the new process is at most `maxDumpedHintID`
  have hmdb2 : ∀ c j, j < (x2.1.chunks c).old.length → idLe c j x2.1.maxDumped := by
    intro c j hj
    rw [hchunks c] at hj
    by_cases hc : c ≤ mx
    · rw [if_pos hc] at hj
      rcases hLcases with ⟨e, _⟩ | ⟨e, _⟩
      · rw [hx2none e]
        apply a7 e c _ j hj
        rw [mem_filter_range_le]
        exact ⟨hc, by rw [e]; exact Nat.zero_le _⟩
      · have hj' : j < (hs1.chunks c).old.length := by
          rw [loadedCk_old] at hj
          split at hj
          · cases hj
          · exact hj
        have h1 := cl.g.mdb c j hj'
        have h2 : isLarger hs1.maxDumped x2.1.maxDumped.1 x2.1.maxDumped.2 = true := by
          have := b4; rw [e] at this; exact this
        exact isLarger_trans _ _ _ _ h1 h2
    · rw [if_neg hc] at hj; cases hj
  refine ⟨rfl, rfl, ?_, ?_, ?_⟩
  · -- the tree
    intro k hk
    show AMap.get x2.2 (hash k) = AMap.get (if kt then st.b.tree else replayTree hash st.b.log) (hash k)
    rw [htree]
    rcases hLcases with ⟨e, hkt⟩ | ⟨e, hkt⟩
    · -- no tree dump: the hint replay
      subst e
      have hl1 : (List.range (mx + 1)).filter (fun i => decide ((reTid none).1 ≤ i)) = List.range (mx + 1) := by
        rw [List.filter_eq_self]
        intro a _
        simp [reTid]
      rw [hl1]
      have hfun : (fun t i => treeStep (reTid none) (loadedCk (hs1.chunks i) ((reB st mx).chunks i).size) t i)
          = (fun t i => applySplits i t (loadedCk (hs1.chunks i) (st.b.chunks i).size).files) := by
        funext t i
        exact treeStep_nodump _ t i
      rw [hfun]
      have hrep := applyRange_replay hash K hInj (fun c => (st.b.chunks c).recs)
        (fun i => (loadedCk (hs1.chunks i) (st.b.chunks i).size).files) hKrecs
        (fun i => loaded_fileHints hash cl hz i) (mx + 1) k hk
      have hlog : st.b.log = (List.range (mx + 1)).flatMap (fun i => fileLog i (st.b.chunks i).recs) :=
        log_as_fileLog st.b (mx + 1) (by omega) (fun j hj => (hemp j (by omega)).1)
      show AMap.get ((List.range (mx + 1)).foldl (fun t i => applySplits i t (loadedCk (hs1.chunks i) (st.b.chunks i).size).files) []) (hash k) = _
      rw [hrep, ← hlog]
      cases kt with
      | false => rfl
      | true =>
        simp only [if_true]
        have hl0 : st.b.log = [] := log_nil_of st.b (hkt rfl)
        rw [tree_none_of_log_nil hash K h.lr hl0 k hk, hl0]; rfl
    · -- the tree dump of the close: nothing is applied
      subst e
      rw [hkt]
      simp only [if_true]
      show AMap.get (((List.range (mx + 1)).filter (fun i => decide (hs1.maxDumped.1 ≤ i))).foldl
        (fun t i => treeStep hs1.maxDumped (loadedCk (hs1.chunks i) ((reB st mx).chunks i).size) t i) st.b.tree) (hash k) = _
      rw [foldl_id_of _ _ (fun i hi t => treeStep_loaded hash cl.g _ i ((mem_filter_range_le _ _ _).mp hi).2 t)]
  · -- no collision state
    refine ⟨nc.ct, ?_⟩
    intro c
    show CkNC hash K (x2.1.chunks c)
    rw [hchunks c]
    split
    · exact ckNC_loaded hash K _ (hnc1 c) _
    · exact ckNC_empty hash K
  · -- the invariant
    refine ⟨⟨?_, ?_, ?_, hmdb2⟩, ?_, ?_, ?_, ?_⟩
    · intro c
      show CkI hash false (st.b.chunks c).recs (st.b.chunks c).recs [] (x2.1.chunks c)
      rw [hchunks c]
      by_cases hc : c ≤ mx
      · rw [if_pos hc]
        unfold loadedCk
        by_cases hs0 : (st.b.chunks c).size = 0
        · rw [if_pos hs0, hz c hs0]; exact ckI_empty hash false []
        · rw [if_neg hs0]; exact ckI_emptyLast hash false (cl.g.ck c) (cl.empty c)
      · rw [if_neg hc, (hemp c (by omega)).1]; exact ckI_empty hash false []
    · intro c sp hsp
      have hsp' : sp ∈ (x2.1.chunks c).old := hsp
      rw [hchunks c] at hsp'
      split at hsp'
      · rw [loadedCk_old] at hsp'
        split at hsp'
        · cases hsp'
        · exact cl.g.oldf c sp hsp'
      · cases hsp'
    · intro c _
      show (x2.1.chunks c).last.items = []
      rw [hchunks c]
      split
      · rw [loadedCk_last]
      · rfl
    · -- tree id
      show isLarger (if L.isNone then x2.1.maxDumped else reTid L) x2.1.maxDumped.1 x2.1.maxDumped.2 = true ∨ _
      left
      cases hLn : L.isNone with
      | true => simp only [if_true]; exact isLarger_refl _
      | false => simp only [Bool.false_eq_true, if_false]; exact b4
    · right
      exact ⟨mx, hmd2, by show mx ≤ mx + 1; omega, hex⟩
    · intro c hsz
      have hsz' : (st.b.chunks c).size > 0 := hsz
      show (∃ sp ∈ (x2.1.chunks c).old, ∃ f, sp.file = some f ∧ f.datasize = (st.b.chunks c).size) ∨ _
      left
      have hc : c ≤ mx := by
        cases Nat.lt_or_ge mx c with
        | inl hlt => have := (hemp c hlt).2; omega
        | inr hge => exact hge
      rw [hchunks c, if_pos hc, loadedCk_old, if_neg (by omega)]
      exact cov.full c hsz'
    · intro t ht
      have : t = st.ct := (Option.some.inj ht).symm
      rw [this]; exact nc.ct

/-- `Collide.reopen` against `Store.step … (.reopen _)` -/
theorem reopen_ok (hInj : InjOn hash K) (cfg : Collide.Cfg) (hcap : 1 ≤ cfg.cap) {st : State} {m : KV} {n : Nat} (nc : NoColl hash K st)
    (h : HInv hash K cfg.s n st.b m) (ri : RI hash st) (kt : Bool) : ReopenOK hash K cfg st kt := by
  rcases lne_spec st.b h.wf.posInv with ⟨mx, hmx, hmxle, hex, habove⟩ | ⟨hnone, hall⟩
  · exact reopen_some_ok hash K hInj cfg hcap nc h ri kt mx hmx hmxle hex habove
  · exact reopen_none_ok hash K cfg nc h ri kt hnone hall

end
end CollideLemmas
