/-
  Hint files as the index the tree is rebuilt from at start (C02) — hand-written model of
    store/hint.go      HintBuffer.Set / Dump, hintChunk.setItem / rotate, hintMgr.set / trydump / close,
                       findValidPaths, loadHintsByChunk
    store/bucket.go    buildHintFromData, checkHintWithData, updateHtreeFromHint, the hint loop of Bucket.open
  on the record level of GoBeans/Model/Store.lean (`Store.Rec`, `Store.Pos`, `Store.TItem`).

  What a restart does: it NEVER replays data records into the tree.  Per data file it keeps hint items; a write
  puts one item into the newest split of the file's hint chunk (same (keyhash, key) → the later item replaces the
  earlier one inside that split); a split is closed when it is full (`SplitCap` different keys) or when the dumper
  closes it; a closed split is written to `<chunk>.<split>.idx.s` SORTED by (keyhash, key).  `Bucket.open` walks the
  data files in id order and per file the split files in split order and applies item after item:
  `Ver > 0 → tree.set, else tree.remove` (bucket.go:142-148).  Split files that are missing (or follow a missing /
  unreadable / too long one) are rebuilt first: the data file is scanned from the largest `datasize` of the kept
  split files and the records found are fed to the same buffer code.

  The hint file bytes are those of GoBeans/Model/Hint.lean (C14 proves read ∘ write = id on item lists); here a
  split file is its item list plus the `datasize` header field.  The tree is the `AMap` of Model/Store.lean
  (one slot per key hash).  The merged hint `*.idx.m` does not occur: `Bucket.open` never reads it
  (`hintMgr.merged` is nil after a start until `Merge` runs; it only serves `hintMgr.getItem` key lookups).
  Core-only, executable.
-/
import GoBeans.Model.LogView
import GoBeans.Model.Hint

namespace HintIndex
open Store Spec

abbrev Item := Hint.Item

/-- the records of one data file with their offsets, in offset order (`Store.Chunk.recs`) -/
abbrev FileRecs := List (Nat × Rec)

abbrev Tree := List (Nat × TItem)

/-! ### from records to hint items -/

/-- `Bucket.set` → `hintMgr.set(ki, &v.Meta, pos, …)` (bucket.go:409-410, hint.go:519-528): the item carries the
    key hash of the request, the SAME meta (version, value hash) that went into the tree one line earlier
    (`Store.Bucket.put`), the offset, and chunk 0 (`Position{0, pos.Offset}`) -/
def itemOfWrite (hash : Key → Nat) (p : Nat × Rec) : Item :=
  { khash := hash p.2.key, chunk := 0, off := p.1, ver := p.2.ver,
    vhash := if p.2.ver > 0 then vhashOf p.2.body else 0, key := p.2.key }

/-- loop body of `Bucket.buildHintFromData` (bucket.go:97-113): key hash recomputed from the record's key, value
    hash recomputed from the (decompressed) body of EVERY record, tombstones included -/
def itemOfScan (hash : Key → Nat) (p : Nat × Rec) : Item :=
  { khash := hash p.2.key, chunk := 0, off := p.1, ver := p.2.ver, vhash := vhashOf p.2.body, key := p.2.key }

def mkItem (hash : Key → Nat) (scan : Bool) (p : Nat × Rec) : Item :=
  if scan then itemOfScan hash p else itemOfWrite hash p

/-! ### `HintBuffer` (hint.go:93-164) -/

/-- `HintBuffer`: `items[0:num]` (slot order), `index` (keyhash → slot of the item last set with that hash),
    `collisions` (keyhash → key → slot, only for hashes seen with two different keys), `maxoffset` -/
structure Buf where
  items      : List Item := []
  index      : List (Nat × Nat) := []
  collisions : List (Nat × List (Key × Nat)) := []
  maxoffset  : Nat := 0
deriving Repr, Inhabited

/-! `HintBuffer.Set(it, recSize)` step by step (hint.go:124-164); `cap` = `Conf.SplitCap` = `len(h.items)` -/

/-- `idx, found := h.index[it.Keyhash]` (the `idx` part; 0 when not found, as Go's zero value) -/
def Buf.idx0 (b : Buf) (it : Item) : Nat := (AMap.get b.index it.khash).getD 0

/-- `h.items[idx].Key` -/
def Buf.key0 (b : Buf) (it : Item) : Key := (b.items.getD (b.idx0 it) default).key

/-- `iscollision`: `found && it.Key != h.items[idx].Key` (hint.go:131) -/
def Buf.isColl (b : Buf) (it : Item) : Bool :=
  (AMap.get b.index it.khash).isSome && decide (it.key ≠ b.key0 it)

/-- `idx, found` after the collision block (hint.go:131-142): through `collisions[keyhash][key]` if the hash's slot
    holds another key (a hash without a collision entry: not found), else the `index` slot -/
def Buf.slot (b : Buf) (it : Item) : Option Nat :=
  if b.isColl it then
    (match AMap.get b.collisions it.khash with
     | some keys => AMap.get keys it.key
     | none => none)
  else AMap.get b.index it.khash

/-- `h.collisions` after the collision block: a first collision of a hash creates its entry with the key already
    there (hint.go:137-140) — before it is known whether the item will be accepted -/
def Buf.colls1 (b : Buf) (it : Item) : List (Nat × List (Key × Nat)) :=
  if b.isColl it && (AMap.get b.collisions it.khash).isNone then
    AMap.set b.collisions it.khash [(b.key0 it, b.idx0 it)]
  else b.collisions

/-- hint.go:153-162: store the item in slot `idx`, point `index` (and the collision entry) at it, raise `maxoffset`
    to the END of the record -/
def Buf.place (b : Buf) (it : Item) (recSize : Nat) (idx : Nat) (items' : List Item) : Buf :=
  { items := items',
    index := AMap.set b.index it.khash idx,
    collisions :=
      if b.isColl it then
        AMap.set (b.colls1 it) it.khash (AMap.set ((AMap.get (b.colls1 it) it.khash).getD []) it.key idx)
      else b.colls1 it,
    maxoffset := if it.off + recSize > b.maxoffset then it.off + recSize else b.maxoffset }

/-- `HintBuffer.Set`.  Returns the buffer and whether the item was accepted.  Quirks kept: a refused item (new key,
    all `cap` slots used) still raises `maxoffset` to its START offset (hint.go:146-148) and may already have
    created the collision entry of its hash. -/
def Buf.set (cap : Nat) (b : Buf) (it : Item) (recSize : Nat) : Buf × Bool :=
  match b.slot it with
  | none =>
    if b.items.length ≥ cap then
      ({ b with collisions := b.colls1 it, maxoffset := if it.off > b.maxoffset then it.off else b.maxoffset }, false)
    else (b.place it recSize b.items.length (b.items ++ [it]), true)
  | some idx => (b.place it recSize idx (b.items.set idx it), true)

/-! the same thing without the two lookup maps: find the slot by (keyhash, key) — Lemmas/HintIndex proves that
    `Buf.set` computes exactly this (`set_items`) -/

def sameKey (a b : Item) : Bool := a.khash == b.khash && a.key == b.key

/-- slot-level view of `Set`: replace in place, or append if there is room -/
def slotSet (cap : Nat) (items : List Item) (it : Item) : Option (List Item) :=
  match items.findIdx? (sameKey it) with
  | some i => some (items.set i it)
  | none => if items.length ≥ cap then none else some (items ++ [it])

/-- per (keyhash, key) the LAST item of a sequence (in the order of last occurrences) -/
def dedupLast : List Item → List Item
  | [] => []
  | x :: l => if l.any (sameKey x) then dedupLast l else x :: dedupLast l

/-! ### `HintBuffer.Dump` (hint.go:184-211): sort by (keyhash, key), write -/

/-- `byKeyHash.Less` (hint.go:344-355); Go string `<` is bytewise lexicographic -/
def hintLess (a b : Item) : Bool :=
  if a.khash < b.khash then true else if a.khash > b.khash then false else decide (a.key < b.key)

def insertSorted (x : Item) : List Item → List Item
  | [] => [x]
  | y :: ys => if hintLess x y then x :: y :: ys else y :: insertSorted x ys

/-- `sort.Sort(&byKeyHash{…})`: the keys of a buffer are pairwise different in (keyhash, key), so the (unstable) sort
    has exactly one possible result; insertion sort computes it.  The theorems hold for EVERY order of the items. -/
def sortItems (l : List Item) : List Item := l.foldr insertSorted []

/-- a `*.idx.s` file: the items in file order and the `datasize` header field (= the buffer's `maxoffset`) -/
structure SplitFile where
  items    : List Item
  datasize : Nat
deriving Repr, Inhabited, DecidableEq

def Buf.dump (b : Buf) : SplitFile := { items := sortItems b.items, datasize := b.maxoffset }

/-! ### `hintChunk` (hint.go:217-255) and the dumper (hint.go:379-420) -/

/-- the splits of one chunk: `splits[0 : l-1]` (closed: never written again) and `splits[l-1]` (receives `Set`) -/
structure HChunk where
  closed : List Buf := []
  last   : Buf := {}
deriving Repr, Inhabited

/-- what happens to a chunk's hint: an item is set (write path or data scan), or the newest split is closed
    (`trydump`: silence time over / `dumplast`; `forceRotateSplit` for GC) -/
inductive Ev
  | set (it : Item) (recSize : Nat)
  | rotate
deriving Repr

/-- `hintChunk.setItem` (hint.go:244-255): `Set` on the newest split; if refused, `rotate()` and `Set` on the fresh
    split (result ignored: with `cap = 0` the item is dropped) -/
def HChunk.setItem (cap : Nat) (ck : HChunk) (it : Item) (recSize : Nat) : HChunk :=
  let r := ck.last.set cap it recSize
  if r.2 then { ck with last := r.1 }
  else { closed := ck.closed ++ [r.1], last := (({} : Buf).set cap it recSize).1 }

def HChunk.step (cap : Nat) (ck : HChunk) : Ev → HChunk
  | .set it sz => ck.setItem cap it sz
  | .rotate => { closed := ck.closed ++ [ck.last], last := {} }

def HChunk.run (cap : Nat) (evs : List Ev) : HChunk := evs.foldl (HChunk.step cap) {}

/-- after `hintMgr.close` (= `trydump(i, true)` for every chunk): split `j` has its file `<chunk>.<j>.idx.s` iff it
    holds at least one item (`needDump`: `buf.num > 0`) -/
def HChunk.disk (ck : HChunk) : List (Option SplitFile) :=
  (ck.closed ++ [ck.last]).map (fun b => if b.items.isEmpty then none else some b.dump)

/-- the events of a chunk on the write path: one `hintMgr.set` per record appended to the data file -/
def writeEvents (hash : Key → Nat) (recs : FileRecs) : List Ev :=
  recs.map (fun p => Ev.set (itemOfWrite hash p) p.2.size)

/-- the events of `buildHintFromData` -/
def scanEvents (hash : Key → Nat) (recs : FileRecs) : List Ev :=
  recs.map (fun p => Ev.set (itemOfScan hash p) p.2.size)

/-! ### start: which hint files are used, which are rebuilt (hint.go:645-721, bucket.go:89-117, 153-164) -/

/-- `findValidPaths`: the split files numbered 0, 1, 2, … without a gap; every other file of the chunk is deleted.
    `none` = no such file (never written, removed by the operator, or not loadable) -/
def validPrefix : List (Option SplitFile) → List SplitFile
  | some f :: rest => f :: validPrefix rest
  | _ => []

/-- loop of `loadHintsByChunk`: stop at the first file whose `datasize` exceeds the data file ("hint beyond data");
    the running `datasize` is the maximum seen -/
def loadPrefix (dataSize : Nat) : List SplitFile → Nat → List SplitFile × Nat
  | [], d => ([], d)
  | f :: rest, d =>
    if f.datasize > dataSize then ([], d)
    else
      let r := loadPrefix dataSize rest (if f.datasize < d then d else f.datasize)
      (f :: r.1, r.2)

/-- `DataStreamReader.seek(start)` then `Next` until the end, on a well-formed file -/
def scanFrom (start : Nat) (recs : FileRecs) : FileRecs := recs.dropWhile (fun p => p.1 < start)

/-- `checkHintWithData(chunk)` followed by what `open` reads (`splits[:len-1]`, each through its file):
    the kept split files, then — if they do not reach the end of the data file — the files built from the data
    beyond their `datasize` (fed through `setItem`, so split again by capacity; all dumped by `trydump(chunk, true)`).
    `filterMap id`: a split without items has no file; the code would dereference its nil `sp.file` (bucket.go:225) —
    with `cap ≥ 1` no such split exists among `splits[:len-1]` (`scan_closed_nonempty`), with `SplitCap = 0` the
    real start panics there -/
def checkHintWithData (hash : Key → Nat) (cap : Nat) (recs : FileRecs) (dataSize : Nat)
    (disk : List (Option SplitFile)) : List SplitFile :=
  if dataSize = 0 then [] else
  let ld := loadPrefix dataSize (validPrefix disk) 0
  if ld.2 < dataSize then
    ld.1 ++ ((HChunk.run cap (scanEvents hash (scanFrom ld.2 recs))).disk).filterMap id
  else ld.1

/-! ### start: hints → tree (bucket.go:119-151, 208-232) -/

/-- loop body of `updateHtreeFromHint`: `Ver > 0` → `tree.set` at (this chunk, item offset) with the item's version
    and value hash; otherwise `tree.remove` with `ChunkID = -1` = unconditional removal of the hash's slot
    (leaf.go:146).  The slot is addressed by the key hash STORED in the item. -/
def applyItem (chunk : Nat) (t : Tree) (it : Item) : Tree :=
  if it.ver > 0 then AMap.set t it.khash { pos := { chunk := chunk, off := it.off }, ver := it.ver, vhash := it.vhash }
  else AMap.erase t it.khash

/-- `updateHtreeFromHint(chunk, path)`: all items of one split file in file order -/
def applyFile (chunk : Nat) (t : Tree) (items : List Item) : Tree := items.foldl (applyItem chunk) t

/-- `for j, sp := range splits[:numhintfile]` -/
def applySplits (chunk : Nat) (t : Tree) (splits : List (List Item)) : Tree := splits.foldl (applyFile chunk) t

/-- the hint loop of `Bucket.open` from chunk `c` on, starting with tree `t` -/
def hintReplayFrom : Nat → Tree → List (List (List Item)) → Tree
  | _, t, [] => t
  | c, t, f :: fs => hintReplayFrom (c + 1) (applySplits c t f) fs

/-- start without a tree dump: empty tree, every data file's hint split files in order -/
def hintReplay (hints : List (List (List Item))) : Tree := hintReplayFrom 0 [] hints

/-- `Bucket.open` with the tree dump `TreeID = (tc, ts)` loaded as `t`: chunks below `tc` are not touched; chunk `tc`
    is skipped if it has at most `ts + 1` split files, otherwise ALL its split files are applied (from split 0, not
    from `ts + 1`); every later chunk is applied.  No dump: `TreeID = (0, -1)`. -/
def openGo (tc : Nat) (ts : Int) : Nat → Tree → List (List (List Item)) → Tree
  | _, t, [] => t
  | i, t, f :: fs =>
    let startsp : Int := if i = tc then ts + 1 else 0
    let t' := if i < tc then t else if startsp ≥ (f.length : Int) then t else applySplits i t f
    openGo tc ts (i + 1) t' fs

def openTree (tc : Nat) (ts : Int) (t : Tree) (hints : List (List (List Item))) : Tree := openGo tc ts 0 t hints

/-! ### the data log seen file by file -/

def fileLog (c : Nat) (recs : FileRecs) : List (Pos × Rec) :=
  recs.map (fun p => (({ chunk := c, off := p.1 } : Pos), p.2))

def logFrom : Nat → List FileRecs → List (Pos × Rec)
  | _, [] => []
  | c, f :: fs => fileLog c f ++ logFrom (c + 1) fs

/-- all records of files 0, 1, 2, … in (file, offset) order — `Store.Bucket.log` for `b.chunkList` -/
def logOf (files : List FileRecs) : List (Pos × Rec) := logFrom 0 files

/-! ### split files from an arbitrary cut -/

/-- cut a sequence into consecutive segments of the given lengths; what is left is the last segment -/
def cutBy {α : Type} : List Nat → List α → List (List α)
  | [], l => [l]
  | n :: ns, l => l.take n :: cutBy ns (l.drop n)

/-- the split file of a run of consecutive records: last item per key, sorted -/
def splitFile (hash : Key → Nat) (scan : Bool) (seg : FileRecs) : List Item :=
  sortItems (dedupLast (seg.map (mkItem hash scan)))

/-- the split files of a data file whose hint chunk was closed after `cut[0]`, `cut[1]`, … records -/
def hintsOfFile (hash : Key → Nat) (cut : List Nat) (recs : FileRecs) : List (List Item) :=
  (cutBy cut recs).map (splitFile hash false)

/-- the hint of a data file whose split files are all gone: one scan of the whole file (capacity not reached) -/
def rebuiltHints (hash : Key → Nat) (recs : FileRecs) : List (List Item) := [splitFile hash true recs]

/-- the hint files of all data files when, per data file, either the write-path split files exist (closed after
    `cuts[i]` records) or all of them are gone and the file's hint was rebuilt by one scan (`gone[i]`) -/
def chooseHints (hash : Key → Nat) : List FileRecs → List (List Nat) → List Bool → List (List (List Item))
  | [], _, _ => []
  | f :: fs, cuts, gone =>
    (if gone.headD false then rebuiltHints hash f else hintsOfFile hash (cuts.headD []) f)
      :: chooseHints hash fs cuts.tail gone.tail

/-! ### the whole hint part of a start -/

/-- size of a data file = end of its last record (`Store.Bucket.pushRec`: `size := off + r.size`), 0 without records -/
def dataSizeOf (recs : FileRecs) : Nat :=
  match recs.getLast? with
  | some p => p.1 + p.2.size
  | none => 0

/-- per data file: `checkHintWithData` on the split files found on disk -/
def openFiles (hash : Key → Nat) (cap : Nat) : List FileRecs → List (List (Option SplitFile)) → List (List SplitFile)
  | recs :: fs, disk :: ds => checkHintWithData hash cap recs (dataSizeOf recs) disk :: openFiles hash cap fs ds
  | _, _ => []

/-- the item lists `updateHtreeFromHint` reads -/
def openHints (hash : Key → Nat) (cap : Nat) (files : List FileRecs) (disks : List (List (Option SplitFile))) :
    List (List (List Item)) :=
  (openFiles hash cap files disks).map (fun fl => fl.map (·.items))

/-- the split files on disk after the start (kept ones and rebuilt ones, numbered 0, 1, 2, …) -/
def openDisks (hash : Key → Nat) (cap : Nat) (files : List FileRecs) (disks : List (List (Option SplitFile))) :
    List (List (Option SplitFile)) :=
  (openFiles hash cap files disks).map (fun fl => fl.map some)

/-- the tree after a start without tree dump: data files `files`, hint split files `disks` found on disk -/
def restartTree (hash : Key → Nat) (cap : Nat) (files : List FileRecs) (disks : List (List (Option SplitFile))) : Tree :=
  hintReplay (openHints hash cap files disks)

end HintIndex
