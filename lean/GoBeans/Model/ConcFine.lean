/-
  Fine-grained interleaving model of ONE bucket under concurrent clients and flushers (C04).

  `Model/Conc.lean` states the property on an ATOMIC per-key register.  This file models what the code really
  does between two lock operations: every thread is a small program of atomic MICRO-STEPS, one per critical
  section of the Go code, and a scheduler picks any enabled thread's next micro-step.

  Go code modelled (line numbers of /repo/store at the verified revision):
    bucket.go    checkAndSet 349-401, set 403-412, get 414-460, checkAndUpdateVerison 332-347
    data.go      dataStore.AppendRecord 65-98, dataStore.flush 100-144, GetRecordByPos 162-164, GetStreamWriter 200-233
    datachunk.go dataChunk.AppendRecord 46-55, getDiskFileSize 82-87, dataChunk.flush 89-122,
                 GetRecordByOffsetInBuffer 124-150, GetRecordByOffset 152-171
    htree.go     set/setReq 288-302, get/getReq 338-355   (one tree lock per call)

  Locks:  bkt.writeLock (held over the whole checkAndSet), ds.Mutex (`dsLock`: held over the whole
  dataStore.AppendRecord, and twice briefly by dataStore.flush), ds.flushLock (held over one whole flush),
  dataChunk.Mutex and HTree.Mutex (`[dc]`, `[tree]`: only ever held for the duration of one micro-step, so they
  do not appear as state: a micro-step marked [dc]/[tree] IS that critical section).

  Micro-steps (one constructor of `PC` = the next micro-step the thread will take):
    writer (set / delete) = checkAndSet:
        wLock      bkt.writeLock.Lock()
        wGet       bkt.get(ki, memOnly=true) = htree.get [tree]; checkAndUpdateVerison; NOT_FOUND test
                   (a rejected delete is linearised HERE)
        wSlot      ds.Lock(); read ds.newHead and chunks[newHead].writingHead (NOT under [dc]); rotation test:
                   newHead++ (and `go ds.flush(newHead-1, true)`: any thread may start a flush at any time)
        wAppend    dataChunk.AppendRecord [dc]: wbuf = append(wbuf, wrec); writingHead += size; size = writingHead
        wDsUnlock  ds.wbufSize += size; ds.Unlock()
        wTreeSet   htree.set [tree]                      <- LINEARISATION POINT of an accepted write
        wUnlock    deferred bkt.writeLock.Unlock()       <- response
    reader (get) = Bucket.get(ki, memOnly=false):
        rGet       htree.get [tree]                      <- LINEARISATION POINT of a read
        rBuf       GetRecordByOffsetInBuffer [dc]: buffer test, sort.Search, COPY under the lock
        rFile      readRecordAtPath (no lock) — only if the buffer test said "not buffered"
        rRet       return for a key the tree does not hold
    flusher = dataStore.flush(chunk, force):
        fPre       unlocked `if ds.wbufSize == 0 { return }`
        fLock      ds.flushLock.Lock()
        fDs1       [ds] wbufSize == 0 / not-due tests; chunk<0 => chunk = newHead; lastFlushTime
        fOpen      GetStreamWriter: w.offset = current length of the file
        fCheck     w.offset != getDiskFileSize()  => Fatalf   (reads dc.wbuf / dc.size WITHOUT [dc])
        fCount     [dc] n = len(wbuf)
        fFetch     [dc] wrec = wbuf[i]           (or, when i = n: w.wbuf.Flush() and go on to the detach)
        fWrite     w.append(wrec)  — the file write, OUTSIDE every lock except flushLock
        fDetach    [dc] wbuf = wbuf[n:]          (only AFTER all n records are in the file)
        fDs2       [ds] wbufSize -= nflushed
        fUnlock    w.Close(); deferred flushLock.Unlock()

  Units: offsets and sizes are counted in blocks of PADDING = 256 bytes; a record occupies `sz + 1` blocks.
  Values are identified by a number (0 = no live value / the empty body of a delete marker), as in Model/Conc.lean.
  The recorded history (`hist`): an entry is created at the linearisation micro-step (where the harness takes the
  version) and completed — response time and the value ACTUALLY returned — by the thread's last micro-step.
  Core-only, executable.
-/
import GoBeans.Model.Conc

namespace ConcFine
open Conc (AOp Out Ev Reg)

structure Cfg where
  dataFileMax : Nat := 16        -- Conf.DataFileMax (blocks)
  flushBig : Nat := 4096         -- the literal 1<<20 of dataStore.flush (bytes) = 4096 blocks
deriving Repr

structure Pos where              -- store.Position
  chunk : Nat
  off : Nat
deriving DecidableEq, Repr

structure Item where             -- HTreeItem: Ver, Pos (value hash not modelled)
  ver : Int
  pos : Pos
deriving DecidableEq, Repr

/-- a WriteRecord: key, Payload.Ver, the value (by id), `pos.Offset` and `Payload.RecSize`.
    In `Chunk.file` the field `off` is where the record ACTUALLY starts in the file. -/
structure Rec where
  key : Nat
  ver : Int
  val : Nat
  off : Nat
  size : Nat
deriving DecidableEq, Repr

/-- one dataChunk and its data file -/
structure Chunk where
  file : List Rec := []          -- the records in <chunk>.data in file order
  fsize : Nat := 0               -- length of the file (os.Stat / Seek(0, SeekEnd))
  wbuf : List Rec := []          -- dataChunk.wbuf
  writingHead : Nat := 0
  size : Nat := 0
deriving Repr

/-- `Bucket.checkAndUpdateVerison` (bucket.go:332-347) on unbounded integers (no int32 wrap-around) -/
def checkAndUpdateVersion (oldv ver : Int) : Int × Bool :=
  if ver = 0 then (if oldv ≥ 0 then oldv + 1 else -oldv + 1, true)
  else if ver < 0 then (-(oldv.natAbs : Int) - 1, true)
  else if ver.natAbs ≤ oldv.natAbs then (1, false)
  else (ver, true)

/-- the loop of Go's `sort.Search` (fuel = n is ample: the interval halves) -/
def searchAux (f : Nat → Bool) : Nat → Nat → Nat → Nat
  | 0, i, _ => i
  | fuel + 1, i, j =>
    if i < j then
      let h := (i + j) / 2
      if !f h then searchAux f fuel (h + 1) j else searchAux f fuel i h
    else i

/-- `sort.Search(n, f)` -/
def sortSearch (n : Nat) (f : Nat → Bool) : Nat := searchAux f n 0 n

inductive BufRes
  | miss                 -- (nil, nil): not in the buffer, go to the file
  | found (r : Rec)      -- a copy of the buffered record
  | err                  -- "rec should in buffer, but not" / index beyond the buffer
deriving DecidableEq, Repr

def offAt (l : List Rec) (i : Nat) : Nat := match l[i]? with | some r => r.off | none => 0

/-- `dataChunk.GetRecordByOffsetInBuffer` (datachunk.go:124-150), one critical section of the chunk lock -/
def bufLookup (ch : Chunk) (off : Nat) : BufRes :=
  match ch.wbuf with
  | [] => .miss                                                         -- n == 0
  | r0 :: _ =>
    if off < r0.off ∨ off ≥ ch.writingHead then .miss
    else
      let n := ch.wbuf.length
      let idx := sortSearch n (fun i => decide (offAt ch.wbuf i ≥ off))
      if idx ≥ n then .err
      else match ch.wbuf[idx]? with
        | some r => if r.off = off then .found r else .err
        | none => .err

/-- `readRecordAtPath(path, offset)`: the record that starts at that offset of the file (none: EOF / garbage) -/
def fileLookup (ch : Chunk) (off : Nat) : Option Rec := ch.file.find? (fun r => decide (r.off = off))

/-- `dataChunk.GetRecordByOffset` run in ONE go (buffer, else file); the reader thread does it in two micro-steps -/
def lookup (ch : Chunk) (off : Nat) : Option Rec :=
  match bufLookup ch off with
  | .found r => some r
  | .err => none
  | .miss => fileLookup ch off

/-- `dataChunk.getDiskFileSize` (datachunk.go:82-87) -/
def diskFileSize (ch : Chunk) : Nat :=
  match ch.wbuf with
  | r0 :: _ => r0.off
  | [] => ch.size

/-- the arguments of one `checkAndSet`: key, value id (0 for a delete), payload blocks, delete? (Ver = -1 : 0) -/
structure WReq where
  key : Nat
  val : Nat
  sz : Nat
  del : Bool
deriving DecidableEq, Repr

def WReq.aop (q : WReq) : AOp := if q.del then .delete else .write q.val
def WReq.rev (q : WReq) : Int := if q.del then -1 else 0
def WReq.toRec (q : WReq) (ver : Int) (off : Nat) : Rec := { key := q.key, ver := ver, val := q.val, off := off, size := q.sz + 1 }

/-- program counter + locals of a thread -/
inductive PC
  | idle
  | wLock (q : WReq)
  | wGet (q : WReq)
  | wSlot (q : WReq) (ver : Int)
  | wAppend (q : WReq) (ver : Int) (pos : Pos)
  | wDsUnlock (q : WReq) (ver : Int) (pos : Pos)
  | wTreeSet (q : WReq) (ver : Int) (pos : Pos)
  | wUnlock (key : Nat) (out : Out)
  | rGet (key : Nat)
  | rBuf (key : Nat) (it : Item)
  | rFile (key : Nat) (it : Item)
  | rRet (key : Nat)
  | fPre (chunk : Option Nat) (force late : Bool)
  | fLock (chunk : Option Nat) (force late : Bool)
  | fDs1 (chunk : Option Nat) (force late : Bool)
  | fOpen (c : Nat)
  | fCheck (c woff : Nat)
  | fCount (c woff : Nat)
  | fFetch (c woff n i fl : Nat)
  | fWrite (c woff n i fl : Nat) (r : Rec)
  | fDetach (c n fl : Nat)
  | fDs2 (fl : Nat)
  | fUnlock
deriving Repr

structure Thread where
  pc : PC := .idle
  inv : Nat := 0                 -- time of the invocation of the running operation
deriving Repr

/-- one entry of the recorded history -/
structure HEv where
  tid : Nat
  key : Nat
  done : Bool                    -- false: linearised, not yet returned (`ev.resp` not yet meaningful)
  ev : Ev
deriving DecidableEq, Repr

structure State where
  tree : Nat → Option Item := fun _ => none      -- bkt.htree: key ↦ item
  chunks : Nat → Chunk := fun _ => {}            -- ds.chunks
  newHead : Nat := 0                             -- ds.newHead
  wbufSize : Nat := 0                            -- ds.wbufSize
  writeLock : Option Nat := none                 -- owner of bkt.writeLock
  dsLock : Option Nat := none                    -- owner of ds.Mutex
  flushLock : Option Nat := none                 -- owner of ds.flushLock
  thr : Nat → Thread := fun _ => {}
  clock : Nat := 1                               -- number of micro-steps taken + 1
  hist : List HEv := []
  fatal : Bool := false                          -- logger.Fatalf (os.Exit) or a Go panic in the flusher
  readErr : Bool := false                        -- some get returned an error ("bad htree item …", read failure)

def State.goto (s : State) (t : Nat) (pc : PC) : State :=
  { s with thr := fun u => if u = t then { s.thr u with pc := pc } else s.thr u }

def State.setChunk (s : State) (c : Nat) (ch : Chunk) : State :=
  { s with chunks := fun d => if d = c then ch else s.chunks d }

/-- a new history entry of thread `t`, at its linearisation micro-step -/
def State.log (s : State) (t key : Nat) (op : AOp) (out : Out) : State :=
  { s with hist := s.hist ++ [{ tid := t, key := key, done := false,
                                ev := { op := op, inv := (s.thr t).inv, resp := 0, out := out, lin := s.clock } }] }

def complete (t now : Nat) (out : Out) (e : HEv) : HEv :=
  if e.tid = t ∧ e.done = false then { e with done := true, ev := { e.ev with resp := now, out := out } } else e

/-- the response of thread `t`: its open entry gets the response time and the value actually returned -/
def State.respond (s : State) (t : Nat) (out : Out) : State :=
  { s with hist := s.hist.map (complete t s.clock out) }

/-- the register the bucket implements for key `k`: |version| of the tree item and the value of the record the
    item points at, as `GetRecordByOffset` would deliver it now -/
def absReg (s : State) (k : Nat) : Reg :=
  match s.tree k with
  | none => {}
  | some it => { ver := it.ver.natAbs,
                 val := match lookup (s.chunks it.pos.chunk) it.pos.off with | some r => r.val | none => 0 }

/-- `oldv` of checkAndSet: the version of the tree item, 0 for a key the tree does not hold (bucket.go:367-374) -/
def oldVer (s : State) (k : Nat) : Int :=
  match s.tree k with
  | some it => it.ver
  | none => 0

/-- end of `Bucket.get`: key comparison (bucket.go:451).  What the get returns: the value of the record read, with
    the version of the tree item (`payload.Ver = meta.Ver`); the collision / "bad htree item" / read-failure paths
    end in an error (recorded in `readErr`, the history entry gets the dummy `got 0 0`). -/
def readOut (k : Nat) (it : Item) : Option Rec → Out
  | some r => if r.key = k then .got r.val it.ver.natAbs else .got 0 0
  | none => .got 0 0

def readBad (k : Nat) : Option Rec → Bool
  | some r => decide (r.key ≠ k)
  | none => true

def State.readDone (s : State) (t k : Nat) (it : Item) (r : Option Rec) : State :=
  ({ s with readErr := s.readErr || readBad k r }.respond t (readOut k it r)).goto t .idle

/-- the next micro-step of thread `t` (none: not enabled — idle, or the lock it needs is held) -/
def micro (cfg : Cfg) (s : State) (t : Nat) : Option State :=
  match (s.thr t).pc with
  | .idle => none
  -- checkAndSet ------------------------------------------------------------------------------------------------
  | .wLock q =>                                                  -- bucket.go:358
    if s.writeLock = none then some ({ s with writeLock := some t }.goto t (.wGet q)) else none
  | .wGet q =>                                                   -- bucket.go:367-396 (CheckVHash = false)
    let nv := (checkAndUpdateVersion (oldVer s q.key) q.rev).1   -- htree.get [tree]; valid = true for Ver ∈ {0, -1}
    if nv < 0 ∧ (s.tree q.key = none ∨ oldVer s q.key < 0) then  -- NOT_FOUND: payload == nil || oldv < 0
      some ((s.log t q.key q.aop .rej).goto t (.wUnlock q.key .rej))
    else some (s.goto t (.wSlot q nv))
  | .wSlot q ver =>                                              -- data.go:72-84
    if s.dsLock = none then
      let size := q.sz + 1
      let cur := (s.chunks s.newHead).writingHead
      if cur + size > cfg.dataFileMax then
        some ({ s with dsLock := some t, newHead := s.newHead + 1 }.goto t (.wAppend q ver ⟨s.newHead + 1, 0⟩))
      else some ({ s with dsLock := some t }.goto t (.wAppend q ver ⟨s.newHead, cur⟩))
    else none
  | .wAppend q ver pos =>                                        -- data.go:85 → datachunk.go:46-55 [dc]
    let ch := s.chunks s.newHead
    let wh := ch.writingHead + (q.sz + 1)
    some ((s.setChunk s.newHead { ch with wbuf := ch.wbuf ++ [q.toRec ver pos.off], writingHead := wh, size := wh }).goto t
            (.wDsUnlock q ver pos))
  | .wDsUnlock q ver pos =>                                      -- data.go:86-96
    some ({ s with wbufSize := s.wbufSize + (q.sz + 1), dsLock := none }.goto t (.wTreeSet q ver pos))
  | .wTreeSet q ver pos =>                                       -- bucket.go:409 htree.set [tree]; 399 cas.done
    some (({ s with tree := fun k => if k = q.key then some ⟨ver, pos⟩ else s.tree k }.log t q.key q.aop
            (.acc ver.natAbs)).goto t (.wUnlock q.key (.acc ver.natAbs)))
  | .wUnlock _ out =>                                            -- bucket.go:361
    some (({ s with writeLock := none }.respond t out).goto t .idle)
  -- Bucket.get ---------------------------------------------------------------------------------------------------
  | .rGet k =>                                                   -- bucket.go:419 htree.get [tree]
    match s.tree k with
    | none => some ((s.log t k .read (.got 0 0)).goto t (.rRet k))
    | some it => some ((s.log t k .read (.got (absReg s k).val (absReg s k).ver)).goto t (.rBuf k it))
  | .rRet _ => some ((s.respond t (.got 0 0)).goto t .idle)      -- bucket.go:420-422
  | .rBuf k it =>                                                -- datachunk.go:153 [dc]
    match bufLookup (s.chunks it.pos.chunk) it.pos.off with
    | .found r => some (s.readDone t k it (some r))
    | .err => some (s.readDone t k it none)
    | .miss => some (s.goto t (.rFile k it))
  | .rFile k it =>                                               -- datachunk.go:164
    some (s.readDone t k it (fileLookup (s.chunks it.pos.chunk) it.pos.off))
  -- dataStore.flush ----------------------------------------------------------------------------------------------
  | .fPre c force late =>                                        -- data.go:103
    if s.wbufSize = 0 then some (s.goto t .idle) else some (s.goto t (.fLock c force late))
  | .fLock c force late =>                                       -- data.go:106
    if s.flushLock = none then some ({ s with flushLock := some t }.goto t (.fDs1 c force late)) else none
  | .fDs1 c force late =>                                        -- data.go:108-123 [ds]
    if s.dsLock = none then
      if s.wbufSize = 0 then some (s.goto t .fUnlock)
      else if !force ∧ late ∧ s.wbufSize < cfg.flushBig then some (s.goto t .fUnlock)
      else some (s.goto t (.fOpen (match c with | some c => c | none => s.newHead)))
    else none
  | .fOpen c => some (s.goto t (.fCheck c (s.chunks c).fsize))   -- data.go:126 / 200-233
  | .fCheck c woff =>                                            -- data.go:132-136
    if woff ≠ diskFileSize (s.chunks c) then some { s with fatal := true } else some (s.goto t (.fCount c woff))
  | .fCount c woff => some (s.goto t (.fFetch c woff (s.chunks c).wbuf.length 0 0))   -- datachunk.go:90-92 [dc]
  | .fFetch c woff n i fl =>                                     -- datachunk.go:93-96 [dc]; 108-112 when i = n
    if i < n then
      match (s.chunks c).wbuf[i]? with
      | some r => some (s.goto t (.fWrite c woff n i fl r))
      | none => some { s with fatal := true }                    -- index out of range
    else some (s.goto t (.fDetach c n fl))
  | .fWrite c woff n i fl r =>                                   -- datachunk.go:97-102: at the writer's offset
    let ch := s.chunks c
    some ((s.setChunk c { ch with file := ch.file ++ [{ r with off := woff }], fsize := woff + r.size }).goto t
            (.fFetch c (woff + r.size) n (i + 1) (fl + r.size)))
  | .fDetach c n fl =>                                           -- datachunk.go:114-117 [dc]
    let ch := s.chunks c
    some ((s.setChunk c { ch with wbuf := ch.wbuf.drop n }).goto t (.fDs2 fl))
  | .fDs2 fl =>                                                  -- data.go:138-140 [ds]
    if s.dsLock = none then some ({ s with wbufSize := s.wbufSize - fl }.goto t .fUnlock) else none
  | .fUnlock => some ({ s with flushLock := none }.goto t .idle) -- data.go:107,141

/-- what a thread can be asked to do -/
inductive Op
  | write (key val sz : Nat)                        -- set: val ≠ 0 identifies the bytes; the record takes sz+1 blocks
  | delete (key sz : Nat)
  | read (key : Nat)
  | flush (chunk : Option Nat) (force late : Bool)  -- none: `flush(-1, …)`; late: time.Since(lastFlushTime) < interval
deriving Repr

/-- invocation = first step of an operation (only an idle thread can be invoked; `write` needs val ≠ 0) -/
def invoke (s : State) (t : Nat) (op : Op) : Option State :=
  match (s.thr t).pc with
  | .idle =>
    let start := fun (pc : PC) => some { s with thr := fun u => if u = t then { pc := pc, inv := s.clock } else s.thr u }
    match op with
    | .write k v sz => if v = 0 then none else start (.wLock ⟨k, v, sz, false⟩)
    | .delete k sz => start (.wLock ⟨k, 0, sz, true⟩)
    | .read k => start (.rGet k)
    | .flush c force late => start (.fPre c force late)
  | _ => none

inductive Act
  | call (op : Op)
  | go
deriving Repr

def State.tick (s : State) : State := { s with clock := s.clock + 1 }

/-- one scheduler decision: thread `t` is invoked with `op`, or takes its next micro-step -/
def step (cfg : Cfg) (s : State) (t : Nat) (a : Act) : Option State :=
  if s.fatal then none
  else match a with
    | .call op => (invoke s t op).map State.tick
    | .go => (micro cfg s t).map State.tick

/-- an arbitrary schedule; a decision that is not enabled leaves the state as it is -/
def exec (cfg : Cfg) (s : State) : List (Nat × Act) → State
  | [] => s
  | (t, a) :: rest => exec cfg (match step cfg s t a with | some s' => s' | none => s) rest

def init : State := {}

/-- the completed operations on key `k`, in the order of their linearisation points -/
def histOf (s : State) (k : Nat) : List Ev := ((s.hist.filter (fun e => e.key = k)).filter (·.done)).map (·.ev)

/-- all operations on key `k` that have passed their linearisation point; those that have not returned yet are
    given the response time `fut` and the value they are going to return -/
def histAt (s : State) (k fut : Nat) : List Ev :=
  (s.hist.filter (fun e => e.key = k)).map (fun e => if e.done then e.ev else { e.ev with resp := fut })

def quiescent (s : State) : Prop := ∀ e ∈ s.hist, e.done = true

/-! ### observation (for the differential test against the real bucket)

  What the harness can read off the real store when every goroutine is parked at a micro-step boundary:
  per data file: length of the file on disk, len(wbuf), getDiskFileSize(), writingHead, size;
  ds.newHead, ds.wbufSize; per key of interest the tree item (version, chunk, offset);
  per thread the label of the hook point it is parked at (`pcLabel`). -/

structure ChunkObs where
  fileLen : Nat
  bufLen : Nat
  diskSize : Nat
  writingHead : Nat
  size : Nat
deriving DecidableEq, Repr

structure Obs where
  head : Nat
  wbufSize : Nat
  chunks : List ChunkObs                    -- chunks 0 .. head
  items : List (Nat × Option (Int × Nat × Nat))   -- key ↦ (ver, chunk, offset)
  fatal : Bool
  readErr : Bool
deriving DecidableEq, Repr

def Chunk.obs (ch : Chunk) : ChunkObs :=
  { fileLen := ch.fsize, bufLen := ch.wbuf.length, diskSize := diskFileSize ch, writingHead := ch.writingHead, size := ch.size }

def observe (s : State) (keys : List Nat) : Obs :=
  { head := s.newHead, wbufSize := s.wbufSize,
    chunks := (List.range (s.newHead + 1)).map (fun c => (s.chunks c).obs),
    items := keys.map (fun k => (k, (s.tree k).map (fun it => (it.ver, it.pos.chunk, it.pos.off)))),
    fatal := s.fatal, readErr := s.readErr }

/-- name of the hook point a thread is parked at -/
def pcLabel : PC → String
  | .idle => "idle" | .wLock _ => "w.lock" | .wGet _ => "w.get" | .wSlot .. => "w.slot" | .wAppend .. => "w.append"
  | .wDsUnlock .. => "w.dsunlock" | .wTreeSet .. => "w.treeset" | .wUnlock .. => "w.unlock"
  | .rGet _ => "r.get" | .rBuf .. => "r.buf" | .rFile .. => "r.file" | .rRet _ => "r.ret"
  | .fPre .. => "f.pre" | .fLock .. => "f.lock" | .fDs1 .. => "f.ds1" | .fOpen _ => "f.open" | .fCheck .. => "f.check"
  | .fCount .. => "f.count" | .fFetch .. => "f.fetch" | .fWrite .. => "f.write" | .fDetach .. => "f.detach"
  | .fDs2 _ => "f.ds2" | .fUnlock => "f.unlock"

/-- the observations after every scheduler decision (and whether the decision was enabled) -/
def trace (cfg : Cfg) (keys : List Nat) (s : State) : List (Nat × Act) → List (Bool × String × Obs)
  | [] => []
  | (t, a) :: rest =>
    match step cfg s t a with
    | some s' => (true, pcLabel (s'.thr t).pc, observe s' keys) :: trace cfg keys s' rest
    | none => (false, pcLabel (s.thr t).pc, observe s keys) :: trace cfg keys s rest

end ConcFine
