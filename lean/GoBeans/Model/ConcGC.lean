/-
  Fine-grained interleaving model of GARBAGE COLLECTION BESIDE CLIENTS (C05).

  Extends Model/ConcFine.lean (one bucket; writers, readers, flushers as programs of atomic micro-steps, one per
  critical section of the Go code) by ONE GC thread running one pass `GCMgr.gc(bkt, begin, end)`.
  The client threads run `ConcFine.micro` unchanged on the embedded `base` state; the GC thread has its own
  program counter `GPC`.  A scheduler interleaves them arbitrarily (`step`, `exec`).

  Go code modelled (/repo/store at the verified revision):
    gc.go        GCMgr.gc 188-376: choice of the destination 221-237, per-file loop 251-374, per-record:
                 newest-check 286-315 (tree.get [tree] + position compare; collision / hint branches NOT modelled),
                 room test + destination rotation 326-339, AppendRecordGC 340, UpdateHtreePos 351 -> htree.movePos
                 (htree.go 307-327, one [tree] section, conditional on the old position; `blind` = the repoint
                 before /repo commit 1f5e306), after a file: Clear 361 / dropStaleTail 362, deferred endGCWriting 247
    datachunk.go beginGCWriting 189-203, AppendRecordGC 57-80 ([dc] only around offset/writingHead/size; the
                 gc writer's bufio append and Flush are OUTSIDE every lock), Clear 34-44 (no lock), endGCWriting
                 205-221, dropStaleTail 227-243, GetRecordByOffset 152-171 (a GC destination has an empty dc.wbuf:
                 the buffer test misses and the reader goes to the FILE)
    data.go      GetStreamWriter 200-233 (append: offset = end of file; rewrite: offset 0, file NOT truncated),
                 GetStreamReader 195-198

  Locks: GC takes NO bucket-level lock (no writeLock, no ds.Mutex, no flushLock).  It holds dataChunk.Mutex only
  inside AppendRecordGC lines 58-68 and HTree.Mutex inside htree.get / htree.movePos.  Everything else the GC
  thread does (beginGCWriting, the file write, Clear, Remove, Truncate) is unlocked: each such access to shared
  state is a micro-step of its own.

  GC micro-steps (`GPC`):
    gBegin     beginGCWriting(dst, begin)  (dst chosen by `pickDst` at the start of the pass)
    gFile      loop head: CancelFlag test, `src > end` test, skip of an empty chunk
    gOpen      GetStreamReader(src): the records of the file (snapshot; see ABSTRACTIONS)
    gNext      r.Next(); at EOF: Clear (src != dst) or dropStaleTail (src == dst)
    gCheck     htree.get [tree] + `oldPos == treePos`  <- NEWEST-CHECK; then the room test (reads only GC's own data)
    gEndW      endGCWriting of a full destination; gc.Dst++
    gBeginW    beginGCWriting(dst, src) of the next destination (dst == src: REWRITE IN PLACE)
    gHead      AppendRecordGC [dc]: offset = writingHead; writingHead += size; size = max
    gBuf       gcWriter.append: the bytes go into the gc writer's OWN bufio buffer
    gFlush     gcWriter.wbuf.Flush(): the bytes reach the file at the writer's position
    gMove      htree.movePos [tree]                           <- REPOINT
    gClearMem  Clear: wbuf = nil, size = 0, writingHead = 0 (no lock)
    gRemove    Clear: utils.Remove(path)
    gTail      dropStaleTail: os.Truncate(path, writingHead); size = writingHead
    gFileDone  NextGCChunk bookkeeping; gc.Src++
    gFinal     deferred endGCWriting
  Core-only, executable.
-/
import GoBeans.Model.ConcFine

namespace ConcGC
open ConcFine
open Conc (AOp Out Ev Reg)

structure GCfg where
  fine : Cfg := {}
  bodyMax : Nat := 0              -- config.MCConf.BodyMax (blocks), gc.go:226
  blind : Bool := false           -- true: the repoint as it was before commit 1f5e306 (position not compared)
deriving Repr

inductive GPC
  | idle
  | gBegin
  | gFile
  | gOpen
  | gNext
  | gCheck (r : Rec)
  | gEndW (r : Rec) (found : Bool)
  | gBeginW (r : Rec) (found : Bool)
  | gHead (r : Rec) (found : Bool)
  | gBuf (r : Rec) (found : Bool) (off : Nat)
  | gFlush (r : Rec) (found : Bool) (off : Nat)
  | gMove (r : Rec) (off : Nat)
  | gClearMem
  | gRemove
  | gTail
  | gFileDone
  | gFinal
  | done
deriving DecidableEq, Repr

/-- the GC thread: program counter, `GCState` (gc.go:16-35) and the locals of `GCMgr.gc` -/
structure GC where
  pc : GPC := .idle
  started : Bool := false         -- a pass has been started (the model runs ONE pass)
  gbegin : Nat := 0               -- gc.Begin
  gend : Nat := 0                 -- gc.End
  src : Nat := 0                  -- gc.Src
  dst : Nat := 0                  -- gc.Dst
  todo : List Rec := []           -- what the DataStreamReader of the source file has not yielded yet
  wopen : Bool := false           -- dstchunk.gcWriter != nil
  wpos : Nat := 0                 -- file position of the gc writer's descriptor
  gbuf : List Rec := []           -- the gc writer's bufio buffer (bytes appended, not yet flushed)
  rewr : Bool := false            -- dstchunk.rewriting
  cancel : Bool := false          -- gc.CancelFlag
  moved : Nat := 0                -- number of successful repoints (statistics only)
deriving Repr

structure State where
  base : ConcFine.State := {}
  gc : GC := {}
  fails : Nat := 0                -- number of gets that ended in an error (file gone, garbage, another key's record)
  hazCold : Bool := false         -- monitor: a flush touches a file of the GC range / GC started on unflushed files
  hazInplace : Bool := false      -- monitor: a destination is rewritten in place (dst == src)
  hazReuse : Bool := false        -- monitor: a destination is a file the pass has emptied before (begin <= dst < src)

/-- gc.go:221-237: the destination of the pass -/
def pickDstAux (cfg : GCfg) (chunks : Nat → Chunk) (start : Nat) : Nat → Nat
  | 0 => start
  | i + 1 =>                                              -- Go's loop variable is `i`
    let sz := (chunks i).size
    if sz > 0 then
      if sz + cfg.bodyMax < cfg.fine.dataFileMax then i     -- int64(sz) < DataFileMax - BodyMax
      else if i + 1 < start then i + 1 else start           -- `if i < startChunkID-1 { gc.Dst = i + 1 }`
    else pickDstAux cfg chunks start i

def pickDst (cfg : GCfg) (chunks : Nat → Chunk) (start : Nat) : Nat := pickDstAux cfg chunks start start

def overlaps (x : Rec) (p sz : Nat) : Bool := decide (p < x.off + x.size ∧ x.off < p + sz)

/-- a write of record `r` at file position `p`: whatever it overlaps is no longer a decodable record -/
def writeAt (ch : Chunk) (p : Nat) (r : Rec) : Chunk :=
  { ch with file := ch.file.filter (fun x => !overlaps x p r.size) ++ [{ r with off := p }],
            fsize := max ch.fsize (p + r.size) }

/-- os.Truncate(path, n) -/
def truncateTo (ch : Chunk) (n : Nat) : Chunk :=
  { ch with file := ch.file.filter (fun x => decide (x.off + x.size ≤ n)), fsize := min ch.fsize n }

def State.gcGoto (s : State) (pc : GPC) : State := { s with gc := { s.gc with pc := pc } }

def State.setChunk (s : State) (c : Nat) (ch : Chunk) : State := { s with base := s.base.setChunk c ch }

/-- `dataChunk.beginGCWriting(srcChunk)` on chunk `gc.dst` (datachunk.go:189-203) + GetStreamWriter (data.go:200) -/
def beginW (s : State) (srcChunk : Nat) (pc : GPC) : State :=
  let ch := s.base.chunks s.gc.dst
  if s.gc.dst = srcChunk then
    { (s.setChunk s.gc.dst { ch with writingHead := 0 }) with
        gc := { s.gc with pc := pc, rewr := true, wopen := true, wpos := 0 }, hazInplace := true }
  else
    { (s.setChunk s.gc.dst { ch with writingHead := ch.size }) with
        gc := { s.gc with pc := pc, wopen := true, wpos := if s.gc.rewr then 0 else ch.fsize },
        hazReuse := s.hazReuse || decide (s.gc.gbegin ≤ s.gc.dst) }

/-- `dataChunk.endGCWriting` on chunk `gc.dst` (datachunk.go:205-221) -/
def endW (s : State) : State :=
  let ch := s.base.chunks s.gc.dst
  let s1 := if s.gc.rewr ∧ ch.size = 0 then s.setChunk s.gc.dst { ch with file := [], fsize := 0 } else s
  { s1 with gc := { s1.gc with wopen := false, rewr := false } }

/-- gc.go:326: is there room for the record in the current destination? -/
def afterCheck (cfg : GCfg) (s : State) (r : Rec) (found : Bool) : State :=
  if r.size + (s.base.chunks s.gc.dst).writingHead > cfg.fine.dataFileMax then s.gcGoto (.gEndW r found)
  else s.gcGoto (.gHead r found)

/-- the next micro-step of the GC thread (none: idle / finished) -/
def gmicro (cfg : GCfg) (s : State) : Option State :=
  let g := s.gc
  match g.pc with
  | .idle => none
  | .done => none
  | .gBegin => some (beginW s g.gbegin .gFile)                       -- gc.go:239-240
  | .gFile =>                                                        -- gc.go:251-259
    if g.cancel then some (s.gcGoto .gFinal)
    else if g.src > g.gend then some (s.gcGoto .gFinal)
    else if (s.base.chunks g.src).size = 0 then some { s with gc := { g with src := g.src + 1 } }
    else some (s.gcGoto .gOpen)
  | .gOpen => some { s with gc := { g with pc := .gNext, todo := (s.base.chunks g.src).file } }   -- gc.go:265
  | .gNext =>                                                        -- gc.go:273-281, 360-362
    match g.todo with
    | [] => if g.src ≠ g.dst then some (s.gcGoto .gClearMem) else some (s.gcGoto .gTail)
    | r :: rest => some { s with gc := { g with pc := .gCheck r, todo := rest } }
  | .gCheck r =>                                                     -- gc.go:286-315 [tree], 321-326
    match s.base.tree r.key with
    | some it =>
      if it.pos = ⟨g.src, r.off⟩ then some (afterCheck cfg s r true) else some (s.gcGoto .gNext)
    | none =>
      if g.gbegin > 0 ∧ r.ver < 0 then some (afterCheck cfg s r false) else some (s.gcGoto .gNext)
  | .gEndW r found =>                                                -- gc.go:327-331
    let s1 := endW s
    some { s1 with gc := { s1.gc with pc := .gBeginW r found, dst := g.dst + 1 } }
  | .gBeginW r found => some (beginW s g.src (.gHead r found))       -- gc.go:333-334
  | .gHead r found =>                                                -- datachunk.go:58-68 [dc]
    let ch := s.base.chunks g.dst
    let wh := ch.writingHead + r.size
    some ((s.setChunk g.dst { ch with writingHead := wh, size := if wh ≥ ch.size then wh else ch.size }).gcGoto
            (.gBuf r found ch.writingHead))
  | .gBuf r found off =>                                             -- datachunk.go:70 (bufio, no lock)
    some { s with gc := { g with pc := .gFlush r found off, gbuf := g.gbuf ++ [{ r with off := off }] } }
  | .gFlush r found off =>                                           -- datachunk.go:75: the file write
    let ch := s.base.chunks g.dst
    some { (s.setChunk g.dst (writeAt ch g.wpos r)) with
            gc := { g with pc := if found then .gMove r off else .gNext, gbuf := [], wpos := g.wpos + r.size } }
  | .gMove r off =>                                                  -- gc.go:351 -> htree.go:307-327 [tree]
    match s.base.tree r.key with
    | some it =>
      if cfg.blind ∨ it.pos = ⟨g.src, r.off⟩ then
        some { s with base := { s.base with tree := fun k => if k = r.key then some ⟨it.ver, ⟨g.dst, off⟩⟩ else s.base.tree k },
                      gc := { g with pc := .gNext, moved := g.moved + 1 } }
      else some (s.gcGoto .gNext)
    | none => some (s.gcGoto .gNext)
  | .gClearMem =>                                                    -- datachunk.go:35-40 (no lock)
    let ch := s.base.chunks g.src
    some ((s.setChunk g.src { ch with wbuf := [], size := 0, writingHead := 0 }).gcGoto .gRemove)
  | .gRemove =>                                                      -- datachunk.go:43
    let ch := s.base.chunks g.src
    some ((s.setChunk g.src { ch with file := [], fsize := 0 }).gcGoto .gFileDone)
  | .gTail =>                                                        -- datachunk.go:227-243
    let ch := s.base.chunks g.dst
    if !g.rewr ∨ ch.writingHead ≥ ch.size then some (s.gcGoto .gFileDone)
    else some ((s.setChunk g.dst { truncateTo ch ch.writingHead with size := ch.writingHead }).gcGoto .gFileDone)
  | .gFileDone => some { s with gc := { g with pc := .gFile, src := g.src + 1 } }   -- gc.go:367-374, 251
  | .gFinal => some ((endW s).gcGoto .done)                          -- gc.go:246-249

/-! ### the client threads beside GC -/

/-- chunk `c` belongs to the range the running (or finished) pass works on -/
def cold (s : State) (c : Nat) : Bool := s.gc.started && decide (c ≤ s.gc.gend)

/-- the chunk a flusher thread is working on -/
def flushTarget : PC → Option Nat
  | .fOpen c | .fCheck c _ | .fCount c _ | .fFetch c _ _ _ _ | .fWrite c _ _ _ _ _ | .fDetach c _ _ => some c
  | _ => none

/-- a get that ends in an error (bucket.go:443-479: read failure, "bad htree item"): the operation is NOT an event
    of the recorded history (errors are not values); it is counted in `fails` -/
def readFail (s : State) (t : Nat) : State :=
  { s with base := { s.base with hist := s.base.hist.filter (fun e => !(decide (e.tid = t) && !e.done)),
                                 thr := fun u => if u = t then { s.base.thr t with pc := .idle } else s.base.thr u },
           fails := s.fails + 1 }

def liftBase (s : State) (b : Option ConcFine.State) : Option State := b.map (fun b => { s with base := b })

/-- the next micro-step of client thread `t`: `ConcFine.micro` on the embedded state; a failing read is taken out
    of the history; a flusher that picks a file of the GC range fires the monitor -/
def cmicro (cfg : GCfg) (s : State) (t : Nat) : Option State :=
  match (s.base.thr t).pc with
  | .rBuf k it =>
    match bufLookup (s.base.chunks it.pos.chunk) it.pos.off with
    | .found r => if r.key = k then liftBase s (micro cfg.fine s.base t) else some (readFail s t)
    | .err => some (readFail s t)
    | .miss => liftBase s (micro cfg.fine s.base t)
  | .rFile k it =>
    match fileLookup (s.base.chunks it.pos.chunk) it.pos.off with
    | some r => if r.key = k then liftBase s (micro cfg.fine s.base t) else some (readFail s t)
    | none => some (readFail s t)
  | .fDs1 .. =>
    match micro cfg.fine s.base t with
    | some b =>
      let hz := match flushTarget (b.thr t).pc with | some c => cold s c | none => false
      some { s with base := b, hazCold := s.hazCold || hz }
    | none => none
  | _ => liftBase s (micro cfg.fine s.base t)

/-- start of the pass `gc(bkt, begin, end)`: accepted ranges satisfy begin ≤ end < newHead (gcCheckRange, gc.go:175).
    The monitor fires if a file of the range still has buffered records or is being flushed right now. -/
def gcStart (cfg : GCfg) (s : State) (b e : Nat) : Option State :=
  if s.gc.started ∨ ¬ (b ≤ e ∧ e < s.base.newHead) then none
  else
    let d := pickDst cfg s.base.chunks b
    let hz1 := (List.range (e + 1)).any (fun c => !(s.base.chunks c).wbuf.isEmpty)
    let hz2 := match s.base.flushLock with
      | some u => (match flushTarget (s.base.thr u).pc with | some c => decide (c ≤ e) | none => false)
      | none => false
    some { s with gc := { pc := .gBegin, started := true, gbegin := b, gend := e, src := b, dst := d },
                  hazCold := s.hazCold || hz1 || hz2 }

inductive Act
  | call (op : Op)                -- a client thread is invoked
  | go                            -- a client thread takes its next micro-step
  | gcStart (b e : Nat)           -- the GC pass is started (thread number ignored)
  | gcGo                          -- the GC thread takes its next micro-step
  | gcCancel                      -- gc.CancelFlag = true
deriving Repr

def State.tick (s : State) : State := { s with base := s.base.tick }

def step (cfg : GCfg) (s : State) (t : Nat) (a : Act) : Option State :=
  if s.base.fatal then none
  else match a with
    | .call op => (liftBase s (invoke s.base t op)).map State.tick
    | .go => (cmicro cfg s t).map State.tick
    | .gcStart b e => (gcStart cfg s b e).map State.tick
    | .gcGo => (gmicro cfg s).map State.tick
    | .gcCancel => some ({ s with gc := { s.gc with cancel := true } }.tick)

def exec (cfg : GCfg) (s : State) : List (Nat × Act) → State
  | [] => s
  | (t, a) :: rest => exec cfg (match step cfg s t a with | some s' => s' | none => s) rest

def init : State := {}

/-- neither monitor has fired -/
def noHaz (s : State) : Prop := s.hazCold = false ∧ s.hazInplace = false ∧ s.hazReuse = false

/-- the GC thread stands at a file boundary (or has not started / has finished) -/
def atBoundary (s : State) : Bool :=
  match s.gc.pc with | .idle | .gFile | .gFinal | .done => true | _ => false

/-! ### observation (for the differential test against the real bucket)

  What the harness can read off the real store when every goroutine (clients, flushers, the GC goroutine) is parked
  at a micro-step boundary: `ConcFine.Obs` (per data file: file length, len(wbuf), getDiskFileSize(), writingHead,
  size; newHead, wbufSize; per key the tree item) for the files 0..newHead, plus the GC thread's gc.Src, gc.Dst, the
  label of the hook it is parked at, whether gcWriter is open, the number of bytes in its bufio buffer
  (`gcWriter.wbuf.Buffered()` in blocks of 256), `rewriting`, the number of failed gets so far. -/

structure GObs where
  base : Obs
  gpc : String
  src : Nat
  dst : Nat
  wopen : Bool
  wpos : Nat
  buffered : Nat
  rewr : Bool
  fails : Nat
  hazCold : Bool
  hazInplace : Bool
  hazReuse : Bool
deriving DecidableEq, Repr

def gpcLabel : GPC → String
  | .idle => "gc.idle" | .gBegin => "gc.begin" | .gFile => "gc.file" | .gOpen => "gc.open" | .gNext => "gc.next"
  | .gCheck _ => "gc.check" | .gEndW .. => "gc.endw" | .gBeginW .. => "gc.beginw" | .gHead .. => "gc.head"
  | .gBuf .. => "gc.buf" | .gFlush .. => "gc.flush" | .gMove .. => "gc.move" | .gClearMem => "gc.clearmem"
  | .gRemove => "gc.remove" | .gTail => "gc.tail" | .gFileDone => "gc.filedone" | .gFinal => "gc.final" | .done => "gc.done"

def observe (s : State) (keys : List Nat) : GObs :=
  { base := ConcFine.observe s.base keys, gpc := gpcLabel s.gc.pc, src := s.gc.src, dst := s.gc.dst, wopen := s.gc.wopen,
    wpos := s.gc.wpos, buffered := (s.gc.gbuf.map (·.size)).sum, rewr := s.gc.rewr, fails := s.fails,
    hazCold := s.hazCold, hazInplace := s.hazInplace, hazReuse := s.hazReuse }

/-- the observations after every scheduler decision (and whether the decision was enabled) -/
def trace (cfg : GCfg) (keys : List Nat) (s : State) : List (Nat × Act) → List (Bool × String × GObs)
  | [] => []
  | (t, a) :: rest =>
    match step cfg s t a with
    | some s' => (true, pcLabel (s'.base.thr t).pc, observe s' keys) :: trace cfg keys s' rest
    | none => (false, pcLabel (s.base.thr t).pc, observe s keys) :: trace cfg keys s rest

end ConcGC
