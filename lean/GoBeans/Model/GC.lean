/-
  GC — hand-written model of store/gc.go (`gcCheckRange`, `GCMgr.gc`) on the record-level bucket of
  Model/Store.lean, for a quiescent bucket (every file of the range flushed, no concurrent client):
  range resolution, destination choice, per-record newest test (tree position equality; a tombstone
  the tree does not know is kept unless the range starts at file 0), relocation in scan order,
  destination switch, in-place rewrite with truncation, source clear, `nextGC`.
  Non-colliding keys (collision-table consultation is C13).  Core-only.
-/
import GoBeans.Model.Store

namespace Store
open Spec (Key)

structure GcArgs where
  start : Int
  stop  : Int
  noGCDays : Int
  now : Int                 -- time.Now().Unix() at the request
deriving Repr

/-- `getDiskFileSize() > 0`: some record of the file is on disk -/
def Chunk.hasDisk (c : Chunk) : Bool := c.flushed > 0 && c.size > 0

def Chunk.firstTs (c : Chunk) : Option Nat := match c.recs with | (_, r) :: _ => some r.wts | [] => none

/-- first non-empty file at or after `s`, below the head -/
def gcSkipEmpty (b : Bucket) : Nat → Nat → Nat
  | 0, s => s
  | f + 1, s => if s < b.head ∧ (b.chunks s).size = 0 then gcSkipEmpty b f (s + 1) else s

/-- `gcCheckStart` -/
def gcCheckStart (b : Bucket) (startArg : Int) : Except String Nat :=
  if startArg > (b.head : Int) then .error "startChunkID > newHead" else
  let s0 : Nat := if startArg < 0 then b.nextGC else startArg.toNat
  .ok (gcSkipEmpty b (b.head + 1) s0)

/-- `for end = next-1; end >= start; end--`: the first non-empty file going down (start-1 if none) -/
def gcBack (b : Bucket) (start : Nat) : Nat → Int → Int
  | 0, e => e
  | f + 1, e => if e ≥ (start : Int) ∧ (b.chunks e.toNat).size = 0 then gcBack b start f (e - 1) else e

/-- `for next := end+1; next >= start+1; next--`: the first file (going down) that has data on disk decides
    by the age of its first record -/
def gcScan (b : Bucket) (start : Nat) (now days : Int) : Nat → Int → Except String Int
  | 0, _ => .error "no file to gc"
  | f + 1, next =>
    if next < (start : Int) + 1 then .error "no file to gc" else
    let c := b.chunks next.toNat
    if !c.hasDisk then gcScan b start now days f (next - 1) else
    match c.firstTs with
    | none => .error "first record unreadable"
    | some ts =>
      if now - (ts : Int) > days * 86400 then .ok (gcBack b start (b.head + 2) (next - 1))
      else gcScan b start now days f (next - 1)

/-- `gcCheckEnd` -/
def gcCheckEnd (cfg : Cfg) (b : Bucket) (start : Nat) (g : GcArgs) : Except String Int :=
  let e0 : Int := if g.stop < 0 ∨ g.stop ≥ (b.head : Int) - 1 then (b.head : Int) - 1 else g.stop
  let days : Int := if g.noGCDays < 0 then cfg.noGCDays else g.noGCDays
  gcScan b start g.now days (b.head + 2) (e0 + 1)

/-- `gcCheckRange`: the resolved range or the refusal -/
def gcCheckRange (cfg : Cfg) (b : Bucket) (g : GcArgs) : Except String (Nat × Nat) :=
  match gcCheckStart b g.start with
  | .error e => .error e
  | .ok s =>
    match gcCheckEnd cfg b s g with
    | .error e => .error e
    | .ok e => if e < (s : Int) then .error "end < start, nothing to gc" else .ok (s, e.toNat)

/-- destination of the first relocated record: the nearest earlier non-empty file if it is not "full",
    else the file after it (if that is not the previous one), else the first file of the range -/
def gcDst (cfg : Cfg) (b : Bucket) (start : Nat) : Nat :=
  let rec go (fuel : Nat) (i : Nat) : Nat :=
    match fuel with
    | 0 => start
    | f + 1 =>
      let sz := (b.chunks i).size
      if sz > 0 then
        if (sz : Int) < (cfg.dataFileMax : Int) - (cfg.bodyMax : Int) then i
        else if i + 1 < start then i + 1 else start
      else if i = 0 then start else go f (i - 1)
  if start = 0 then 0 else go start (start - 1)

structure GcStats where
  numBefore : Nat := 0
  numReleased : Nat := 0
  sizeBefore : Nat := 0
  sizeReleased : Nat := 0
deriving Repr, DecidableEq

/-- state of a pass: the bucket, the destination file and its write head, whether the destination is being
    rewritten in place (then `out` is its new content so far and the old content is still in `chunks dst`
    as the stale tail), statistics -/
structure GcSt where
  b : Bucket
  dst : Nat
  wh : Nat
  rewriting : Bool
  out : List (Nat × Rec)
  stats : GcStats := {}

/-- `endGCWriting`: an in-place destination keeps exactly what was written (truncate); an append-mode
    destination already holds old ++ new -/
def GcSt.endWriting (s : GcSt) : Bucket :=
  let c := s.b.chunks s.dst
  if s.rewriting then
    s.b.setChunk s.dst { c with recs := s.out, flushed := s.out.length, size := s.wh, created := c.created && s.wh > 0 }
  else
    s.b.setChunk s.dst { c with recs := c.recs ++ s.out, flushed := c.recs.length + s.out.length, size := max c.size s.wh }

/-- `beginGCWriting(dst, src)` -/
def gcBegin (b : Bucket) (dst src : Nat) (stats : GcStats) : GcSt :=
  if dst = src then { b := b, dst := dst, wh := 0, rewriting := true, out := [], stats := stats }
  else
    -- GetStreamWriter creates the destination file if it does not exist; it stays even if nothing is appended
    let b := b.setChunk dst { b.chunks dst with created := true }
    { b := b, dst := dst, wh := (b.chunks dst).size, rewriting := false, out := [], stats := stats }

/-- one record of the source file -/
def gcRecord (hash : Key → Nat) (cfg : Cfg) (begin : Nat) (src : Nat) (s : GcSt) (off : Nat) (r : Rec) : GcSt :=
  let item := AMap.get s.b.tree (hash r.key)
  let newest : Bool := match item with
    | some it => it.pos == { chunk := src, off := off }
    | none => decide (begin > 0) && decide (r.ver < 0)
  let stats := { s.stats with numBefore := s.stats.numBefore + 1, sizeBefore := s.stats.sizeBefore + r.size,
                              numReleased := s.stats.numReleased + (if newest then 0 else 1),
                              sizeReleased := s.stats.sizeReleased + (if newest then 0 else r.size) }
  if !newest then { s with stats := stats } else
  -- destination full: finish it, continue in the next file (in place if that is the source)
  let s := if r.size + s.wh > cfg.dataFileMax then gcBegin s.endWriting (s.dst + 1) src stats else { s with stats := stats }
  let newPos : Pos := { chunk := s.dst, off := s.wh }
  let tree := match item with
    | some it => AMap.set s.b.tree (hash r.key) { it with pos := newPos }
    | none => s.b.tree
  { s with b := { s.b with tree := tree }, out := s.out ++ [(s.wh, r)], wh := s.wh + r.size }

/-- one source file: relocate, then clear it unless it is the destination -/
def gcFile (hash : Key → Nat) (cfg : Cfg) (begin : Nat) (s : GcSt) (src : Nat) : GcSt :=
  let c := s.b.chunks src
  if c.size = 0 then s else
  let s := c.recs.foldl (fun s (p : Nat × Rec) => gcRecord hash cfg begin src s p.1 p.2) s
  let b := if src ≠ s.dst then s.b.setChunk src {} else s.b
  { s with b := { b with nextGC := max b.nextGC (src + 1) } }

/-- `GCMgr.gc(bkt, begin, end, merge)` on a quiescent bucket -/
def gcRun (hash : Key → Nat) (cfg : Cfg) (b : Bucket) (begin stop : Nat) : Bucket × GcStats :=
  let dst := gcDst cfg b begin
  let s0 := gcBegin b dst begin {}
  let s := (List.range (stop + 1 - begin)).foldl (fun s i => gcFile hash cfg begin s (begin + i)) s0
  (s.endWriting, s.stats)

end Store
