/-
  QuickLZ (C10) — hand-written executable model of the GO port /repo/quicklz/quicklz.go and of the Go-side checks of
  /repo/quicklz/cquicklz.go, statement by statement.  Core-only (linked into the driver).

  What is modelled
    * `headerLen`, `SizeDecompressed`, `SizeCompressed`, `fastRead`, `fastWrite`, `writeHeader`      (quicklz.go:32-78)
    * `Decompress`, levels 1 and 3, every slice index a bounds-checked access                         (quicklz.go:291-431)
    * `DecompressSafe` (recover ⇒ error) and the checks `CDecompressSafe` runs before entering C       (cquicklz.go:62-101)
    * `Compress`, levels 1 and 3                                                                       (quicklz.go:80-289)

  Conventions
    * `[]byte` ↦ `Array UInt8` (`Buf`); a Go index expression `a[i]` ↦ `a[i]?` : `none` IS the Go run-time panic
      "index out of range" (Go checks every index; a negative index panics as well: `rdI`).
    * Go `int` is 64 bit.  Variables that are sums/differences and may be negative (`lastMatchStart`, `lastHashed`,
      `offset2`) are `Int`.  Variables that the code only ever builds from bytes with `|`, `<<`, `>>`, `&`
      (`fetch`, `cwordVal`, `hash`, `matchlen`, `offset`) or only ever increments from a non-negative start (`src`, `dst`)
      are `Nat`; all of them stay below 2^33 (bytes shifted by at most 24, `fastRead` of at most 4 bytes —
      `QlzLemmas.fastRead_lt`), so Go's 64-bit arithmetic never wraps and `Nat` is exact.
    * `hashCounter` of `Decompress` is written (`hashCounter[hash] = 1`) and never read: it is omitted there (its index
      is the same `hash < 4096` as the `hashtable` write next to it, so it cannot panic on its own).
    * the `for { … }` of `Decompress` becomes structural recursion on a fuel argument; `decompress` supplies
      `len(source)` and `QlzLemmas.decompress_terminates` shows that the fuel never runs out.  Every inner `for` has an
      iteration count that is known when the loop starts; it becomes structural recursion on that count.
-/
import GoBeans.GoSem

namespace Qlz

abbrev Buf := Array UInt8

/-! ### constants (quicklz.go:9-30) -/
def HASH_VALUES : Nat := 4096
def MINOFFSET : Nat := 2
def UNCONDITIONAL_MATCHLEN : Nat := 6
def UNCOMPRESSED_END : Nat := 4
def CWORD_LEN : Nat := 4
def DEFAULT_HEADERLEN : Nat := 9
def QLZ_POINTERS_3 : Nat := 16

/-! ### checked accesses -/

/-- `a[i]` for an `int` index that may be negative: negative or ≥ len ⇒ panic -/
@[inline] def rdI (a : Buf) (i : Int) : Option UInt8 := if i < 0 then none else a[i.toNat]?

/-- `a[i] = v` : panic if out of range -/
@[inline] def wr (a : Buf) (i : Nat) (v : UInt8) : Option Buf := if i < a.size then some (a.setIfInBounds i v) else none

/-- `hashtable[i] = v` on `[]int` -/
@[inline] def wrI (a : Array Int) (i : Nat) (v : Int) : Option (Array Int) := if i < a.size then some (a.setIfInBounds i v) else none

/-- `a[i] = v` on `[]int` holding non-negative values -/
@[inline] def wrN (a : Array Nat) (i v : Nat) : Option (Array Nat) := if i < a.size then some (a.setIfInBounds i v) else none

/-! ### header (quicklz.go:32-59) -/

/-- `headerLen` (quicklz.go:32): `source[0]` panics on an empty slice -/
def headerLen (s : Buf) : Option Nat :=
  match s[0]? with
  | none => none
  | some b => if b.toNat &&& 2 = 2 then some 9 else some 3

/-- `fastRead(a, i, numbytes)` (quicklz.go:53): `l |= int(a[i+j]) << (8*j)` for j = 0 .. numbytes-1; the bytes are
    read in increasing order and the first one out of range panics (the result of a panic does not depend on the order) -/
def fastRead (a : Buf) (i : Nat) : Nat → Option Nat
  | 0 => some 0
  | n + 1 =>
    match fastRead a i n with
    | none => none
    | some l =>
      match a[i + n]? with
      | none => none
      | some b => some (l ||| (b.toNat <<< (8 * n)))

/-- `fastRead` with an `int` start that may be negative -/
def fastReadI (a : Buf) (i : Int) (n : Nat) : Option Nat := if i < 0 then none else fastRead a i.toNat n

/-- `SizeDecompressed` (quicklz.go:39) -/
def sizeDecompressed (s : Buf) : Option Nat :=
  match headerLen s with
  | none => none
  | some hl => if hl = 9 then fastRead s 5 4 else fastRead s 2 1

/-- `SizeCompressed` (quicklz.go:46) -/
def sizeCompressed (s : Buf) : Option Nat :=
  match headerLen s with
  | none => none
  | some hl => if hl = 9 then fastRead s 1 4 else fastRead s 1 1

/-- `level := (source[0] >> 2) & 0x3` (quicklz.go:304) -/
def levelOf (s : Buf) : Option Nat := (s[0]?).map fun b => (b.toNat >>> 2) &&& 3

/-- `(source[0] & 1)` : the "compressible" bit (quicklz.go:310) -/
def cbitOf (s : Buf) : Option Nat := (s[0]?).map fun b => b.toNat &&& 1

/-! ### Decompress (quicklz.go:291-431) -/

/-- the mutable variables of the main loop -/
structure St where
  src : Nat
  dst : Nat
  cword : Nat
  dest : Buf
  ht : Array Int          -- hashtable (level 1 only)
  lastHashed : Int
  fetch : Nat

/-- `destination[dst+i] = destination[offset2+i]` for i = `i`, …, `i+n-1` (quicklz.go:373-379): the right-hand side is
    read from the array as it is at that moment (overlapping copies replicate), either index may panic -/
def copyFrom (dst : Nat) (off2 : Int) : Nat → Nat → Buf → Option Buf
  | _, 0, d => some d
  | i, n + 1, d =>
    match rdI d (off2 + i) with
    | none => none
    | some b =>
      match wr d (dst + i) b with
      | none => none
      | some d' => copyFrom dst off2 (i + 1) n d'

/-- `hash = ((fetch >> 12) ^ fetch) & (HASH_VALUES - 1)` -/
@[inline] def hashOf (fetch : Nat) : Nat := ((fetch >>> 12) ^^^ fetch) &&& 4095

/-- level 1, after a match (quicklz.go:384-390), `n` = number of iterations = max(0, dst-matchlen-lastHashed):
      lastHashed++ ; hashtable[hash(fetch)] = lastHashed ; fetch = (fetch>>8 & 0xffff) | destination[lastHashed+3]<<16 -/
def hashUpdMatch (d : Buf) : Nat → Array Int → Int → Nat → Option (Array Int × Int × Nat)
  | 0, ht, lh, fetch => some (ht, lh, fetch)
  | n + 1, ht, lh, fetch =>
    let lh := lh + 1
    match wrI ht (hashOf fetch) lh with
    | none => none
    | some ht' =>
      match rdI d (lh + 3) with
      | none => none
      | some b => hashUpdMatch d n ht' lh (((fetch >>> 8) &&& 0xffff) ||| (b.toNat <<< 16))

/-- level 1, after a literal (quicklz.go:404-410), `n` = max(0, dst-3-lastHashed) iterations:
      lastHashed++ ; fetch2 := fastRead(destination, lastHashed, 3) ; hashtable[hash(fetch2)] = lastHashed -/
def hashUpdLit (d : Buf) : Nat → Array Int → Int → Option (Array Int × Int)
  | 0, ht, lh => some (ht, lh)
  | n + 1, ht, lh =>
    let lh := lh + 1
    match fastReadI d lh 3 with
    | none => none
    | some f2 =>
      match wrI ht (hashOf f2) lh with
      | none => none
      | some ht' => hashUpdLit d n ht' lh

/-- quicklz.go:317-327: a new control word is due -/
def loadCword (s : Buf) (level : Nat) (lms : Int) (st : St) : Option St :=
  if st.cword = 1 then
    match fastRead s st.src 4 with
    | none => none
    | some cw =>
      let src := st.src + 4
      if (st.dst : Int) ≤ lms then
        match fastRead s src (if level = 1 then 3 else 4) with
        | none => none
        | some f => some { st with cword := cw, src := src, fetch := f }
      else some { st with cword := cw, src := src }
  else some st

/-- quicklz.go:335-371: decode one match token from `fetch`: (matchlen, offset2, new src) -/
def decodeMatch (s : Buf) (level : Nat) (st : St) : Option (Nat × Int × Nat) :=
  let fetch := st.fetch
  if level = 1 then
    let hash := (fetch >>> 4) &&& 0xfff
    match st.ht[hash]? with
    | none => none
    | some off2 =>
      if fetch &&& 0xf ≠ 0 then some ((fetch &&& 0xf) + 2, off2, st.src + 2)
      else
        match s[st.src + 2]? with
        | none => none
        | some b => some (b.toNat &&& 0xff, off2, st.src + 3)
  else
    if fetch &&& 3 = 0 then
      some (3, (st.dst : Int) - (((fetch &&& 0xff) >>> 2 : Nat) : Int), st.src + 1)
    else if fetch &&& 2 = 0 then
      some (3, (st.dst : Int) - (((fetch &&& 0xffff) >>> 2 : Nat) : Int), st.src + 2)
    else if fetch &&& 1 = 0 then
      some (((fetch >>> 2) &&& 15) + 3, (st.dst : Int) - (((fetch &&& 0xffff) >>> 6 : Nat) : Int), st.src + 2)
    else if fetch &&& 127 ≠ 3 then
      some (((fetch >>> 2) &&& 0x1f) + 2, (st.dst : Int) - (((fetch >>> 7) &&& 0x1ffff : Nat) : Int), st.src + 3)
    else
      some (((fetch >>> 7) &&& 255) + 3, (st.dst : Int) - ((fetch >>> 15 : Nat) : Int), st.src + 4)

/-- quicklz.go:329-395: the control bit is 1 — a match -/
def matchStep (s : Buf) (level : Nat) (st : St) : Option St :=
  let cword := st.cword >>> 1
  match decodeMatch s level st with
  | none => none
  | some (matchlen, off2, src) =>
    -- three unconditional byte copies, then the loop for i = 3 .. matchlen-1
    match copyFrom st.dst off2 0 3 st.dest with
    | none => none
    | some d3 =>
      match copyFrom st.dst off2 3 (matchlen - 3) d3 with
      | none => none
      | some d =>
        let dst := st.dst + matchlen
        if level = 1 then
          match fastReadI d (st.lastHashed + 1) 3 with
          | none => none
          | some f0 =>
            -- `for lastHashed < dst-matchlen` : dst-matchlen is the old dst
            match hashUpdMatch d (((st.dst : Int) - st.lastHashed).toNat) st.ht st.lastHashed f0 with
            | none => none
            | some (ht, _, _) =>
              match fastRead s src 3 with
              | none => none
              | some f => some { src := src, dst := dst, cword := cword, dest := d, ht := ht, lastHashed := (dst : Int) - 1, fetch := f }
        else
          match fastRead s src 4 with
          | none => none
          | some f => some { src := src, dst := dst, cword := cword, dest := d, ht := st.ht, lastHashed := (dst : Int) - 1, fetch := f }

/-- quicklz.go:397-414: the control bit is 0 and `dst <= lastMatchStart` — one literal -/
def litStep (s : Buf) (level : Nat) (st : St) : Option St :=
  match s[st.src]? with
  | none => none
  | some b =>
    match wr st.dest st.dst b with
    | none => none
    | some d =>
      let dst := st.dst + 1
      let src := st.src + 1
      let cword := st.cword >>> 1
      if level = 1 then
        match hashUpdLit d (((dst : Int) - 3 - st.lastHashed).toNat) st.ht st.lastHashed with
        | none => none
        | some (ht, lh) =>
          match s[src + 2]? with
          | none => none
          | some b2 =>
            some { src := src, dst := dst, cword := cword, dest := d, ht := ht, lastHashed := lh,
                   fetch := ((st.fetch >>> 8) &&& 0xffff) ||| (b2.toNat <<< 16) }
      else
        match s[src + 2]? with
        | none => none
        | some b2 =>
          match s[src + 3]? with
          | none => none
          | some b3 =>
            some { src := src, dst := dst, cword := cword, dest := d, ht := st.ht, lastHashed := st.lastHashed,
                   fetch := ((st.fetch >>> 8) &&& 0xffff) ||| (b2.toNat <<< 16) ||| (b3.toNat <<< 24) }

/-- quicklz.go:416-427: the final literals, `n` = max(0, size - dst) iterations of `for dst <= size-1` -/
def tailLoop (s : Buf) : Nat → Nat → Nat → Nat → Buf → Option Buf
  | 0, _, _, _, d => some d
  | n + 1, src, dst, cw, d =>
    let src := if cw = 1 then src + CWORD_LEN else src
    let cw := if cw = 1 then 0x80000000 else cw
    match s[src]? with
    | none => none
    | some b =>
      match wr d dst b with
      | none => none
      | some d' => tailLoop s n (src + 1) (dst + 1) (cw >>> 1) d'

/-- what one pass through the body of `for { … }` does -/
inductive Step
  | done (out : Buf)
  | cont (st : St)

/-- one pass through the body of the main loop (quicklz.go:316-430); `none` = panic -/
def step (s : Buf) (level size : Nat) (st : St) : Option Step :=
  let lms : Int := (size : Int) - 11        -- size - UNCONDITIONAL_MATCHLEN - UNCOMPRESSED_END - 1
  match loadCword s level lms st with
  | none => none
  | some st =>
    if st.cword &&& 1 = 1 then
      (matchStep s level st).map Step.cont
    else if (st.dst : Int) ≤ lms then
      (litStep s level st).map Step.cont
    else
      (tailLoop s (size - st.dst) st.src st.dst st.cword st.dest).map Step.done

/-- result of the Go function: a slice, a run-time panic, or (only for the fuelled loop) fuel exhausted -/
inductive Res
  | ok (out : Buf)
  | panic
  | fuel
deriving DecidableEq

/-- `for { … }` with a bound on the number of passes -/
def loop (s : Buf) (level size : Nat) : Nat → St → Res
  | 0, _ => .fuel
  | n + 1, st =>
    match step s level size st with
    | none => .panic
    | some (.done out) => .ok out
    | some (.cont st') => loop s level size n st'

/-- `copy(d2, source[hl:])` into a fresh `make([]byte, size)` (quicklz.go:311-313) -/
def storedCopy (s : Buf) (hl size : Nat) : Buf :=
  Array.ofFn (n := size) fun i => if h : hl + i.val < s.size then s[hl + i.val] else 0

/-- the variables as they are when the main loop is entered (quicklz.go:292-302) -/
def initSt (hl size : Nat) : St :=
  { src := hl, dst := 0, cword := 1, dest := Array.replicate size 0, ht := Array.replicate 4096 0, lastHashed := -1, fetch := 0 }

/-- `Decompress` with an explicit bound on the passes of the main loop -/
def decompressFuel (fuel : Nat) (s : Buf) : Res :=
  match sizeDecompressed s with              -- size := SizeDecompressed(source)
  | none => .panic
  | some size =>
    match headerLen s with                   -- src := headerLen(source)
    | none => .panic
    | some hl =>
      -- destination := make([]byte, size); hashtable := make([]int, 4096); hashCounter := make([]byte, 4096)
      match levelOf s with
      | none => .panic
      | some level =>
        if level ≠ 1 ∧ level ≠ 3 then .panic         -- panic("Go version only supports level 1 and 3")
        else
          match cbitOf s with
          | none => .panic
          | some cbit =>
            if cbit ≠ 1 then .ok (storedCopy s hl size)
            else loop s level size fuel (initSt hl size)

/-- `Decompress` (quicklz.go:291).  The main loop is given `len(source)` passes, which it never uses up
    (`QlzLemmas.decompress_terminates`, `QlzLemmas.decompressFuel_stable`). -/
def decompress (s : Buf) : Res := decompressFuel s.size s

/-- bytes requested from the allocator by the `make` calls at the top of `Decompress` (quicklz.go:296-298), executed
    BEFORE the level check, the compressible-bit test and any look at the payload:
    `size` (destination) + 4096 ints (hashtable) + 4096 bytes (hashCounter) -/
def allocBeforeChecks (s : Buf) : Option Nat := (sizeDecompressed s).map fun size => size + 4096 * 8 + 4096

/-- all `make` calls of a `Decompress` call that passes the level check: a stored stream allocates `size` a second time (`d2`) -/
def allocTotal (s : Buf) : Option Nat :=
  match sizeDecompressed s, cbitOf s with
  | some size, some cbit => some (size + 4096 * 8 + 4096 + (if cbit ≠ 1 then size else 0))
  | _, _ => none

/-! ### the safe entry points (cquicklz.go:62-101) -/

inductive Err
  | badSizeC      -- "bad sizeCompressed, expect %d, got %d"
  | badSizeD      -- "bad sizeDecompressed, expect %d, got %d"
  | recovered     -- a run-time panic caught by the deferred recover()
  | hang          -- not an outcome of the Go code: the fuelled model ran out of fuel (proved impossible)
deriving DecidableEq, Repr

/-- `DecompressSafe` (cquicklz.go:62): the result slice or the error (dst is nil whenever err is set) -/
def decompressSafe (s : Buf) : Except Err Buf :=
  match sizeCompressed s with
  | none => .error .recovered
  | some sizeC =>
    if s.size ≠ sizeC then .error .badSizeC
    else
      match sizeDecompressed s with
      | none => .error .recovered
      | some sizeD =>
        match decompress s with
        | .panic => .error .recovered
        | .fuel => .error .hang
        | .ok out => if out.size ≠ sizeD then .error .badSizeD else .ok out

/-- what `CDecompressSafe` (cquicklz.go:84) does before control enters C: `none` = rejected in Go (error returned);
    `some sizeD` = `CDecompress(src, sizeD)` is called: `sizeD` bytes are allocated (cmem `Alloc`: Go heap up to
    BodyInC = 4 KiB, C `malloc` above) and `qlz_decompress` runs on `src` WITHOUT any bounds check
    (quicklz.h: QLZ_MEMORY_SAFE is commented out), trusting every back-reference and the announced size. -/
def cSafePrecheck (s : Buf) : Option Nat :=
  match sizeCompressed s with
  | none => none
  | some sizeC => if s.size ≠ sizeC then none else sizeDecompressed s

/-! ### Compress (quicklz.go:61-289) -/

/-- `fastWrite(a, i, value, numbytes)` (quicklz.go:61): `a[i+j] = byte(value >> (8*j))` -/
def fastWrite (a : Buf) (i value : Nat) : Nat → Option Buf
  | 0 => some a
  | n + 1 =>
    match fastWrite a i value n with
    | none => none
    | some a' => wr a' (i + n) ((value >>> (8 * n)) % 256).toUInt8

/-- `writeHeader(dst, level, compressible, sizeCompressed, sizeDecompressed)` (quicklz.go:67).  NOTE the parameter
    names are swapped with respect to what the header means (byte 1.. is the COMPRESSED size, byte 5.. the
    DECOMPRESSED size): the function writes its parameter `sizeDecompressed` at 1 and `sizeCompressed` at 5, and both
    call sites pass (len(source), compressed length) — i.e. the decompressed size as `sizeCompressed`.  The two swaps
    cancel.  Here `p4` is the 4th parameter (named sizeCompressed) and `p5` the 5th (named sizeDecompressed). -/
def writeHeader (d : Buf) (level : Nat) (compressible : Bool) (p4 p5 : Nat) : Option Buf :=
  let cbit := if compressible then 1 else 0
  let b0 := ((2 ||| cbit) ||| ((level <<< 2) % 256)) ||| 64
  match wr d 0 b0.toUInt8 with
  | none => none
  | some d =>
    match fastWrite d 1 p5 4 with
    | none => none
    | some d => fastWrite d 5 p4 4

/-- the state of the compressor's first loop -/
structure CSt where
  src : Nat
  dst : Nat
  cwordVal : Nat            -- uint32
  cwordPtr : Nat
  dest : Buf
  ht : Array Nat            -- hashtable, flattened: [hash * hpointers + k]
  cache : Array Nat         -- cachetable (level 1)
  hc : Array UInt8          -- hashCounter
  fetch : Nat
  lits : Nat

/-- quicklz.go:126-129 / 269-272: write the finished control word, reserve the next -/
def flushCword (dest : Buf) (cwordPtr dst cwordVal : Nat) : Option (Buf × Nat × Nat × Nat) :=
  match fastWrite dest cwordPtr ((cwordVal >>> 1) ||| 0x80000000) 4 with
  | none => none
  | some d => some (d, dst, dst + CWORD_LEN, 0x80000000)        -- (destination, cwordPtr, dst, cwordVal)

/-- quicklz.go:120-123: the "store uncompressed" result -/
def storedStream (s : Buf) (level : Nat) : Option Buf :=
  match writeHeader (Array.replicate (s.size + DEFAULT_HEADERLEN) 0) level false s.size (s.size + DEFAULT_HEADERLEN) with
  | none => none
  | some d2 => some (d2.extract 0 DEFAULT_HEADERLEN ++ s)      -- copy(d2[9:], source): d2 has exactly len(source) bytes after the header

/-- level 1: `for source[o+(src-oldSrc)] == source[src] && (src-oldSrc) < remaining { src++ }` (quicklz.go:160);
    both index expressions are evaluated BEFORE the length test.  Fuel ≥ remaining+1 suffices (remaining ≤ 255). -/
def extend1 (s : Buf) (o oldSrc remaining : Nat) : Nat → Nat → Option Nat
  | 0, src => some src
  | f + 1, src =>
    match s[o + (src - oldSrc)]?, s[src]? with
    | some a, some b => if a = b ∧ src - oldSrc < remaining then extend1 s o oldSrc remaining f (src + 1) else some src
    | _, _ => none

/-- the compressed-size test that makes `Compress` give up (quicklz.go:119) -/
def giveUp (len src dst : Nat) : Bool := decide (src > 3 * (len >>> 2) ∧ dst > src - (src >>> 5))

/-- level 1, one pass through the body of the first loop after the control-word handling (quicklz.go:132-191) -/
def cstep1 (s : Buf) (st : CSt) : Option CSt :=
  let fetch := st.fetch
  let hash := hashOf fetch
  match st.ht[hash]?, st.cache[hash]?, st.hc[hash]? with
  | some o, some cached, some cnt =>
    let cache := cached ^^^ fetch
    let cacheT := st.cache.setIfInBounds hash fetch
    let ht := st.ht.setIfInBounds hash st.src
    let src := st.src
    -- the long condition, evaluated left to right with short-circuit; all the indices are in range when reached
    let rd := fun (i : Nat) => s[i]?.getD 0
    let rep : Bool := src = o + 1 ∧ st.lits ≥ 3 ∧ src > 3 ∧ rd src = rd (src - 3) ∧ rd src = rd (src - 2) ∧ rd src = rd (src - 1)
                      ∧ rd src = rd (src + 1) ∧ rd src = rd (src + 2)
    if cache = 0 ∧ cnt ≠ 0 ∧ ((src : Int) - (o : Int) > 2 ∨ rep) then
      let cwordVal := (st.cwordVal >>> 1) ||| 0x80000000
      match s[o + 3]?, s[src + 3]? with
      | some a, some b =>
        if a ≠ b then
          let f := 1 ||| (hash <<< 4)
          match wr st.dest st.dst (f % 256).toUInt8 with
          | none => none
          | some d =>
            match wr d (st.dst + 1) ((f >>> 8) % 256).toUInt8 with
            | none => none
            | some d =>
              match fastRead s (src + 3) 3 with
              | none => none
              | some f' => some { st with src := src + 3, dst := st.dst + 2, cwordVal := cwordVal, dest := d, ht := ht, cache := cacheT, fetch := f', lits := 0 }
        else
          let oldSrc := src
          let ln : Int := (s.size : Int) - 4 - src + 1 - 1
          let remaining : Nat := if ln ≤ 255 then ln.toNat else 255
          let src4 := src + 4
          let srcE : Option Nat :=
            match s[o + (src4 - oldSrc)]?, s[src4]? with
            | some a, some b =>
              if a = b then
                let src5 := src4 + 1
                match s[o + (src5 - oldSrc)]?, s[src5]? with
                | some a, some b => if a = b then extend1 s o oldSrc remaining 300 (src5 + 1) else some src5
                | _, _ => none
              else some src4
            | _, _ => none
          match srcE with
          | none => none
          | some src' =>
            let matchlen := src' - oldSrc
            let hash4 := hash <<< 4
            let r : Option (Buf × Nat) :=
              if matchlen < 18 then
                let f := hash4 ||| (matchlen - 2)
                match wr st.dest st.dst (f % 256).toUInt8 with
                | none => none
                | some d => (wr d (st.dst + 1) ((f >>> 8) % 256).toUInt8).map fun d => (d, st.dst + 2)
              else
                (fastWrite st.dest st.dst (hash4 ||| (matchlen <<< 16)) 3).map fun d => (d, st.dst + 3)
            match r with
            | none => none
            | some (d, dst) =>
              match fastRead s src' 3 with
              | none => none
              | some f' => some { st with src := src', dst := dst, cwordVal := cwordVal, dest := d, ht := ht, cache := cacheT, fetch := f', lits := 0 }
      | _, _ => none
    else
      match s[src]? with
      | none => none
      | some b =>
        match wr st.dest st.dst b with
        | none => none
        | some d =>
          match s[src + 1 + 2]? with
          | none => none
          | some b2 =>
            some { st with src := src + 1, dst := st.dst + 1, cwordVal := st.cwordVal >>> 1, dest := d, ht := ht, cache := cacheT,
                           hc := st.hc.setIfInBounds hash 1, fetch := ((fetch >>> 8) &&& 0xffff) ||| (b2.toNat <<< 16), lits := st.lits + 1 }
  | _, _, _ => none

/-- level 3: `for source[o+m] == source[src+m] && m < remaining { m++ }` (quicklz.go:214) -/
def extend3 (s : Buf) (o src remaining : Nat) : Nat → Nat → Option Nat
  | 0, m => some m
  | f + 1, m =>
    match s[o + m]?, s[src + m]? with
    | some a, some b => if a = b ∧ m < remaining then extend3 s o src remaining f (m + 1) else some m
    | _, _ => none

/-- level 3: the candidate loop `for k = 0; k < 16 && (int(c) > k || c < 0); k++` (quicklz.go:209-222); `c < 0` is
    never true for a byte.  Returns (matchlen, offset2). -/
def cands3 (s : Buf) (ht : Array Nat) (hash src fetch remaining c : Nat) : Nat → Nat → Nat → Nat → Option (Nat × Nat)
  | 0, _, matchlen, offset2 => some (matchlen, offset2)
  | f + 1, k, matchlen, offset2 =>
    if k < 16 ∧ c > k then
      match ht[hash * 16 + k]? with
      | none => none
      | some o =>
        -- `byte(fetch) == source[o] && byte(fetch>>8) == source[o+1] && byte(fetch>>16) == source[o+2] && o < src-MINOFFSET`
        match s[o]? with
        | none => none
        | some b0 =>
          if (fetch % 256).toUInt8 ≠ b0 then cands3 s ht hash src fetch remaining c f (k + 1) matchlen offset2 else
          match s[o + 1]? with
          | none => none
          | some b1 =>
            if ((fetch >>> 8) % 256).toUInt8 ≠ b1 then cands3 s ht hash src fetch remaining c f (k + 1) matchlen offset2 else
            match s[o + 2]? with
            | none => none
            | some b2 =>
              if ((fetch >>> 16) % 256).toUInt8 ≠ b2 ∨ ¬ ((o : Int) < (src : Int) - 2) then
                cands3 s ht hash src fetch remaining c f (k + 1) matchlen offset2
              else
                match extend3 s o src remaining 300 3 with
                | none => none
                | some m =>
                  if m > matchlen ∨ (m = matchlen ∧ o > offset2) then cands3 s ht hash src fetch remaining c f (k + 1) m o
                  else cands3 s ht hash src fetch remaining c f (k + 1) matchlen offset2
    else some (matchlen, offset2)

/-- level 3: `for u := 1; u < matchlen; u++ { … }` (quicklz.go:231-237): enter the positions covered by the match
    (`n` = matchlen-1 iterations starting at `u`; the `fetch` it leaves behind is overwritten at the top of the next pass) -/
def fill3 (s : Buf) (src : Nat) : Nat → Nat → Array Nat → Array UInt8 → Option (Array Nat × Array UInt8)
  | 0, _, ht, hc => some (ht, hc)
  | n + 1, u, ht, hc =>
    match fastRead s (src + u) 3 with
    | none => none
    | some fetch =>
      let hash := hashOf fetch
      match hc[hash]? with
      | none => none
      | some c =>
        let hc := hc.setIfInBounds hash (c + 1)
        match wrN ht (hash * 16 + (c.toNat &&& 15)) (src + u) with
        | none => none
        | some ht => fill3 s src n (u + 1) ht hc

/-- level 3, one pass through the body of the first loop after the control-word handling (quicklz.go:193-263) -/
def cstep3 (s : Buf) (st : CSt) : Option CSt :=
  let src := st.src
  match fastRead s src 3 with
  | none => none
  | some fetch =>
    let ln : Int := (s.size : Int) - 4 - src + 1 - 1
    let remaining : Nat := if ln ≤ 255 then ln.toNat else 255
    let hash := hashOf fetch
    match st.hc[hash]? with
    | none => none
    | some c =>
      match cands3 s st.ht hash src fetch remaining c.toNat 17 0 0 0 with
      | none => none
      | some (matchlen, offset2) =>
        let o := offset2
        let i := hash * 16 + (c.toNat &&& 15)
        if ¬ i < st.ht.size then none else
        let ht := st.ht.setIfInBounds i src
        let hc := st.hc.setIfInBounds hash (c + 1)
        if matchlen ≥ 3 ∧ (src : Int) - (o : Int) < 131071 then
          let offset := src - o
          match fill3 s src (matchlen - 1) 1 ht hc with
          | none => none
          | some (ht, hc) =>
            let cwordVal := (st.cwordVal >>> 1) ||| 0x80000000
            let r : Option (Buf × Nat) :=
              if matchlen = 3 ∧ offset ≤ 63 then (fastWrite st.dest st.dst (offset <<< 2) 1).map fun d => (d, st.dst + 1)
              else if matchlen = 3 ∧ offset ≤ 16383 then (fastWrite st.dest st.dst ((offset <<< 2) ||| 1) 2).map fun d => (d, st.dst + 2)
              else if matchlen ≤ 18 ∧ offset ≤ 1023 then (fastWrite st.dest st.dst ((((matchlen - 3) <<< 2) ||| (offset <<< 6)) ||| 2) 2).map fun d => (d, st.dst + 2)
              else if matchlen ≤ 33 then (fastWrite st.dest st.dst ((((matchlen - 2) <<< 2) ||| (offset <<< 7)) ||| 3) 3).map fun d => (d, st.dst + 3)
              else (fastWrite st.dest st.dst ((((matchlen - 3) <<< 7) ||| (offset <<< 15)) ||| 3) 4).map fun d => (d, st.dst + 4)
            match r with
            | none => none
            | some (d, dst) => some { st with src := src + matchlen, dst := dst, cwordVal := cwordVal, dest := d, ht := ht, hc := hc, fetch := fetch }
        else
          match s[src]? with
          | none => none
          | some b =>
            match wr st.dest st.dst b with
            | none => none
            | some d => some { st with src := src + 1, dst := st.dst + 1, cwordVal := st.cwordVal >>> 1, dest := d, ht := ht, hc := hc, fetch := fetch }

/-- result of the first loop: it ran to its end, or the function returned the stored form -/
inductive CLoop
  | fin (st : CSt)
  | stored (out : Buf)

/-- quicklz.go:117-265: `for src <= lastMatchStart { … }` with a bound on the passes (every pass advances `src`) -/
def cloop (s : Buf) (level : Nat) : Nat → CSt → Option CLoop
  | 0, _ => none
  | n + 1, st =>
    if (st.src : Int) ≤ (s.size : Int) - 11 then
      let pre : Option (Option CSt) :=         -- none = panic; some none = return the stored form
        if st.cwordVal &&& 1 = 1 then
          if giveUp s.size st.src st.dst then some none
          else
            match flushCword st.dest st.cwordPtr st.dst st.cwordVal with
            | none => none
            | some (d, cp, dst, cv) => some (some { st with dest := d, cwordPtr := cp, dst := dst, cwordVal := cv })
        else some (some st)
      match pre with
      | none => none
      | some none => (storedStream s level).map CLoop.stored
      | some (some st) =>
        match (if level = 1 then cstep1 s st else cstep3 s st) with
        | none => none
        | some st' => cloop s level n st'
    else some (.fin st)

/-- quicklz.go:267-279: the last literals -/
def ctail (s : Buf) : Nat → CSt → Option CSt
  | 0, st => some st
  | n + 1, st =>
    let pre : Option CSt :=
      if st.cwordVal &&& 1 = 1 then
        match flushCword st.dest st.cwordPtr st.dst st.cwordVal with
        | none => none
        | some (d, cp, dst, cv) => some { st with dest := d, cwordPtr := cp, dst := dst, cwordVal := cv }
      else some st
    match pre with
    | none => none
    | some st =>
      match s[st.src]? with
      | none => none
      | some b =>
        match wr st.dest st.dst b with
        | none => none
        | some d => ctail s n { st with dest := d, src := st.src + 1, dst := st.dst + 1, cwordVal := st.cwordVal >>> 1 }

/-- quicklz.go:280-282: `for (cwordVal & 1) != 1 { cwordVal >>= 1 }` (bit 31 is always set: at most 31 shifts) -/
def normCword : Nat → Nat → Nat
  | 0, cw => cw
  | n + 1, cw => if cw &&& 1 ≠ 1 then normCword n (cw >>> 1) else cw

/-- `Compress(source, level)` (quicklz.go:80).  `none` = panic (wrong level; any index out of range);
    an empty source returns nil (`some #[]`). -/
def compress (s : Buf) (level : Nat) : Option Buf :=
  if level ≠ 1 ∧ level ≠ 3 then none else
  if s.size = 0 then some #[] else
  let hp := if level = 3 then 16 else 1
  let lms : Int := (s.size : Int) - 11
  let fetch0 : Option Nat := if (0 : Int) ≤ lms then fastRead s 0 3 else some 0
  match fetch0 with
  | none => none
  | some fetch =>
    let st0 : CSt := { src := 0, dst := DEFAULT_HEADERLEN + CWORD_LEN, cwordVal := 0x80000000, cwordPtr := DEFAULT_HEADERLEN,
                       dest := Array.replicate (s.size + 400) 0, ht := Array.replicate (4096 * hp) 0, cache := Array.replicate 4096 0,
                       hc := Array.replicate 4096 0, fetch := fetch, lits := 0 }
    match cloop s level (s.size + 1) st0 with
    | none => none
    | some (.stored out) => some out
    | some (.fin st) =>
      match ctail s (s.size - st.src) st with
      | none => none
      | some st =>
        let cw := normCword 32 st.cwordVal
        match fastWrite st.dest st.cwordPtr ((cw >>> 1) ||| 0x80000000) CWORD_LEN with
        | none => none
        | some d =>
          match writeHeader d level true s.size st.dst with
          | none => none
          | some d => some (d.extract 0 st.dst)

end Qlz
