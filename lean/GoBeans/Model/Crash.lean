/-
  Process kill (C06): what is left of a bucket when the process dies, and what the next start makes of it.

  The only durable state the next start may rely on is the data files: a kill keeps, of every data file, the bytes
  already written to it — `cut i` bytes of file `i` (completed writes survive, the write buffer is lost; the last
  write may itself be cut anywhere: a torn tail).  Index files (hints, tree dump) are derived data: recovery must
  serve what a replay of the surviving records in (file, offset) order gives, whatever index files the kill left.
  Engine `crash` checks that against the real store for every sampled file-system mutation boundary.
  Core-only (linked into the driver).
-/
import GoBeans.Model.Store

namespace Store

/-- the records of a data file that lie completely inside its first `sz` bytes -/
def Chunk.durable (c : Chunk) (sz : Nat) (present : Bool) : Chunk :=
  let recs := c.recs.filter (fun p => decide (p.1 + p.2.size ≤ sz))
  { recs := recs, flushed := recs.length, size := match recs.getLast? with | some p => p.1 + p.2.size | none => 0,
    created := present }

/-- the file ends inside a record (a partially written record at its end) -/
def Chunk.torn (c : Chunk) (sz : Nat) : Bool :=
  sz ≠ 0 && !(c.recs.any (fun p => p.1 + p.2.size == sz))

/-- what a kill leaves: file `i` cut at `cut i` bytes (`present i`: the file exists) -/
def Bucket.crashAt (b : Bucket) (cut : Nat → Nat) (present : Nat → Bool) : Bucket :=
  { b with chunks := fun i => (b.chunks i).durable (cut i) (present i) }

def Bucket.tornAt (b : Bucket) (cut : Nat → Nat) : Bool :=
  (List.range (b.head + 1)).any (fun i => (b.chunks i).torn (cut i))

/-- the next start: a new head file, the tree rebuilt from the surviving records -/
def Bucket.recover (hash : Spec.Key → Nat) (cfg : Cfg) (b : Bucket) (cut : Nat → Nat) (present : Nat → Bool) : Bucket :=
  (step hash cfg (b.crashAt cut present) (.reopen false)).1

end Store
