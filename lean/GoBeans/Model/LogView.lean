/-
  Executable definitions of the LOG VIEW used by the C02/C03/C18 theorems and, on every run, by the driver
  (as oracles / model-internal ties): last record of a key, live record, relocation, GC's keep decision,
  the abstract pass.  Core-only; proofs about them live in GoBeans/Lemmas/Log.lean and GCLog.lean.
-/
import GoBeans.Model.GC

namespace StoreLemmas
open Store Spec

/-- the last record of key `k` in a log -/
def lastOf (k : Key) (l : List (Pos × Rec)) : Option (Pos × Rec) := (l.filter (fun p => p.2.key = k)).getLast?

/-- what a key reads: the live part of its last record (content only; relocation changes positions) -/
def liveRec (k : Key) (l : List (Pos × Rec)) : Option Rec :=
  (lastOf k l).bind (fun x => if x.2.ver > 0 then some x.2 else none)

/-- relocation keeps the record, changes the position -/
def relocate (f : Pos → Pos) (l : List (Pos × Rec)) : List (Pos × Rec) := l.map (fun x => (f x.1, x.2))

/-- GC's per-record decision on a quiescent bucket with non-colliding keys:
    a key the tree knows → keep exactly the record the tree points at (= the last record of the key);
    a key the tree does not know → keep only tombstones, and only if the range does not start at file 0 -/
def gcKeep (hasEntry : Key → Bool) (beginPos : Bool) (full : List (Pos × Rec)) (x : Pos × Rec) : Bool :=
  if hasEntry x.2.key then lastOf x.2.key full == some x else (beginPos && decide (x.2.ver < 0))

/-- the abstract pass on a bucket state: range = files begin..stop -/
def gcAbstract (hash : Key → Nat) (b : Bucket) (begin stop : Nat) : List Rec :=
  let full := b.log
  let hasEntry := fun k => (AMap.get b.tree (hash k)).isSome
  let inRange := fun (x : Pos × Rec) => decide (begin ≤ x.1.chunk) && decide (x.1.chunk ≤ stop)
  (full.filter (fun x => !inRange x || gcKeep hasEntry (decide (begin > 0)) full x)).map (·.2)
end StoreLemmas
