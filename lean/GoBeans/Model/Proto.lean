/-
  The memcached text protocol front end (C11, C12): hand-written model of
    memcache/protocol.go  Request.Read, Request.Process, Response.Write, Response.CleanBuffer, Request.Write, Response.Read
    memcache/server.go    ServerConn.ServeOnce   (one command: read, dispatch, reply, release)
    memcache/token.go     request tokens
    gobeansdb/store.go    StorageClient (Get / GetMulti / Set / Incr / Delete / special '@' and '?' keys)
    cmem/cmem.go          CArray.Alloc / Free and the four published counters
  over the single-bucket store model `Store.Bucket` (key hash = the reference hash).

  One `serveOnce` = one call of the real `ServeOnce`: it consumes a prefix of the bytes still to come, yields at
  most one reply, says whether the connection closes afterwards, and moves the ledger.  Engine `proto` drives the
  real `ServerConn` with the same byte stream and compares, per call: bytes consumed, bytes written, closing flag,
  the eight counters and the free tokens.

  The ledger operations are written in the order the code performs them (take token, allocate, count, …, release)
  so that "everything returns to zero" is a theorem about the paths (Lemmas/Proto.lean), not a definition.
  The values of the counters in the middle of a command are not observed by the tie (only their values between
  commands are).

  Not modelled: timeouts (TimeoutMS is far away in the harness), the OOM refusal (BodyBig is far away), malloc failure,
  write errors on the connection, the access log, `stats` values other than the seven command counters.
  Core-only (linked into the driver).
-/
import GoBeans.Model.Store
import GoBeans.Model.Tree
import GoBeans.Spec.Hash

namespace Proto

def ascii (s : String) : Bytes := s.toList.map (fun c => UInt8.ofNat c.toNat)

def crlf : Bytes := [13, 10]

/-! ### tokens of a command line -/

/-- `strings.FieldsFunc(line, r == ' ')` -/
def fieldsGo : Bytes → Bytes → List Bytes
  | [], cur => if cur = [] then [] else [cur]
  | c :: rest, cur =>
    if c = 32 then (if cur = [] then fieldsGo rest [] else cur :: fieldsGo rest [])
    else fieldsGo rest (cur ++ [c])

def fields (l : Bytes) : List Bytes := fieldsGo l []

/-- the bytes up to and including the first LF (`bufio.Reader.ReadString('\n')`); `none`: no LF before the end -/
def readLine : Bytes → Option Bytes
  | [] => none
  | c :: rest => if c = 10 then some [c] else (readLine rest).map (c :: ·)

def endsCRLF (l : Bytes) : Bool := l.length ≥ 2 && l.drop (l.length - 2) == crlf

abbrev atoi := Spec.parseInt
abbrev itoa := Spec.itoa

/-! ### key validity (`store.IsValidKeyString`) -/

def cont (b : UInt8) : Bool := 0x80 ≤ b && b ≤ 0xBF

/-- Go's UTF-8 decoding of the first rune of a non-empty string: (rune, width); invalid encodings give (0xFFFD, 1) -/
def decodeRune : Bytes → Nat × Nat
  | [] => (0xFFFD, 1)
  | b0 :: rest =>
    if b0 < 0x80 then (b0.toNat, 1)
    else if b0 < 0xC2 then (0xFFFD, 1)
    else if b0 < 0xE0 then
      match rest with
      | b1 :: _ => if cont b1 then ((b0.toNat - 0xC0) * 64 + (b1.toNat - 0x80), 2) else (0xFFFD, 1)
      | _ => (0xFFFD, 1)
    else if b0 < 0xF0 then
      match rest with
      | b1 :: b2 :: _ =>
        let lo : UInt8 := if b0 = 0xE0 then 0xA0 else 0x80
        let hi : UInt8 := if b0 = 0xED then 0x9F else 0xBF
        if lo ≤ b1 && b1 ≤ hi && cont b2 then (((b0.toNat - 0xE0) * 64 + (b1.toNat - 0x80)) * 64 + (b2.toNat - 0x80), 3) else (0xFFFD, 1)
      | _ => (0xFFFD, 1)
    else if b0 < 0xF5 then
      match rest with
      | b1 :: b2 :: b3 :: _ =>
        let lo : UInt8 := if b0 = 0xF0 then 0x90 else 0x80
        let hi : UInt8 := if b0 = 0xF4 then 0x8F else 0xBF
        if lo ≤ b1 && b1 ≤ hi && cont b2 && cont b3 then
          ((((b0.toNat - 0xF0) * 64 + (b1.toNat - 0x80)) * 64 + (b2.toNat - 0x80)) * 64 + (b3.toNat - 0x80), 4)
        else (0xFFFD, 1)
      | _ => (0xFFFD, 1)
    else (0xFFFD, 1)

/-- `unicode.IsControl(r) || unicode.IsSpace(r)` -/
def ctlOrSpace (r : Nat) : Bool :=
  r < 0x20 || (0x7f ≤ r && r < 0xa0) || r = 0x20 || r = 0x85 || r = 0xA0 || r = 0x1680 || (0x2000 ≤ r && r ≤ 0x200a)
  || r = 0x2028 || r = 0x2029 || r = 0x202f || r = 0x205f || r = 0x3000

def noCtlSpace : Nat → Bytes → Bool
  | 0, _ => true
  | _ + 1, [] => true
  | fuel + 1, l =>
    let (r, w) := decodeRune l
    if ctlOrSpace r then false else noCtlSpace fuel (l.drop w)

def validKeyString (k : Bytes) : Bool :=
  match k with
  | [] => false
  | c :: _ => k.length ≤ 250 && !(c ≤ 32 || c = 63 || c = 64) && noCtlSpace k.length k

/-! ### configuration, ledger, state -/

structure Cfg where
  bodyInC   : Nat := 64           -- MCConf.BodyInC: larger values live in C memory
  bodyMax   : Nat := 1048576      -- MCConf.BodyMax
  maxKeyLen : Nat := 250
  maxReq    : Nat := 16
  store     : Store.Cfg := {}
  height    : Nat := 3
  listKey   : Nat := 256
  version   : Bytes := []         -- config.Version
deriving Inhabited

structure Ledger where
  getC : Int := 0
  getS : Int := 0
  setC : Int := 0
  setS : Int := 0
  flushC : Int := 0
  flushS : Int := 0
  allocC : Int := 0
  allocS : Int := 0
  tokens : Int := 16
deriving DecidableEq, Repr, Inhabited

/-- a value buffer (`cmem.CArray`): its capacity and whether it was malloc'ed -/
structure Buf where
  cap : Nat
  inC : Bool
deriving DecidableEq, Repr, Inhabited

namespace Ledger
def alloc (cfg : Cfg) (l : Ledger) (n : Nat) : Ledger × Buf :=
  if n ≤ cfg.bodyInC then (l, { cap := n, inC := false })
  else ({ l with allocC := l.allocC + 1, allocS := l.allocS + n }, { cap := n, inC := true })
def free (l : Ledger) (b : Buf) : Ledger :=
  if b.inC then { l with allocC := l.allocC - 1, allocS := l.allocS - b.cap } else l
def setAdd (l : Ledger) (n : Nat) : Ledger := { l with setC := l.setC + 1, setS := l.setS + n }
def setSub (l : Ledger) (n : Nat) : Ledger := { l with setC := l.setC - 1, setS := l.setS - n }
def getAdd (l : Ledger) (n : Nat) : Ledger := { l with getC := l.getC + 1, getS := l.getS + n }
def getSub (l : Ledger) (n : Nat) : Ledger := { l with getC := l.getC - 1, getS := l.getS - n }
def flushAdd (l : Ledger) (n : Nat) : Ledger := { l with flushC := l.flushC + 1, flushS := l.flushS + n }
def flushSub (l : Ledger) (n : Nat) : Ledger := { l with flushC := l.flushC - 1, flushS := l.flushS - n }
def tokGet (l : Ledger) : Ledger := { l with tokens := l.tokens - 1 }
def tokPut (l : Ledger) : Ledger := { l with tokens := l.tokens + 1 }
end Ledger

structure Counters where
  cmdGet : Nat := 0
  getHits : Nat := 0
  getMisses : Nat := 0
  cmdSet : Nat := 0
  cmdDelete : Nat := 0
deriving DecidableEq, Repr, Inhabited

structure St where
  b    : Store.Bucket := {}
  led  : Ledger := {}
  pend : List Buf := []          -- value buffers owned by the write buffer: records with Ver > 0 not yet flushed
  cnt  : Counters := {}
deriving Inhabited

/-! ### requests -/

structure Req where
  cmd     : Bytes := []
  keys    : List Bytes := []
  flag    : Int := 0
  exptime : Int := 0
  cas     : Int := 0
  body    : Bytes := []        -- value of a store command / the number text of incr, decr
  noreply : Bool := false
deriving DecidableEq, Repr, Inhabited

/-- which branch of `Request.Read` / `Request.Process` a command line selects (both switch on the same word) -/
inductive Kind
  | get | store | append | delete | incr | decr | stats | version | okOnly | quit | none
deriving DecidableEq, Repr, Inhabited

inductive RErr
  | invalidCmd | valueTooLarge | badChunk | nonMemcache
deriving DecidableEq, Repr

inductive ReadRes
  | net                  -- ErrNetworkError: the stream ended inside the command
  | err (e : RErr)
  | ok
deriving DecidableEq, Repr

structure ReadOut where
  n       : Nat          -- bytes consumed
  res     : ReadRes
  req     : Req
  working : Bool         -- a request token is held
  led     : Ledger
  item    : Option Buf   -- the body buffer handed on to Process (store commands that parsed completely)
  kind    : Kind := .none
deriving Repr

def isStoreCmd (c : Bytes) : Bool :=
  c == ascii "set" || c == ascii "add" || c == ascii "replace" || c == ascii "cas" || c == ascii "append" || c == ascii "prepend"

def noreplyTok : Bytes := ascii "noreply"

/-- `config.IsValidValueSize` is `size <= BodyMax`; `Request.Read` also refuses negative lengths -/
def lengthOK (cfg : Cfg) (len : Int) : Bool := 0 ≤ len && len ≤ (cfg.bodyMax : Int) && len < 4294967296

def failRead (n : Nat) (led : Ledger) (e : RErr) (r : Req) : ReadOut :=
  { n := n, res := .err e, req := r, working := false, led := led, item := none }

/-- `Request.Read`, the store commands: header fields, then the length-prefixed body and its terminator;
    `n` is the length of the command line, `np` the number of its fields -/
def readStore (cfg : Cfg) (led : Ledger) (inp : Bytes) (n : Nat) (cmd : Bytes) (args : List Bytes) (np : Nat) : ReadOut :=
  let r0 : Req := { cmd := cmd }
  if np < 5 || np > 7 then failRead n led .invalidCmd r0 else
  let r1 : Req := { r0 with keys := args.take 1 }
  match atoi (args.getD 1 []), atoi (args.getD 2 []), atoi (args.getD 3 []) with
  | some flag, some exptime, some len =>
    let r2 : Req := { r1 with flag := flag, exptime := exptime }
    if !lengthOK cfg len then failRead n led .valueTooLarge r2 else
    let isCas := cmd == ascii "cas"
    if isCas && np < 6 then failRead n led .invalidCmd r2 else
    let casv : Int := if isCas then (atoi (args.getD 4 [])).getD 0 else 0
    let nrIdx := if isCas then 5 else 4
    if np > nrIdx + 1 && args.getD nrIdx [] ≠ noreplyTok then failRead n led .invalidCmd { r2 with cas := casv } else
    let r3 : Req := { r2 with cas := casv, noreply := np > nrIdx + 1 }
    let L := len.toNat
    -- RL.Get; item.Alloc(length); SetData.AddSizeAndCount(cap)
    let led1 := led.tokGet
    let a := led1.alloc cfg L
    let led3 := a.1.setAdd a.2.cap
    let rest := inp.drop n
    let undo := (led3.setSub a.2.cap).free a.2
    if rest.length < L + 2 then
      { n := inp.length, res := .net, req := r3, working := true, led := undo, item := none }
    else if (rest.drop L).take 2 ≠ crlf then
      { n := n + L + 2, res := .err .badChunk, req := { r3 with body := rest.take L }, working := true, led := undo, item := none }
    else
      { n := n + L + 2, res := .ok, req := { r3 with body := rest.take L }, working := true, led := led3, item := some a.2,
        kind := if cmd == ascii "append" || cmd == ascii "prepend" then .append else .store }
  | _, _, _ => failRead n led .invalidCmd r1

/-- `Request.Read`, after the command line was split into fields -/
def readCmd (cfg : Cfg) (led : Ledger) (inp : Bytes) (n : Nat) (cmd : Bytes) (args : List Bytes) : ReadOut :=
  let np := args.length + 1
  let r0 : Req := { cmd := cmd }
  if cmd == ascii "get" || cmd == ascii "gets" then
    if args.isEmpty then failRead n led .invalidCmd r0
    else { n := n, res := .ok, req := { r0 with keys := args }, working := true, led := led.tokGet, item := none, kind := .get }
  else if isStoreCmd cmd then readStore cfg led inp n cmd args np
  else if cmd == ascii "delete" then
    if np < 2 || np > 4 then failRead n led .invalidCmd r0
    else { n := n, res := .ok, req := { r0 with keys := args.take 1, noreply := np > 2 && args.getLast? == some noreplyTok },
           working := false, led := led, item := none, kind := .delete }
  else if cmd == ascii "incr" || cmd == ascii "decr" then
    if np < 3 || np > 4 then failRead n led .invalidCmd r0
    else { n := n, res := .ok,
           req := { r0 with keys := args.take 1, body := args.getD 1 [], noreply := np > 3 && args.getD 2 [] == noreplyTok },
           working := true, led := ({ led with setC := led.setC + 1 } : Ledger).tokGet, item := none,
           kind := if cmd == ascii "incr" then .incr else .decr }
  else if cmd == ascii "stats" then
    { n := n, res := .ok, req := { r0 with keys := args }, working := false, led := led, item := none, kind := .stats }
  else if cmd == ascii "quit" || cmd == ascii "version" || cmd == ascii "flush_all" || cmd == ascii "verbosity" then
    { n := n, res := .ok, req := { r0 with keys := args }, working := false, led := led, item := none,
      kind := if cmd == ascii "quit" then .quit else if cmd == ascii "version" then .version else .okOnly }
  else failRead n led .nonMemcache { r0 with keys := args }

/-- `Request.Read` -/
def readReq (cfg : Cfg) (led : Ledger) (inp : Bytes) : ReadOut :=
  match readLine inp with
  | none => { n := inp.length, res := .net, req := {}, working := false, led := led, item := none }
  | some line =>
    if !endsCRLF line then failRead line.length led .invalidCmd {} else
    match fields (line.take (line.length - 2)) with
    | [] => failRead line.length led .invalidCmd {}
    | cmd :: args => readCmd cfg led inp line.length cmd args

/-! ### replies -/

/-- a piece of output; the placeholders stand for bytes that depend on the server clock -/
inductive Seg
  | lit (b : Bytes)
  | ts                                              -- decimal unix time of the write (10 digits)
  | recDump (key : Bytes) (ver : Int) (flag : Nat) (body : Bytes)    -- an encoded record (24-byte header with ts and crc, key, value)
  | posOf (chunk off : Nat)                         -- "<chunk> <offset>" of the extended meta reply
  | lines (ls : List Bytes)                         -- these lines, in any order (leaf order is insertion order)
  | statsAll                                        -- the full `stats` listing
  | statVal (name : Bytes)                          -- the value of a statistic the model does not track
deriving Repr, DecidableEq

structure RItem where
  key  : Bytes
  flag : Int
  cas  : Int := 0
  body : List Seg
  len  : Nat              -- length of the rendered body
deriving Repr, DecidableEq

inductive Resp
  | value (cas : Bool) (items : List RItem)         -- VALUE blocks (map order: any) then END
  | stat (msg : List Seg)
  | num (msg : Bytes)                               -- INCR
  | line (status : Bytes) (msg : Bytes)
deriving Repr, DecidableEq

def sp : Bytes := [32]

/-- `Response.Write` -/
def Resp.write : Resp → List (List Seg) × List Seg     -- (blocks that may come in any order, then the tail)
  | .value cas items =>
    (items.map (fun it =>
      [Seg.lit (ascii "VALUE " ++ it.key ++ sp ++ itoa it.flag ++ sp ++ itoa it.len ++ (if cas then sp ++ itoa it.cas else []) ++ crlf)]
        ++ it.body ++ [Seg.lit crlf]), [Seg.lit (ascii "END" ++ crlf)])
  | .stat msg => ([], msg ++ [Seg.lit (ascii "END" ++ crlf)])
  | .num msg => ([], [Seg.lit (msg ++ crlf)])
  | .line status msg => ([], [Seg.lit (status ++ (if msg = [] then [] else sp ++ msg) ++ crlf)])

/-! ### the storage client -/

def hashOf (k : Bytes) : Nat := Ref.keyHash k

def plainSize (klen blen : Nat) : Nat := (24 + klen + blen + 255) / 256 * 256

inductive GetRes
  | err (msg : Bytes)
  | none
  | item (it : RItem)

def hexVal? (c : UInt8) : Option Nat :=
  if 48 ≤ c ∧ c ≤ 57 then some (c.toNat - 48)
  else if 97 ≤ c ∧ c ≤ 102 then some (c.toNat - 87)
  else if 65 ≤ c ∧ c ≤ 70 then some (c.toNat - 55)
  else none

/-- `ParsePathString`: the digits, or the first character that is not a hex digit -/
def parsePath : Bytes → Except UInt8 (List Nat)
  | [] => .ok []
  | c :: rest =>
    match hexVal? c with
    | none => .error c
    | some d => match parsePath rest with
      | .ok ds => .ok (d :: ds)
      | .error e => .error e

def contentOf (b : Store.Bucket) : Tree.Content :=
  b.tree.map fun (h, it) => { khash := h, ver := it.ver, vhash := it.vhash }

def hexDigitB (n : Nat) : UInt8 := if n < 10 then (48 + n).toUInt8 else (87 + n).toUInt8
def hex16 (n : Nat) : Bytes := (List.range 16).map fun i => hexDigitB ((n / 16 ^ (15 - i)) % 16)

/-- the text of a directory listing (`HTree.ListDir`): item lines in leaf order are compared as a set by the driver -/
def listingText : Tree.Listing → List Bytes
  | .nodes ch => (List.range ch.length).map fun i =>
      let (h, c) := ch.getD i (0, 0)
      [hexDigitB i] ++ ascii "/ " ++ itoa h ++ sp ++ itoa c ++ [10]
  | .items es => es.map fun e => hex16 e.khash ++ sp ++ itoa e.vhash ++ sp ++ itoa e.ver ++ [10]
  | .none => []

def quoteErr (c : UInt8) : Bytes := ascii "strconv.ParseInt: parsing \"" ++ [c] ++ ascii "\": invalid syntax"

/-- what holding a read buffer for a reply adds to the ledger (`readRecordAt` / `Copy`: malloc above the
    threshold, GetData.AddSizeAndCount) -/
def acquire (l : Ledger) (b : Buf) : Ledger :=
  (if b.inC then { l with allocC := l.allocC + 1, allocS := l.allocS + b.cap } else l).getAdd b.cap

def releaseRead (l : Ledger) (b : Buf) : Ledger := (l.getSub b.cap).free b

/-- `StorageClient.Get`: the reply item and, for a hit on an ordinary key, the read buffer that stays allocated
    and counted until `CleanBuffer`.  The special keys ('@', '?') and tombstones read a record too but release
    it before returning (add and subtract inside the call): nothing is held, nothing is modelled. -/
def clientGet (cfg : Cfg) (st : St) (key : Bytes) : GetRes × Option Buf :=
  match key with
  | [] => (.none, none)
  | 64 :: rest =>                                           -- '@'
    match rest with
    | 64 :: key2 =>                                         -- "@@" + 16 hex digits: the raw record at a key hash
      if key2.length ≠ 16 then (.err (ascii "bad command line format"), none) else
      match parsePath key2 with
      | .error c => (.err (quoteErr c), none)
      | .ok ds =>
        match AMap.get st.b.tree (Tree.digitsVal ds) with
        | none => (.none, none)
        | some it =>
          match st.b.readAt it.pos with
          | none => (.err (ascii "?"), none)
          | some r =>
            (.item { key := key, flag := 0, body := [.recDump r.key r.ver r.flag r.body], len := 24 + r.key.length + r.body.length }, none)
    | _ =>
      if key.length > 11 && rest.take 10 == ascii "collision_" then
        if key.length > 15 && (rest.drop 10).take 4 == ascii "all_" then (.none, none)
        else (.item { key := key, flag := 0, body := [.lit (ascii "0 0 0 0")], len := 7 }, none)
      else
        match parsePath rest with
        | .error _ => (.item { key := key, flag := 0, body := [], len := 0 }, none)      -- Prepare fails: empty listing
        | .ok ds =>
          if ds.length > 16 then (.item { key := key, flag := 0, body := [], len := 0 }, none) else
          let listing := Tree.listBucket (contentOf st.b) 0 cfg.height cfg.listKey ds
          let lines := listingText listing
          let body : List Seg := match listing with
            | .items _ => [.lines lines]
            | _ => [.lit lines.flatten]
          (.item { key := key, flag := 0, body := body, len := lines.flatten.length }, none)
  | 63 :: rest =>                                           -- '?': meta
    if rest = [] then (.err (ascii "bad key ?"), none) else
    let (ext, k) := match rest with
      | 63 :: k2 => (true, k2)
      | _ => (false, rest)
    if !validKeyString k then (.none, none) else
    match (Store.step hashOf cfg.store st.b (.info k)) with
    | (_, .info ver vh flag len _, pos) =>
      let head := [Seg.lit (itoa ver ++ sp ++ itoa vh ++ sp ++ itoa flag ++ sp ++ itoa len ++ sp), Seg.ts]
      let n0 := (itoa ver).length + (itoa (vh : Int)).length + (itoa (flag : Int)).length + (itoa (len : Int)).length + 4 + 10
      match ext, pos with
      | true, some p =>
        (.item { key := key, flag := 0, body := head ++ [.lit sp, .posOf p.chunk p.off], len := n0 + 2 + (itoa p.chunk).length + (itoa p.off).length }, none)
      | true, none => (.item { key := key, flag := 0, body := head ++ [.lit (ascii " 0 0")], len := n0 + 4 }, none)
      | false, _ => (.item { key := key, flag := 0, body := head, len := n0 }, none)
    | _ => (.none, none)
  | _ =>
    match Store.step hashOf cfg.store st.b (.get key) with
    | (_, .value flag body, _) =>
      (.item { key := key, flag := flag, body := [.lit body], len := body.length }, some { cap := body.length, inC := body.length > cfg.bodyInC })
    | (_, .error, _) => (.err (ascii "?"), none)
    | _ => (.none, none)

/-- one `get`/`gets` key list through GetMulti: items (first occurrence of a key only) and the buffers held -/
def multiGet (cfg : Cfg) (st : St) : List Bytes → List Bytes → List RItem × List Buf
  | [], _ => ([], [])
  | k :: ks, seen =>
    if seen.contains k then multiGet cfg st ks seen else
    match clientGet cfg st k with
    | (.item it, buf) =>
      let (its, bufs) := multiGet cfg st ks (k :: seen)
      (it :: its, buf.toList ++ bufs)
    | _ => multiGet cfg st ks seen

def statLine (name : Bytes) (v : Nat) : Seg := .lit (ascii "STAT " ++ name ++ sp ++ itoa v ++ crlf)

structure Served where
  st      : St
  n       : Nat
  resp    : Option Resp
  closing : Bool

abbrev PRes := St × Option Resp × List Buf × Bool     -- state, reply, read buffers for CleanBuffer, quit

def replyIf (noreply : Bool) (st : St) (x : Resp) : PRes := (st, if noreply then none else some x, [], false)

def processGet (cfg : Cfg) (st : St) (r : Req) : PRes :=
  if r.keys.any (fun k => !(0 < k.length && k.length ≤ cfg.maxKeyLen)) then
    (st, some (.line (ascii "CLIENT_ERROR") (ascii "key length error")), [], false)
  else
    let casF := r.cmd == ascii "gets"
    match r.keys with
    | [k] =>
      let cnt1 := { st.cnt with cmdGet := st.cnt.cmdGet + 1 }
      match clientGet cfg st k with
      | (.err msg, _) => ({ st with cnt := cnt1 }, some (.line (ascii "SERVER_ERROR") msg), [], false)
      | (.none, _) => ({ st with cnt := { cnt1 with getMisses := cnt1.getMisses + 1 } }, some (.value casF []), [], false)
      | (.item it, buf) =>
        ({ st with led := buf.toList.foldl acquire st.led, cnt := { cnt1 with getHits := cnt1.getHits + 1 } }, some (.value casF [it]), buf.toList, false)
    | ks =>
      let (its, bufs) := multiGet cfg st ks []
      let c := st.cnt
      let cnt' : Counters := { c with cmdGet := c.cmdGet + ks.length, getHits := c.getHits + its.length,
                                      getMisses := c.getMisses + (ks.length - its.length) }
      ({ st with led := bufs.foldl acquire st.led, cnt := cnt' },
       some (.value casF its), bufs, false)

def processStore (cfg : Cfg) (st : St) (r : Req) (buf : Buf) : PRes :=
  let key := r.keys.headD []
  let st := { st with cnt := { st.cnt with cmdSet := st.cnt.cmdSet + 1 } }
  let drop : Ledger := (st.led.setSub buf.cap).free buf
  -- refused without touching the store: an invalid key, a negative revision, the server-reserved flag bit 0x10000
  -- (since /repo "fix: refuse the server-reserved compression flag from clients")
  if !validKeyString key || r.exptime < 0 || ((r.flag % 4294967296).toNat / 65536) % 2 == 1 then
    replyIf r.noreply { st with led := drop } (.line (ascii "NOT_STORED") [])
  else
    let flag := (r.flag % 4294967296).toNat
    let rev : Int := Int32.toInt (Int32.ofInt r.exptime)
    match Store.checkAndSet hashOf cfg.store st.b key r.body flag rev (some 0) (plainSize key.length r.body.length) 0 with
    | (b', .done (some _)) =>
      -- written: the buffer now belongs to the write buffer (SetData -> FlushData)
      replyIf r.noreply { st with b := b', led := (st.led.flushAdd buf.cap).setSub buf.cap, pend := st.pend ++ [buf] } (.line (ascii "STORED") [])
    | (b', .done none) => replyIf r.noreply { st with b := b', led := drop } (.line (ascii "STORED") [])
    | (b', .notFound) => replyIf r.noreply { st with b := b', led := drop } (.line (ascii "SERVER_ERROR") (ascii "NOT_FOUND"))

def processAppend (st : St) (r : Req) (buf : Buf) : PRes :=
  let st := { st with cnt := { st.cnt with cmdSet := st.cnt.cmdSet + 1 }, led := (st.led.setSub buf.cap).free buf }
  -- Process returns the store's error: with a reply to write it is replaced by the write's result; with noreply it
  -- reaches Serve, which closes the connection
  if r.noreply then (st, none, [], true) else (st, some (.line (ascii "SERVER_ERROR") (ascii "operation not support")), [], false)

def processIncr (cfg : Cfg) (st : St) (r : Req) : PRes :=
  let key := r.keys.headD []
  let st := { st with cnt := { st.cnt with cmdSet := st.cnt.cmdSet + 1 } }
  let uncount : Ledger := { st.led with setC := st.led.setC - 1 }
  match atoi r.body with
  | none => replyIf r.noreply { st with led := uncount } (.line (ascii "CLIENT_ERROR") (ascii "invalid number"))
  | some d =>
    if !validKeyString key then replyIf r.noreply { st with led := uncount } (.num (itoa 0)) else
    match Store.step hashOf cfg.store st.b (.incr key d (plainSize key.length 0) 0) with
    | (b', .num v, some _) =>
      let buf : Buf := { cap := 0, inC := false }
      replyIf r.noreply { st with b := b', led := (st.led.flushAdd 0).setSub 0, pend := st.pend ++ [buf] } (.num (itoa v))
    | (b', .num v, none) => replyIf r.noreply { st with b := b', led := uncount } (.num (itoa v))
    | (b', _, _) => replyIf r.noreply { st with b := b', led := uncount } (.num (itoa 0))

def processDelete (cfg : Cfg) (st : St) (r : Req) : PRes :=
  let key := r.keys.headD []
  if !validKeyString key then replyIf r.noreply st (.line (ascii "NOT_FOUND") []) else
  let st1 := { st with cnt := { st.cnt with cmdDelete := st.cnt.cmdDelete + 1 } }
  match Store.step hashOf cfg.store st.b (.delete key (plainSize key.length 0) 0) with
  | (b', .deleted, _) => replyIf r.noreply { st1 with b := b' } (.line (ascii "DELETED") [])
  | (b', _, _) => replyIf r.noreply { st1 with b := b' } (.line (ascii "NOT_FOUND") [])

def processStats (st : St) (r : Req) : PRes :=
  let known (k : Bytes) : Option Nat :=
    if k == ascii "cmd_get" then some st.cnt.cmdGet
    else if k == ascii "cmd_set" then some st.cnt.cmdSet
    else if k == ascii "cmd_delete" then some st.cnt.cmdDelete
    else if k == ascii "get_hits" then some st.cnt.getHits
    else if k == ascii "get_misses" then some st.cnt.getMisses
    else none
  if r.keys.isEmpty then (st, some (.stat [.statsAll]), [], false)
  else (st, some (.stat (r.keys.map fun k => match known k with | some v => statLine k v | none => .statVal k)), [], false)

/-- `Request.Process` for a command that parsed completely; returns the state (ledger still holding the token),
    the reply and the read buffers `CleanBuffer` will release -/
def process (cfg : Cfg) (st : St) (r : Req) (item : Option Buf) : Kind → PRes
  | .get => processGet cfg st r
  | .store => processStore cfg st r (item.getD { cap := 0, inC := false })
  | .append => processAppend st r (item.getD { cap := 0, inC := false })
  | .incr => processIncr cfg st r
  | .decr => replyIf r.noreply { st with led := { st.led with setC := st.led.setC - 1 } } (.line (ascii "ERROR") [])
  | .delete => processDelete cfg st r
  | .stats => processStats st r
  | .version => (st, some (.line (ascii "VERSION") cfg.version), [], false)
  | .okOnly => (st, some (.line (ascii "OK") []), [], false)
  | .quit => (st, none, [], true)
  | .none => (st, none, [], true)

/-- `ServerConn.ServeOnce` on the bytes still to come -/
def serveOnce (cfg : Cfg) (st : St) (inp : Bytes) : Served :=
  let ro := readReq cfg st.led inp
  let put (l : Ledger) : Ledger := if ro.working then l.tokPut else l
  match ro.res with
  | .net => { st := { st with led := put ro.led }, n := ro.n, resp := none, closing := true }
  | .err .nonMemcache =>
    let resp : Resp := if ro.req.cmd == ascii "optimize_stat" then .line (ascii "none") [] else .line (ascii "ERROR") []
    { st := { st with led := put ro.led }, n := ro.n, resp := some resp, closing := false }
  | .err e =>
    let msg := match e with
      | .invalidCmd => ascii "invalid cmd"
      | .valueTooLarge => ascii "value too large"
      | .badChunk => ascii "bad data chunk"
      | .nonMemcache => []
    { st := { st with led := put ro.led }, n := ro.n, resp := some (.line (ascii "CLIENT_ERROR") msg), closing := false }
  | .ok =>
    let (st1, resp, bufs, quit) := process cfg { st with led := ro.led } ro.req ro.item ro.kind
    -- reply written, then CleanBuffer, then the token goes back
    let led2 := bufs.foldl releaseRead st1.led
    { st := { st1 with led := put led2 }, n := ro.n, resp := resp, closing := quit }

/-- the flusher: every pending record goes to its file; its buffer leaves FlushData and is freed -/
def flush (st : St) : St :=
  let c := st.b.chunk st.b.head
  { st with b := st.b.setChunk st.b.head { c with flushed := c.recs.length },
            led := st.pend.foldl (fun l buf => (l.flushSub buf.cap).free buf) st.led, pend := [] }

/-- serve a whole connection: until it closes or `fuel` commands were served; returns state and the replies -/
def serve (cfg : Cfg) : Nat → St → Bytes → St × List (Option Resp)
  | 0, st, _ => (st, [])
  | fuel + 1, st, inp =>
    let s := serveOnce cfg st inp
    if s.closing then (s.st, [s.resp])
    else
      let (st', rs) := serve cfg fuel s.st (inp.drop s.n)
      (st', s.resp :: rs)

/-! ### the client side of the wire: `Request.Write` and `Response.Read` (round trips) -/

def joinSp : List Bytes → Bytes
  | [] => []
  | [x] => x
  | x :: xs => x ++ sp ++ joinSp xs

/-- `Request.Write` -/
def writeReq (r : Req) : Bytes :=
  let nr := if r.noreply then sp ++ noreplyTok else []
  if isStoreCmd r.cmd then
    let k := r.keys.headD []
    (if r.cmd == ascii "cas" then
      r.cmd ++ sp ++ k ++ sp ++ itoa r.flag ++ sp ++ itoa r.exptime ++ sp ++ itoa r.body.length ++ sp ++ itoa r.cas ++ nr ++ crlf
     else
      r.cmd ++ sp ++ k ++ sp ++ itoa r.flag ++ sp ++ itoa r.exptime ++ sp ++ itoa r.body.length ++ nr ++ crlf)
    ++ r.body ++ crlf
  else if r.cmd == ascii "incr" || r.cmd == ascii "decr" then
    r.cmd ++ sp ++ r.keys.headD [] ++ sp ++ r.body ++ nr ++ crlf
  else
    joinSp (r.cmd :: r.keys) ++ nr ++ crlf

end Proto

/-! ### `Response.Read` (the project's own client-side reply parser) -/
namespace Proto

structure PItem where
  key : Bytes
  flag : Int
  cas : Int := 0
  body : Bytes
deriving DecidableEq, Repr

structure PResp where
  status : Bytes
  msg : Bytes := []
  items : List PItem := []      -- the reply's map: one entry per key, a later one replaces an earlier one
deriving DecidableEq, Repr

def putItem (items : List PItem) (it : PItem) : List PItem :=
  if items.any (fun x => x.key == it.key) then items.map (fun x => if x.key == it.key then it else x) else items ++ [it]

def endStatuses : List Bytes :=
  [ascii "END", ascii "STORED", ascii "NOT_STORED", ascii "DELETED", ascii "NOT_FOUND", ascii "OK"]
def msgStatuses : List Bytes := [ascii "ERROR", ascii "SERVER_ERROR", ascii "CLIENT_ERROR", ascii "VERSION"]

/-- `Response.Read`: the parsed reply and the bytes left over; `none`: an error (or a panic on a line shorter than 2 bytes) -/
def readResp (cfg : Cfg) : Nat → Bytes → List PItem → Option (PResp × Bytes)
  | 0, _, _ => none
  | fuel + 1, inp, items =>
    match readLine inp with
    | none => none
    | some line =>
      if line.length < 2 then none else
      let parts := fields (line.take (line.length - 2))
      let rest := inp.drop line.length
      match parts with
      | [] => none
      | status :: args =>
        if status == ascii "VALUE" then
          if parts.length < 4 then none else
          match atoi (args.getD 1 []), atoi (args.getD 2 []) with
          | some flag, some len =>
            if !(0 ≤ len && len ≤ (cfg.bodyMax : Int)) then none else
            let cas? : Option Int := if parts.length == 5 then atoi (args.getD 3 []) else some 0
            match cas? with
            | none => none
            | some cas =>
              let L := len.toNat
              if rest.length < L then none else
              readResp cfg fuel (rest.drop (L + 2)) (putItem items { key := args.getD 0 [], flag := flag, cas := cas, body := rest.take L })
          | _, _ => none
        else if status == ascii "STAT" then
          if parts.length ≠ 3 then none
          else readResp cfg fuel rest (putItem items { key := args.getD 0 [], flag := 0, body := args.getD 1 [] })
        else if endStatuses.contains status then some ({ status := status, items := items }, rest)
        else if msgStatuses.contains status then some ({ status := status, msg := joinSp args, items := items }, rest)
        else match atoi status with
          | some _ => some ({ status := ascii "INCR", msg := status, items := items }, rest)
          | none => none

end Proto
