/-
  AMap — a minimal association-list map (core-only, executable, with the three lemmas the
  invariant proofs need).  `set` replaces in place or appends; `get` returns the first match.
-/
namespace AMap

variable {K V : Type} [DecidableEq K]

def get (m : List (K × V)) (k : K) : Option V :=
  match m with
  | [] => none
  | (k', v) :: rest => if k' = k then some v else get rest k

def erase (m : List (K × V)) (k : K) : List (K × V) :=
  match m with
  | [] => []
  | (k', v) :: rest => if k' = k then erase rest k else (k', v) :: erase rest k

def set (m : List (K × V)) (k : K) (v : V) : List (K × V) :=
  (k, v) :: erase m k

theorem get_erase_self (m : List (K × V)) (k : K) : get (erase m k) k = none := by
  induction m with
  | nil => rfl
  | cons p rest ih =>
    obtain ⟨k', v⟩ := p
    by_cases h : k' = k
    · simp [erase, h, ih]
    · simp [erase, h, get, ih]

theorem get_erase_ne (m : List (K × V)) (k k' : K) (h : k ≠ k') : get (erase m k) k' = get m k' := by
  induction m with
  | nil => rfl
  | cons p rest ih =>
    obtain ⟨k0, v⟩ := p
    by_cases hp : k0 = k
    · have : k0 ≠ k' := by rw [hp]; exact h
      simp [erase, hp, get, ih, h]
    · by_cases hk : k0 = k'
      · subst hk; simp [erase, hp, get]
      · simp [erase, hp, get, hk, ih]

@[simp] theorem get_set_self (m : List (K × V)) (k : K) (v : V) : get (set m k v) k = some v := by
  simp [set, get]

theorem get_set_ne (m : List (K × V)) (k k' : K) (v : V) (h : k ≠ k') : get (set m k v) k' = get m k' := by
  simp [set, get, h, get_erase_ne m k k' h]

@[simp] theorem get_nil (k : K) : get ([] : List (K × V)) k = none := rfl

end AMap
