/-
  AMap — a minimal association-list map (core-only, executable, with the three lemmas the
  invariant proofs need).  `set` replaces in place or appends; `get` returns the first match.
-/
namespace AMap

variable {K V : Type} [DecidableEq K]

def get (m : List (K × V)) (k : K) : Option V :=
  match m with
  | [] => none
  | (k', v) :: rest => if k' = k then some v else get rest k

def erase (m : List (K × V)) (k : K) : List (K × V) :=
  match m with
  | [] => []
  | (k', v) :: rest => if k' = k then erase rest k else (k', v) :: erase rest k

def set (m : List (K × V)) (k : K) (v : V) : List (K × V) :=
  (k, v) :: erase m k

theorem get_erase_self (m : List (K × V)) (k : K) : get (erase m k) k = none := by
  induction m with
  | nil => rfl
  | cons p rest ih =>
    obtain ⟨k', v⟩ := p
    by_cases h : k' = k
    · simp [erase, h, ih]
    · simp [erase, h, get, ih]

theorem get_erase_ne (m : List (K × V)) (k k' : K) (h : k ≠ k') : get (erase m k) k' = get m k' := by
  induction m with
  | nil => rfl
  | cons p rest ih =>
    obtain ⟨k0, v⟩ := p
    by_cases hp : k0 = k
    · have : k0 ≠ k' := by rw [hp]; exact h
      simp [erase, hp, get, ih, h]
    · by_cases hk : k0 = k'
      · subst hk; simp [erase, hp, get]
      · simp [erase, hp, get, hk, ih]

@[simp] theorem get_set_self (m : List (K × V)) (k : K) (v : V) : get (set m k v) k = some v := by
  simp [set, get]

theorem get_set_ne (m : List (K × V)) (k k' : K) (v : V) (h : k ≠ k') : get (set m k v) k' = get m k' := by
  simp [set, get, h, get_erase_ne m k k' h]

@[simp] theorem get_nil (k : K) : get ([] : List (K × V)) k = none := rfl


/-! keys are unique in maps built by `set` -/
def NodupKeys (m : List (K × V)) : Prop := (m.map Prod.fst).Nodup

theorem mem_erase {m : List (K × V)} {k k' : K} {v : V} (h : (k', v) ∈ erase m k) : (k', v) ∈ m ∧ k' ≠ k := by
  induction m with
  | nil => simp [erase] at h
  | cons p rest ih =>
    obtain ⟨k0, v0⟩ := p
    by_cases hk : k0 = k
    · simp only [erase, hk, if_true] at h
      have := ih h
      exact ⟨List.mem_cons_of_mem _ this.1, this.2⟩
    · simp only [erase, hk, if_false, List.mem_cons] at h
      rcases h with h | h
      · cases h; exact ⟨by simp, hk⟩
      · have := ih h
        exact ⟨List.mem_cons_of_mem _ this.1, this.2⟩

theorem nodup_erase {m : List (K × V)} (k : K) (h : NodupKeys m) : NodupKeys (erase m k) := by
  induction m with
  | nil => exact h
  | cons p rest ih =>
    obtain ⟨k0, v0⟩ := p
    unfold NodupKeys at h ih ⊢
    simp only [List.map_cons, List.nodup_cons] at h
    by_cases hk : k0 = k
    · simp only [erase, hk, if_true]; exact ih h.2
    · simp only [erase, hk, if_false, List.map_cons, List.nodup_cons]
      refine ⟨?_, ih h.2⟩
      intro hm
      apply h.1
      rw [List.mem_map] at hm ⊢
      obtain ⟨⟨k1, v1⟩, hm1, hk1⟩ := hm
      exact ⟨(k1, v1), (mem_erase hm1).1, hk1⟩

theorem nodup_set {m : List (K × V)} (k : K) (v : V) (h : NodupKeys m) : NodupKeys (set m k v) := by
  unfold set NodupKeys
  simp only [List.map_cons, List.nodup_cons]
  refine ⟨?_, nodup_erase k h⟩
  intro hm
  rw [List.mem_map] at hm
  obtain ⟨⟨k1, v1⟩, hm1, hk1⟩ := hm
  exact (mem_erase hm1).2 hk1

theorem get_none_of_not_mem {m : List (K × V)} {k : K} (h : k ∉ m.map Prod.fst) : get m k = none := by
  induction m with
  | nil => rfl
  | cons p rest ih =>
    obtain ⟨k0, v0⟩ := p
    simp only [List.map_cons, List.mem_cons, not_or] at h
    have : ¬ k0 = k := fun e => h.1 e.symm
    simp [get, this, ih h.2]

/-- on a map with unique keys, filtering by value commutes with lookup -/
theorem get_filter {m : List (K × V)} (P : V → Bool) (h : NodupKeys m) (k : K) :
    get (m.filter (fun p => P p.2)) k = (get m k).filter P := by
  induction m with
  | nil => rfl
  | cons p rest ih =>
    obtain ⟨k0, v0⟩ := p
    unfold NodupKeys at h
    simp only [List.map_cons, List.nodup_cons] at h
    by_cases hk : k0 = k
    · subst hk
      have hn : get rest k0 = none := get_none_of_not_mem h.1
      by_cases hp : P v0 = true
      · simp [List.filter, hp, get, Option.filter]
      · simp only [List.filter, hp, get, if_true]
        rw [ih h.2, hn]; simp [Option.filter, hp]
    · by_cases hp : P v0 = true
      · simp [List.filter, hp, get, hk, ih h.2]
      · simp [List.filter, hp, get, hk, ih h.2]

theorem nodup_filter {m : List (K × V)} (P : K × V → Bool) (h : NodupKeys m) : NodupKeys (m.filter P) := by
  unfold NodupKeys at *
  exact List.Nodup.sublist (List.Sublist.map _ List.filter_sublist) h

end AMap
