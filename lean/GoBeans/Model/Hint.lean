/-
  Hint files (C14) — hand-written byte-level model of store/hintfile.go (writer, sequential reader),
  store/hintindex.go (sparse index, lookup) and store/hintmerge.go (k-way merge + collision groups).
  The 16-byte header is the REGENERATED `Gen.hintMetaDumps` / `Gen.hintMetaLoads`.  Core-only.
-/
import GoBeans.Gen.Kernels

namespace Hint

structure Item where
  khash : Nat            -- 64-bit key hash
  chunk : Nat            -- data file id (meaningful in merged files; 0 in per-file hints)
  off   : Nat            -- offset in the data file
  ver   : Int
  vhash : Nat
  key   : Bytes          -- 1..255 bytes (the length is stored in one byte)
deriving DecidableEq, Repr, Inhabited

def le (n v : Nat) : Bytes := Go.leBytes n v

def verU32 (v : Int) : Nat := (Int32.ofInt v).toUInt32.toNat

/-- `writeItem`: khash(8) chunk(4) offset(4) ver(4) vhash(2) ksz(1) key -/
def encItem (it : Item) : Bytes :=
  le 8 it.khash ++ le 4 it.chunk ++ le 4 it.off ++ le 4 (verU32 it.ver) ++ le 2 it.vhash ++ [it.key.length.toUInt8] ++ it.key

def itemSize (it : Item) : Nat := 23 + it.key.length

structure WState where
  body : Bytes := []
  offset : Nat := 16
  lastoffset : Nat := 0
  index : List (Nat × Nat) := []       -- (khash, file offset)
  numKey : Nat := 0

/-- one `writeItem`, including the sparse-index rule
    `(offset - lastoffset) > IndexIntervalSize - HINTITEM_HEAD_SIZE - 256` -/
def writeStep (interval : Int) (w : WState) (it : Item) : WState :=
  let addIdx : Bool := decide (((w.offset : Int) - (w.lastoffset : Int)) > interval - (Gen.HINTITEM_HEAD_SIZE : Int) - 256)
  { body := w.body ++ encItem it,
    offset := w.offset + itemSize it,
    lastoffset := if addIdx then w.offset else w.lastoffset,
    index := if addIdx then w.index ++ [(it.khash, w.offset)] else w.index,
    numKey := w.numKey + 1 }

def header (indexOffset numKey datasize : Nat) : Bytes :=
  Gen.hintMetaDumps (List.replicate 16 0) (Int64.ofNat indexOffset) (Int64.ofNat numKey) datasize.toUInt32

def encIndex (idx : List (Nat × Nat)) : Bytes := idx.flatMap (fun p => le 8 p.1 ++ le 8 p.2)

/-- the whole file as `hintFileWriter` leaves it after `close` -/
def writeFile (interval : Int) (items : List Item) (datasize : Nat) : Bytes :=
  let w := items.foldl (writeStep interval) {}
  header w.offset w.numKey datasize ++ w.body ++ encIndex w.index

def getN (n : Nat) (b : Bytes) : Nat := Go.getLE n b

/-- `hintFileReader.next` on the bytes at the reader's position -/
def decItem (b : Bytes) : Option (Item × Nat) :=
  if b.length < 23 then none else
  let ksz := (b.getD 22 0).toNat
  if b.length < 23 + ksz then none else
  let ver := (Int32.ofNat (getN 4 (b.drop 16))).toInt   -- int32(uint32)
  some ({ khash := getN 8 b, chunk := getN 4 (b.drop 8), off := getN 4 (b.drop 12), ver := ver,
          vhash := getN 2 (b.drop 20), key := (b.drop 23).take ksz }, 23 + ksz)

inductive RErr | badHeader | shortItem
deriving DecidableEq, Repr

/-- sequential read from file position `pos` while the reader's own offset counter `cnt` is below the index
    offset (the two differ only if a caller seeks without telling the counter) -/
def readFrom (f : Bytes) (indexOffset : Nat) : Nat → Nat → Nat → Except RErr (List Item)
  | 0, _, _ => .ok []
  | fuel + 1, pos, cnt =>
    if cnt ≥ indexOffset then .ok [] else
    match decItem (f.drop pos) with
    | none => .error .shortItem
    | some (it, n) =>
      match readFrom f indexOffset fuel (pos + n) (cnt + n) with
      | .ok rest => .ok (it :: rest)
      | .error e => .error e

structure Meta where
  indexOffset : Nat
  numKey : Nat
  datasize : Nat
deriving DecidableEq, Repr

/-- `hintFileReader.open`: header; an index offset of 0 means "no index": read to the end of file -/
def openMeta (f : Bytes) : Except RErr Meta :=
  if f.length < 16 then .error .badHeader else
  let (io, nk, ds) := Gen.hintMetaLoads (f.take 16)
  let io := io.toNatClampNeg
  .ok { indexOffset := if io = 0 then f.length else io, numKey := nk.toNatClampNeg, datasize := ds.toNat }

def readAll (f : Bytes) : Except RErr (List Item × Meta) :=
  match openMeta f with
  | .error e => .error e
  | .ok m =>
    match readFrom f m.indexOffset (f.length + 1) 16 16 with
    | .ok items => .ok (items, m)
    | .error e => .error e

/-- `loadHintIndex`: the (khash, offset) pairs stored after the items -/
def loadIndex (f : Bytes) : Except RErr (List (Nat × Nat)) :=
  if f.length < 16 then .error .badHeader else
  let (io, _, _) := Gen.hintMetaLoads (f.take 16)
  let raw := f.drop io.toNatClampNeg
  let n := raw.length / 16
  .ok ((List.range n).map (fun i => (getN 8 (raw.drop (16 * i)), getN 8 (raw.drop (16 * i + 8)))))

/-- scan of `hintFileIndex.get` from a file position -/
def lookupFrom (f : Bytes) (indexOffset : Nat) (kh : Nat) (key : Bytes) : Nat → Nat → Nat → Except RErr (Option Item)
  | 0, _, _ => .ok none
  | fuel + 1, pos, cnt =>
    if cnt ≥ indexOffset then .ok none else
    match decItem (f.drop pos) with
    | none => .error .shortItem
    | some (it, n) =>
      if it.khash < kh then lookupFrom f indexOffset kh key fuel (pos + n) (cnt + n)
      else if it.khash > kh then .ok none
      else if it.key = key then .ok (some it)
      else lookupFrom f indexOffset kh key fuel (pos + n) (cnt + n)

/-- `hintFileIndex.get(keyhash, key)`: binary search in the sparse index for the first entry with
    hash ≥ keyhash, start at the entry before it (only if that is not the first entry), scan forward.
    `syncCounter`: whether the reader's offset counter is moved along with the seek (true = the code after the
    fix of F19; false = the historical code, which left the counter at 16). -/
def lookup (syncCounter : Bool) (f : Bytes) (idx : List (Nat × Nat)) (kh : Nat) (key : Bytes) : Except RErr (Option Item) :=
  match openMeta f with
  | .error e => .error e
  | .ok m =>
    let j := (idx.takeWhile (fun p => p.1 < kh)).length        -- sort.Search: first i with arr[i].keyhash >= keyhash
    let start := if j > 1 then (idx.getD (j - 1) (0, 16)).2 else 16
    lookupFrom f m.indexOffset kh key (f.length + 1) start (if syncCounter then start else 16)

/-! merge -/

def posKey (it : Item) : Nat := it.chunk * 2^32 + it.off

/-- heap order of the merge: (khash, key, position) -/
def itemLt (a b : Item) : Bool :=
  if a.khash ≠ b.khash then a.khash < b.khash
  else if a.key ≠ b.key then a.key < b.key
  else posKey a < posKey b

def insertSorted (x : Item) : List Item → List Item
  | [] => [x]
  | y :: ys => if itemLt x y then x :: y :: ys else y :: insertSorted x ys

def sortItems (l : List Item) : List Item := l.foldr insertSorted []

/-- result of `merge`: per (khash, key) the item with the greatest position, in (khash, key) order;
    and every item of every group of ≥ 2 different keys sharing a hash (what goes to the collision table) -/
def merge (srcs : List (Nat × List Item)) : List Item × List Item :=
  let all := sortItems (srcs.flatMap (fun s => s.2.map (fun it => { it with chunk := s.1 })))
  -- keep the last of each run of equal (khash, key)
  let dedup := all.foldr (fun it acc => match acc with
    | nxt :: _ => if nxt.khash = it.khash ∧ nxt.key = it.key then acc else it :: acc
    | [] => [it]) []
  let groups := dedup.filter (fun it => (dedup.filter (fun o => o.khash = it.khash)).length > 1)
  (dedup, groups)

end Hint
