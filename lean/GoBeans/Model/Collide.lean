/-
  The COLLISION PATH of one bucket (property C13) — hand-written executable model of what the code does with keys
  whose 64-bit key hashes are equal:

    store/bucket.go     get (collision table first, then tree, key compare, hint fallback, compareAndSet of both keys),
                        checkAndSet (→ get(memOnly): "omit collision"), set (htree.set + hints.set), incr,
                        close / open (loadCollisions, tree dump, checkHintWithData, updateHtreeFromHint), dumpHtree
    store/collision.go  CollisionTable.get / compareAndSet (incl. `reason == "gc"`), dump / load (collision.yaml)
    store/hint.go       hintMgr.set (table update when the HASH is known), setItem, hintChunk.setItem / rotate,
                        trydump / dump / close / dumpAndMerge, getItem (merged, buffers, files — in that order),
                        getItemCollision, getCollisionGC, Merge, forceRotateSplit, ClearChunk, loadHintsByChunk
    store/hintmerge.go  merge: per (hash,key) the item of greatest position; collision reports
    store/gc.go         GCMgr.gc: BeforeBucket, newest decision (tree slot / collision table / in-memory hints),
                        relocation, UpdateHtreePos (movePos), hints.set("gc"), ClearChunk, trydump of the destination
    store/htree.go      one slot per key HASH (set / get / remove by hash / movePos)

  The state extends the non-colliding bucket of Model/Store.lean (`Store.Bucket`: data files, head, tree, nextGC) by the
  collision table, the hint manager (per data file: closed splits — buffer or dumped file — and the newest buffer,
  `maxChunkID`, `maxDumpedHintID`, the merged index) and what a restart reads from disk (tree dump with its id,
  collision.yaml; the hint split files are the `file` fields of the splits).  `hash` is an ARBITRARY function.
  Hint buffers are `HintIndex.Buf` (index + collisions maps, `Buf.set` = `HintBuffer.Set`).

  Modelled as the harness configures the store: no time-driven dumper (`mergeChan == nil`: a full split is dumped by
  the writer itself), `SecsBeforeDump < 0` (the silence test of `trydump` always passes), single client (post-rotation
  flush done before the next command), check_vhash as in Model/Store.lean.
  Core-only, executable, structural recursion only (so `decide` evaluates it).
-/
import GoBeans.Model.GC
import GoBeans.Model.HintIndex

namespace Collide
open Store Spec HintIndex

structure Cfg where
  s   : Store.Cfg := {}
  cap : Nat := 1048576           -- Conf.SplitCap
deriving Repr, Inhabited

/-! ### collision table (collision.go) -/

/-- `CollisionTable`: `Items map[uint64]map[string]HintItem` (the items carry FULL positions: `chunk` = data file)
    and the embedded `HintID` (only `Chunk` is ever read: `hintMgr.getItem`) -/
structure CTable where
  items    : List (Nat × List (Key × Item)) := []
  hidChunk : Nat := 0
  hidSplit : Int := 0
deriving Repr, Inhabited

/-- `CollisionTable.get` (collision.go:23-33): the item of the key if the key is in the table, and `ok` = the HASH is
    in the table (the inner `ok2` is shadowed) -/
def CTable.get (t : CTable) (h : Nat) (k : Key) : Option Item × Bool :=
  match AMap.get t.items h with
  | none => (none, false)
  | some m => (AMap.get m k, true)

/-- `Position.CmpKey` (item.go:199): `chunk << 32 + offset` -/
def cmpKey (it : Item) : Nat := it.chunk * 4294967296 + it.off

/-- `CollisionTable.compareAndSet(it, reason)` (collision.go:36-52): a new hash or a new key is entered; a known key is
    replaced if the reason is "gc" or the position is not smaller -/
def CTable.compareAndSet (t : CTable) (it : Item) (gc : Bool) : CTable :=
  match AMap.get t.items it.khash with
  | some m =>
    match AMap.get m it.key with
    | some old =>
      if gc || decide (cmpKey it ≥ cmpKey old) then { t with items := AMap.set t.items it.khash (AMap.set m it.key it) } else t
    | none => { t with items := AMap.set t.items it.khash (AMap.set m it.key it) }
  | none => { t with items := AMap.set t.items it.khash [(it.key, it)] }

/-! ### hint buffers, splits, chunks (hint.go) -/

def probe (h : Nat) (k : Key) : Item := { khash := h, chunk := 0, off := 0, ver := 0, vhash := 0, key := k }

/-- `HintBuffer.Get(keyhash, key)` (hint.go:166-182): the item and `iscollision` (the hash's index slot holds another
    key).  The lookup is the one `Set` does (`Buf.slot`) -/
def bufGet (b : Buf) (h : Nat) (k : Key) : Option Item × Bool :=
  ((b.slot (probe h k)).bind (fun i => b.items[i]?), b.isColl (probe h k))

/-- `hintSplit`: a closed split is a buffer not yet written, a written file, or (buffer gone, no file) nothing -/
structure HSplit where
  buf  : Option Buf := none
  file : Option SplitFile := none
deriving Repr, Inhabited

/-- `hintChunk.splits`: `old` = `splits[0 : l-1]`, `last` = the buffer of `splits[l-1]` (always a buffer, never a file) -/
structure HCk where
  old  : List HSplit := []
  last : Buf := {}
deriving Repr, Inhabited

/-- `hintSplit.needDump` (hint.go:213): `file == nil && buf != nil && buf.num > 0` -/
def HSplit.needDump (sp : HSplit) : Bool :=
  sp.file.isNone && (match sp.buf with | some b => !b.items.isEmpty | none => false)

/-- `hintMgr.dump` on one split (hint.go:358-377): the buffer is written sorted (`Buf.dump`), the buffer goes -/
def HSplit.dumped (sp : HSplit) : HSplit :=
  match sp.buf with
  | some b => { buf := none, file := some b.dump }
  | none => sp

/-- `HintID.setIfLarger` (hint.go:76-83; `isLarger` is ≥ on (chunk, split)) -/
def isLarger (id : Nat × Int) (ck : Nat) (sp : Int) : Bool := decide (ck > id.1) || (decide (ck = id.1) && decide (sp ≥ id.2))
def setIfLarger (id : Nat × Int) (ck : Nat) (sp : Int) : Nat × Int := if isLarger id ck sp then (ck, sp) else id

/-- `hintMgr`: the chunks, `maxChunkID` (0 in a new process; raised only by `setItem`), `maxDumpedHintID`, `merged` -/
structure Hints where
  chunks    : Nat → HCk := fun _ => {}
  maxChunk  : Nat := 0
  maxDumped : Nat × Int := (0, 0)
  merged    : Option (List Item) := none       -- items of the `*.idx.m` file (with data-file ids) while `h.merged != nil`
deriving Inhabited

def Hints.setCk (hs : Hints) (c : Nat) (ck : HCk) : Hints :=
  { hs with chunks := fun j => if j = c then ck else hs.chunks j }

/-- `hintChunk.rotate` (hint.go:228-238) -/
def HCk.rotate (ck : HCk) : HCk := { old := ck.old ++ [{ buf := some ck.last, file := none }], last := {} }

/-- `hintChunk.setItem` (hint.go:240-251): `Set` on the newest buffer; refused → rotate and `Set` on the fresh one -/
def HCk.setItem (cap : Nat) (ck : HCk) (it : Item) (sz : Nat) : HCk × Bool :=
  let r := ck.last.set cap it sz
  if r.2 then ({ ck with last := r.1 }, false)
  else ({ old := ck.old ++ [{ buf := some r.1, file := none }], last := (({} : Buf).set cap it sz).1 }, true)

/-- the loop "dump old splits" of `trydump` (hint.go:387-393): `splits[j]` for `j < l-1`, from index `j` on -/
def dumpOldGo (c : Nat) : Nat → List HSplit → Nat × Int → List HSplit × (Nat × Int)
  | _, [], md => ([], md)
  | j, sp :: rest, md =>
    let sp' := if sp.needDump then sp.dumped else sp
    let md' := if sp.needDump then setIfLarger md c j else md
    let r := dumpOldGo c (j + 1) rest md'
    (sp' :: r.1, r.2)

/-- `hintMgr.trydump(chunkID, dumplast)` (hint.go:379-413) with the silence time over: old splits that need it are
    dumped; unless (`!dumplast` and the chunk is `maxChunkID`) the newest split, if it holds items, is closed
    (`rotate`) and dumped.  (`lastTS == 0` implies an empty newest split, so that test adds nothing.) -/
def Hints.trydump (hs : Hints) (c : Nat) (dumplast : Bool) : Hints :=
  let ck := hs.chunks c
  let r := dumpOldGo c 0 ck.old hs.maxDumped
  if (!dumplast && c == hs.maxChunk) || ck.last.items.isEmpty then
    { hs.setCk c { ck with old := r.1 } with maxDumped := r.2 }
  else
    { hs.setCk c { old := r.1 ++ [{ buf := none, file := some ck.last.dump }], last := {} } with
      maxDumped := setIfLarger r.2 c r.1.length }

/-- `hintMgr.setItem` (hint.go:530-551) with `mergeChan == nil`: a rotation is followed by `trydump(chunk, false)` —
    evaluated with the OLD `maxChunkID` — then `maxChunkID` is raised -/
def Hints.setItem (cap : Nat) (hs : Hints) (it : Item) (c : Nat) (sz : Nat) : Hints × Bool :=
  let r := (hs.chunks c).setItem cap it sz
  let hs := hs.setCk c r.1
  let hs := if r.2 then hs.trydump c false else hs
  ({ hs with maxChunk := if c > hs.maxChunk then c else hs.maxChunk }, r.2)

/-- lookup in a written split file: `hintFileIndex.get` (hintindex.go:28-69) finds THE item with this hash and key -/
def fileGet (f : SplitFile) (h : Nat) (k : Key) : Option Item := f.items.find? (sameKey (probe h k))

/-- second phase of `hintChunk.get` (hint.go:288-303): from the split where the buffer walk stopped, downwards,
    FILES only (a split without a file is skipped: "lose hint split") -/
def fileGo (h : Nat) (k : Key) : List HSplit → Option Item
  | [] => none
  | sp :: rest =>
    match sp.file with
    | some f => (match fileGet f h k with | some it => some it | none => fileGo h k rest)
    | none => fileGo h k rest

/-- first phase, `hintChunk.getMemOnly` (hint.go:263-279), on the closed splits from the newest down: buffers until the
    first split without a buffer, where the file phase starts -/
def memGo (h : Nat) (k : Key) : List HSplit → Option Item
  | [] => none
  | sp :: rest =>
    match sp.buf with
    | some b => (match (bufGet b h k).1 with | some it => some it | none => memGo h k rest)
    | none => fileGo h k (sp :: rest)

/-- `hintChunk.get(keyhash, key, memOnly = false)` -/
def HCk.get (ck : HCk) (h : Nat) (k : Key) : Option Item :=
  match (bufGet ck.last h k).1 with
  | some it => some it
  | none => memGo h k ck.old.reverse

/-- lookup in the merged index: the item with its data-file id -/
def mergedGet (m : List Item) (h : Nat) (k : Key) : Option Item := m.find? (sameKey (probe h k))

/-- `hintMgr.getItem(keyhash, key, false)` (hint.go:573-599), chunks `i = n-1 … 0`: once `i ≤ collisions.Chunk` and a
    merged index is loaded, the merged index decides (found or not) and the search ENDS; else the chunk's buffers and
    files.  Result: the item (file-relative) and the data file id -/
def getItemGo (hs : Hints) (hid : Nat) (h : Nat) (k : Key) : Nat → Option (Item × Nat)
  | 0 => none
  | i + 1 =>
    match (if i ≤ hid then hs.merged else none) with
    | some m => (mergedGet m h k).map (fun it => ({ it with chunk := 0 }, it.chunk))
    | none =>
      match (hs.chunks i).get h k with
      | some it => some (it, i)
      | none => getItemGo hs hid h k i

def Hints.getItem (hs : Hints) (hid : Nat) (h : Nat) (k : Key) : Option (Item × Nat) :=
  getItemGo hs hid h k (hs.maxChunk + 1)

/-- `hintChunk.getItemCollision` (hint.go:601-617) on the splits from the newest down; `acc` = the named results so far.
    Result: (item, collision, stop).  Quirk kept: at a split without buffer the `collision` of the PREVIOUS split's
    `Get` is returned -/
def ckCollGo (h : Nat) (k : Key) : List (Option Buf) → Bool → Option Item × Bool × Bool
  | [], c => (none, c, false)
  | none :: _, c => (none, c, true)
  | some b :: rest, _ =>
    match bufGet b h k with
    | (some it, c') => (some it, c', false)
    | (none, c') => ckCollGo h k rest c'

def HCk.getItemCollision (ck : HCk) (h : Nat) (k : Key) : Option Item × Bool × Bool :=
  ckCollGo h k (some ck.last :: ck.old.reverse.map (·.buf)) false

/-- `hintMgr.getItemCollision` (hint.go:619-628): chunks from `maxChunkID` down; returns at the first chunk that reports
    `collision` or `stop` — a hit WITHOUT collision in a newer chunk is overwritten by the next chunk's result -/
def getItemCollGo (hs : Hints) (h : Nat) (k : Key) : Nat → Option Item × Nat × Bool → Option Item × Nat × Bool
  | 0, acc => acc
  | i + 1, _ =>
    let r := (hs.chunks i).getItemCollision h k
    let res := (r.1, (if r.1.isSome then i else 0), r.2.1)
    if r.2.1 || r.2.2 then res else getItemCollGo hs h k i res

def Hints.getItemCollision (hs : Hints) (h : Nat) (k : Key) : Option Item × Nat × Bool :=
  getItemCollGo hs h k (hs.maxChunk + 1) (none, 0, false)

/-! ### the bucket -/

structure State where
  b        : Store.Bucket := {}
  ct       : CTable := {}
  hs       : Hints := { maxDumped := (0, -1) }         -- a bucket opened on an empty directory: `maxDumpedHintID = TreeID`
  treeID   : Nat × Int := (0, -1)                      -- `Bucket.TreeID`
  treeFile : Option ((Nat × Int) × Tree) := none       -- the `*.idx.hash` file on disk: its id and content
  ctFile   : Option CTable := none                     -- collision.yaml on disk
deriving Inhabited

/-- `hintMgr.set(ki, meta, pos, recSize, reason)` (hint.go:519-528): if the HASH is in the collision table the key's
    entry is (created or) updated with the full position; then the item goes to the hint buffer of the data file -/
def hintSet (cap : Nat) (ct : CTable) (hs : Hints) (h : Nat) (k : Key) (ver : Int) (vhash : Nat) (pos : Pos) (sz : Nat)
    (gc : Bool) : CTable × Hints × Bool :=
  let it : Item := { khash := h, chunk := 0, off := pos.off, ver := ver, vhash := vhash, key := k }
  let ct := if (ct.get h k).2 then ct.compareAndSet { it with chunk := pos.chunk } gc else ct
  let r := hs.setItem cap it pos.chunk sz
  (ct, r.1, r.2)

inductive GetRes
  | miss                                  -- payload == nil, err == nil
  | err                                   -- read error / "bad htree item"
  | found (r : Rec) (ver : Int) (pos : Pos)
deriving Repr

/-- what `Bucket.get(ki, memOnly = true)` returns (bucket.go:412-436): version and value hash of the key's entry in the
    collision table if the KEY is there, else of the tree slot of the key HASH — whichever key owns it -/
def State.memMeta (hash : Key → Nat) (st : State) (k : Key) : Option TItem :=
  match (st.ct.get (hash k) k).1 with
  | some it => some { pos := { chunk := it.chunk, off := it.off }, ver := it.ver, vhash := it.vhash }
  | none => AMap.get st.b.tree (hash k)

/-- `Bucket.get(ki, memOnly = false)` (bucket.go:412-497) -/
def State.get (hash : Key → Nat) (st : State) (k : Key) : State × GetRes :=
  match st.memMeta hash k with
  | none => (st, .miss)
  | some m =>
    match st.b.readAt m.pos with
    | none => (st, .err)                                           -- GetRecordByPos fails
    | some rec =>
      if rec.key = k then (st, .found rec m.ver m.pos)             -- payload.Ver = meta.Ver
      else if hash rec.key ≠ hash k then (st, .err)                -- "bad htree item want … got …"
      else
        -- same key hash, different key
        match st.hs.getItem st.ct.hidChunk (hash k) k with
        | none => (st, .miss)
        | some (hit, chunkID) =>
          let it1 : Item := { khash := hash k, chunk := m.pos.chunk, off := m.pos.off, ver := rec.ver,
                              vhash := if rec.ver > 0 then vhashOf rec.body else 0, key := rec.key }
          let ct := st.ct.compareAndSet it1 false                  -- "get1": the one in htree
          let pos : Pos := { chunk := chunkID, off := hit.off }
          let ct := ct.compareAndSet { hit with chunk := chunkID } false   -- "get2": the one not in htree
          let st := { st with ct := ct }
          match st.b.readAt pos with
          | none => (st, .err)
          | some rec2 => (st, .found rec2 rec2.ver pos)            -- no key compare; the record's own version

/-- `Bucket.set` (bucket.go:402-410): append → `htree.set` (slot of the key HASH) → `hints.set` -/
def State.put (hash : Key → Nat) (cfg : Cfg) (st : State) (r : Rec) : State × Pos :=
  let (b, pos) := st.b.append cfg.s r
  let vh := if r.ver > 0 then vhashOf r.body else 0
  let b := { b with tree := AMap.set b.tree (hash r.key) { pos := pos, ver := r.ver, vhash := vh } }
  let x := hintSet cfg.cap st.ct st.hs (hash r.key) r.key r.ver vh pos r.size false
  ({ st with b := b, ct := x.1, hs := x.2.1 }, pos)

/-- `Bucket.checkAndSet` (bucket.go:352-400); `Store.checkAndSet` with the old meta taken from `memMeta` -/
def State.checkAndSet (hash : Key → Nat) (cfg : Cfg) (st : State) (k : Key) (body : Bytes) (flag : Nat) (rev : Int)
    (ts : Option Nat) (size : Nat) (wts : Nat) : State × CasResult :=
  let vh := if rev ≥ 0 then vhashOf body else 0
  let write := fun (v : Int) =>
    let p := st.put hash cfg { key := k, ver := v, flag := flag, ts := ts, body := body, size := size, wts := wts }
    (p.1, CasResult.done (some p.2))
  match st.memMeta hash k with
  | none =>
    if (nextVer 0 rev).2 = false then (st, .done none)
    else if (nextVer 0 rev).1 < 0 then (st, .notFound)
    else write (nextVer 0 rev).1
  | some it =>
    if (it.ver > 0 ∧ vh = it.vhash) ∧ cfg.s.checkVHash = true then
      (if rev ≠ 0 then { st with b := { st.b with tree := AMap.set st.b.tree (hash k) { it with ver := rev, vhash := vh } } } else st,
       .done none)
    else if (nextVer it.ver rev).2 = false then (st, .done none)
    else if (nextVer it.ver rev).1 < 0 ∧ it.ver < 0 then (st, .notFound)
    else write (nextVer it.ver rev).1

/-! ### dumper, merge -/

/-- `hintMgr.dumpAndMerge(false)` as far as it gets (hint.go:422-453): `trydump(i, false)` for every chunk; the merge
    behind it is unreachable (`h.state & HintStateDump` is always set at that point) -/
def Hints.dumpAll (hs : Hints) (n : Nat) : Hints := (List.range n).foldl (fun hs i => hs.trydump i false) hs

/-- all items of the `*.idx.s` files of one data file, with the data file id filled in (`mr.curr.Pos.ChunkID = chunkID`) -/
def ckFileItems (c : Nat) (ck : HCk) : List Item :=
  ck.old.flatMap (fun sp => match sp.file with | some f => f.items.map (fun it => { it with chunk := c }) | none => [])

/-- greatest (chunk, split) over the written split files, from `{0,0}` (`maxid.setIfLarger`, hint.go:489) -/
def ckMaxId (c : Nat) (ck : HCk) (id : Nat × Int) : Nat × Int :=
  (List.range ck.old.length).foldl (fun id j => if ((ck.old.getD j {}).file).isSome then setIfLarger id c j else id) id

/-- per (hash, key) the item of greatest position (`mergeHeap.Less` + `mergeWriter.write`: within one hash and key the
    items arrive in position order and the last one stays) -/
def mergeInsert (acc : List Item) (it : Item) : List Item :=
  match acc.find? (sameKey it) with
  | some old => if cmpKey it ≥ cmpKey old then acc.map (fun x => if sameKey it x then it else x) else acc
  | none => acc ++ [it]

def mergeWinners (all : List Item) : List Item := all.foldl mergeInsert []

/-- `mergeWriter.flush` (hintmerge.go:52-63): a run of ≥ 2 different keys with one hash is reported key by key -/
def mergeReport (ct : CTable) (win : List Item) : CTable :=
  win.foldl (fun ct it => if win.any (fun x => x.khash == it.khash && x.key != it.key) then ct.compareAndSet it false else ct) ct

/-- `hintMgr.Merge(forGC)` (hint.go:463-517): all split files of the bucket; collision reports; `collisions.HintID`;
    collision.yaml rewritten; the merged index is kept only when not for GC -/
def State.merge (st : State) (forGC : Bool) : State :=
  let n := st.b.head + 1
  let all := (List.range n).flatMap (fun c => ckFileItems c (st.hs.chunks c))
  let win := mergeWinners all
  let maxid := (List.range n).foldl (fun id c => ckMaxId c (st.hs.chunks c) id) ((0, 0) : Nat × Int)
  let ct := mergeReport st.ct win
  let ct := { ct with hidChunk := maxid.1, hidSplit := maxid.2 }
  { st with ct := ct, ctFile := some ct, hs := { st.hs with merged := if forGC then none else some win } }

/-! ### restart (Bucket.close, then Bucket.open) -/

/-- `hintMgr.loadHintsByChunk` + `Bucket.buildHintFromData` (= `Bucket.checkHintWithData`, bucket.go:153-164) for data
    file `c` with the split files `disk` found for it: the valid, loadable prefix is kept as file splits; if it does not
    reach the end of the data file, the records beyond are fed through `hintMgr.setItem` and `trydump(c, true)` -/
def Hints.checkHintWithData (hash : Key → Nat) (cap : Nat) (hs : Hints) (c : Nat) (recs : FileRecs) (size : Nat)
    (disk : List (Option SplitFile)) : Hints :=
  if size = 0 then hs else
  let ld := loadPrefix size (validPrefix disk) 0
  let hs := hs.setCk c { old := ld.1.map (fun f => { buf := none, file := some f }), last := {} }
  if ld.2 < size then
    let hs := (scanFrom ld.2 recs).foldl (fun hs p => (hs.setItem cap (itemOfScan hash p) c p.2.size).1) hs
    hs.trydump c true
  else hs

/-- the split files `updateHtreeFromHint` reads for a chunk: `splits[:len-1]` through `sp.file` -/
def HCk.files (ck : HCk) : List (List Item) := ck.old.filterMap (fun sp => sp.file.map (·.items))

/-- one chunk of the hint loop of `Bucket.open` (bucket.go:208-232) -/
def openChunk (hash : Key → Nat) (cap : Nat) (b : Bucket) (disk : Nat → List (Option SplitFile)) (tid : Nat × Int)
    (x : Hints × Tree) (i : Nat) : Hints × Tree :=
  let hs := x.1.checkHintWithData hash cap i (b.chunks i).recs (b.chunks i).size (disk i)
  if i < tid.1 then (hs, x.2) else
  let startsp : Int := if i = tid.1 then tid.2 + 1 else 0
  let n := (hs.chunks i).old.length
  if startsp ≥ (n : Int) then (hs, x.2)
  else ({ hs with maxDumped := (i, startsp + ((n : Int) - 1)) }, applySplits i x.2 (hs.chunks i).files)

/-- `Bucket.close` (flush, collision.yaml, all hint buffers, tree dump) followed — after the harness has removed the
    tree dump if `keepTree = false` — by `Bucket.open` in a new process -/
def State.reopen (hash : Key → Nat) (cfg : Cfg) (st : State) (keepTree : Bool) : State :=
  let chunks := fun i => { st.b.chunks i with flushed := (st.b.chunks i).recs.length }
  let cl := (List.range (st.b.head + 1)).map chunks
  match lastNonEmpty cl with
  | none =>
    -- no data file: close returns before dumping anything; open loads collision.yaml if there is one
    { b := { chunks := chunks, head := 0, tree := [], nextGC := st.b.nextGC },
      ct := st.ctFile.getD {}, hs := { maxDumped := (0, -1) }, treeID := (0, -1), treeFile := none, ctFile := st.ctFile }
  | some mx =>
    -- close
    let hs1 := (List.range (st.hs.maxChunk + 1)).foldl (fun hs i => hs.trydump i true) st.hs
    let dump := isLarger st.treeID hs1.maxDumped.1 hs1.maxDumped.2
    let tf1 := if dump then some (hs1.maxDumped, st.b.tree) else st.treeFile
    let tf := if keepTree then tf1 else none
    -- open
    let loaded : Option ((Nat × Int) × Tree) := match tf with
      | some (id, t) => if id.1 > mx then none else some (id, t)
      | none => none
    let tid : Nat × Int := match loaded with | some (id, _) => id | none => (0, -1)
    let tree0 : Tree := match loaded with | some (_, t) => t | none => []
    let b0 : Bucket := { chunks := chunks, head := mx + 1, tree := [], nextGC := st.b.nextGC }
    let disk := fun i => (hs1.chunks i).old.map (·.file)
    let hs0 : Hints := { maxDumped := tid }
    -- the loop from TreeID.Chunk on, then the background check of the chunks below it
    let x := ((List.range (mx + 1)).filter (fun i => decide (tid.1 ≤ i))).foldl (openChunk hash cfg.cap b0 disk tid) (hs0, tree0)
    let x := ((List.range (mx + 1)).filter (fun i => decide (i < tid.1))).foldl (openChunk hash cfg.cap b0 disk tid) x
    -- checkForDump / dumpHtree: only when no tree file is left
    let dumpNow := loaded.isNone
    { b := { b0 with tree := x.2 }, ct := st.ct, hs := x.1,
      treeID := if dumpNow then x.1.maxDumped else tid,
      treeFile := if dumpNow then some (x.1.maxDumped, x.2) else loaded,
      ctFile := some st.ct }

/-! ### GC (gc.go) -/

/-- `hintMgr.getCollisionGC` (hint.go:734-747, after repair 667fdc2) -/
def State.getCollisionGC (st : State) (h : Nat) (k : Key) : Option Item × Nat × Bool :=
  match st.ct.get h k with
  | (some it, true) => (some it, it.chunk, true)
  | (_, known) =>
    let r := st.hs.getItemCollision h k
    (r.1, r.2.1, r.2.2 || known)

/-- state of a pass: the data part is `Store.GcSt`, the rest of the bucket rides along in `st` (whose `b` is kept equal
    to `g.b`) -/
structure GcC where
  g  : GcSt
  st : State

/-- the newest decision of `GCMgr.gc` for the record `r` at `oldPos` (gc.go:262-299): (isNewest, value hash for the hint) -/
def gcNewest (hash : Key → Nat) (begin : Nat) (st : State) (oldPos : Pos) (r : Rec) : Bool × Nat :=
  let rvh := if r.ver > 0 then vhashOf r.body else 0
  match AMap.get st.b.tree (hash r.key) with
  | some ti =>
    if ti.pos == oldPos then (true, ti.vhash)
    else
      let c := st.getCollisionGC (hash r.key) r.key
      if c.2.2 then
        match c.1 with
        | some hit => if (({ chunk := c.2.1, off := hit.off } : Pos) == oldPos) then (true, hit.vhash) else (false, rvh)
        | none => (true, if r.ver < 0 then 0 else vhashOf r.body)         -- "guess": `rec.Payload.Getvhash()` (0 for a delete marker)
      else (false, rvh)
  | none => (decide (begin > 0) && decide (r.ver < 0), rvh)

/-- one record of the source file (gc.go:246-346) -/
def gcRecord (hash : Key → Nat) (cfg : Cfg) (begin src : Nat) (s : GcC) (off : Nat) (r : Rec) : GcC :=
  let oldPos : Pos := { chunk := src, off := off }
  let nw := gcNewest hash begin s.st oldPos r
  let newest := nw.1
  let g := s.g
  let stats := { g.stats with numBefore := g.stats.numBefore + 1, sizeBefore := g.stats.sizeBefore + r.size,
                              numReleased := g.stats.numReleased + (if newest then 0 else 1),
                              sizeReleased := g.stats.sizeReleased + (if newest then 0 else r.size) }
  if !newest then { s with g := { g with stats := stats } } else
  -- destination full: end it (and dump its hint), continue in the next file
  let g1 := if r.size + g.wh > cfg.s.dataFileMax then gcBegin g.endWriting (g.dst + 1) src stats else { g with stats := stats }
  let hs1 := if r.size + g.wh > cfg.s.dataFileMax then s.st.hs.trydump g.dst true else s.st.hs
  let newPos : Pos := { chunk := g1.dst, off := g1.wh }
  -- UpdateHtreePos → movePos: only an item that still points at oldPos moves
  let tree := match AMap.get s.st.b.tree (hash r.key) with
    | some ti => if ti.pos == oldPos then AMap.set g1.b.tree (hash r.key) { ti with pos := newPos } else g1.b.tree
    | none => g1.b.tree
  let g2 := { g1 with b := { g1.b with tree := tree }, out := g1.out ++ [(g1.wh, r)], wh := g1.wh + r.size }
  -- hints.set(ki, &meta, newPos, recsize, "gc"); a rotation is followed by one more trydump(dst, false)
  let x := hintSet cfg.cap s.st.ct hs1 (hash r.key) r.key r.ver nw.2 newPos r.size true
  let hs2 := if x.2.2 then x.2.1.trydump g1.dst false else x.2.1
  { g := g2, st := { s.st with b := g2.b, ct := x.1, hs := hs2 } }

/-- `hintMgr.ClearChunk` (hint.go:723-726) -/
def Hints.clearChunk (hs : Hints) (c : Nat) : Hints := hs.setCk c {}

/-- one source file (gc.go:224-366) -/
def gcFile (hash : Key → Nat) (cfg : Cfg) (begin : Nat) (s : GcC) (src : Nat) : GcC :=
  let c := s.g.b.chunks src
  if c.size = 0 then s else
  let s := { s with st := { s.st with hs := s.st.hs.clearChunk src } }
  let s := c.recs.foldl (fun s (p : Nat × Rec) => gcRecord hash cfg begin src s p.1 p.2) s
  let b := if src ≠ s.g.dst then s.g.b.setChunk src {} else s.g.b
  let b := { b with nextGC := max b.nextGC (src + 1) }
  { g := { s.g with b := b }, st := { s.st with b := b } }

/-- `GCMgr.BeforeBucket` (gc.go:93-120) -/
def State.beforeGC (st : State) (merge : Bool) : State :=
  let st :=
    if merge then
      -- forceRotateSplit (the chunk `maxChunkID`), dumpAndMerge(true), Merge(true)
      let hs := st.hs.setCk st.hs.maxChunk (st.hs.chunks st.hs.maxChunk).rotate
      let hs := hs.dumpAll (st.b.head + 1)
      ({ st with hs := hs }).merge true
    else { st with hs := { st.hs with merged := none } }          -- RemoveMerged
  { st with treeFile := none, treeID := (0, 0) }                   -- removeHtree

/-- `GCMgr.gc(bkt, begin, end, merge)` on a quiescent bucket -/
def State.gcRun (hash : Key → Nat) (cfg : Cfg) (st : State) (begin stop : Nat) (merge : Bool) : State × GcStats :=
  let st := st.beforeGC merge
  let dst := gcDst cfg.s st.b begin
  let g0 := gcBegin st.b dst begin {}
  let s0 : GcC := { g := g0, st := { st with b := g0.b } }
  let s := (List.range (stop + 1 - begin)).foldl (fun s i => gcFile hash cfg begin s (begin + i)) s0
  -- deferred: endGCWriting, trydump(gc.Dst, true)
  let b := s.g.endWriting
  ({ s.st with b := b, hs := s.st.hs.trydump s.g.dst true }, s.g.stats)

/-! ### operations -/

inductive Op
  | set (k : Key) (body : Bytes) (flag : Nat) (rev : Int) (ts : Nat) (size : Nat)
  | delete (k : Key) (size : Nat) (wts : Nat)
  | incr (k : Key) (delta : Int) (size : Nat) (wts : Nat)
  | get (k : Key)
  | info (k : Key)
  | flush
  | reopen (keepTree : Bool)
  | hintDump                                  -- the hint dumper's round: `dumpAndMerge(false)`
  | hintMerge                                 -- `hintMgr.Merge(false)`
  | gc (g : GcArgs) (merge : Bool)            -- a GC request: range resolution, then the pass
deriving Repr

/-- what a GC request did: refused, or the resolved range and the statistics of the pass -/
def State.gcOp (hash : Key → Nat) (cfg : Cfg) (st : State) (g : GcArgs) (merge : Bool) :
    State × Option (Nat × Nat × GcStats) :=
  match gcCheckRange cfg.s st.b g with
  | .error _ => (st, none)
  | .ok (s, e) => let r := st.gcRun hash cfg s e merge; (r.1, some (s, e, r.2))

def step (hash : Key → Nat) (cfg : Cfg) (st : State) : Op → State × Reply × Option Pos
  | .set k body flag rev ts size =>
    match st.checkAndSet hash cfg k body flag rev (some ts) size ts with
    | (st', .done pos) => (st', .stored, pos)
    | (st', .notFound) => (st', .error, none)
  | .delete k size wts =>
    match st.checkAndSet hash cfg k [] 0 (-1) none size wts with
    | (st', .done pos) => (st', .deleted, pos)
    | (st', .notFound) => (st', .notFound, none)
  | .incr k delta size wts =>
    let r := st.get hash k
    let write := fun (ver : Int) (v : Int) =>
      let p := r.1.put hash cfg { key := k, ver := ver, flag := Spec.FLAG_INCR, ts := none, body := Spec.itoa v, size := size, wts := wts }
      (p.1, Reply.num v, some p.2)
    match r.2 with
    | .miss => write 1 delta
    | .err => (r.1, .num 0, none)
    | .found rec ver _ =>
      if ver ≤ 0 then write 1 delta
      else if rec.flag ≠ Spec.FLAG_INCR then (r.1, .num 0, none)
      else if rec.body.length > 22 then (r.1, .num 0, none)
      else match Spec.parseInt rec.body with
        | none => (r.1, .num 0, none)
        | some old => write (ver + 1) (Spec.wrap64 (old + delta))
  | .get k =>
    let r := st.get hash k
    match r.2 with
    | .miss => (r.1, .miss, none)
    | .err => (r.1, .error, none)
    | .found rec ver pos => if ver > 0 then (r.1, .value rec.flag rec.body, some pos) else (r.1, .miss, some pos)
  | .info k =>
    let r := st.get hash k
    match r.2 with
    | .miss => (r.1, .miss, none)
    | .err => (r.1, .error, none)
    | .found rec ver pos => (r.1, .info ver (if ver > 0 then vhashOf rec.body else 0) rec.flag rec.body.length rec.ts, some pos)
  | .flush =>
    let c := st.b.chunk st.b.head
    ({ st with b := st.b.setChunk st.b.head { c with flushed := c.recs.length } }, .stored, none)
  | .reopen keepTree => (st.reopen hash cfg keepTree, .stored, none)
  | .hintDump => ({ st with hs := st.hs.dumpAll (st.b.head + 1) }, .stored, none)
  | .hintMerge => (st.merge false, .stored, none)
  | .gc g merge => ((st.gcOp hash cfg g merge).1, .stored, none)

/-- the client command an operation stands for -/
def cmdOf : Op → Option Spec.Cmd
  | .set k body flag rev ts _ => some (.set k body flag rev ts)
  | .delete k _ _ => some (.delete k)
  | .incr k d _ _ => some (.incr k d)
  | .get k => some (.get k)
  | .info k => some (.info k)
  | _ => none

/-- run a history; collect the replies to client commands -/
def run (hash : Key → Nat) (cfg : Cfg) : State → List Op → State × List Reply
  | st, [] => (st, [])
  | st, op :: ops =>
    let r := step hash cfg st op
    let rs := run hash cfg r.1 ops
    (rs.1, match cmdOf op with | some _ => r.2.1 :: rs.2 | none => rs.2)

end Collide
