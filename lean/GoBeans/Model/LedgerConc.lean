/-
  Several connections, the request limiter and the flusher, interleaved at the granularity of the single ledger
  operation (C12 on 1..8 CONCURRENT connections; the model puts no bound on their number).

  Model/Proto.lean serves one command of one connection as ONE step and threads the ledger through it.  Here a
  command is the LIST OF ATOMIC LEDGER MICRO-OPERATIONS the code performs, in the order the code performs them:
    memcache/token.go      ReqLimiter.Get  (`t := <-rl.Chan`, blocks while the channel is empty) / ReqLimiter.Put
    cmem/cmem.go           ResourceLimiter.AddSize / AddCount / SubSize / SubCount — one `atomic.AddInt64` each;
                           AddSizeAndCount = AddSize then AddCount, SubSizeAndCount = SubSize then SubCount;
                           CArray.Alloc (AllocRL.AddSizeAndCount above BodyInC), CArray.Free
    memcache/protocol.go   Request.Read (token, body allocation, SetData), Request.Process, Response.CleanBuffer
    memcache/server.go     ServerConn.ServeOnce (order: Read, Process, reply, deferred CleanBuffer, deferred RL.Put)
    gobeansdb/store.go     StorageClient.Set / Get / GetMulti / Incr (hand-over or release of the body, read buffers)
    store/hstore.go        HStore.Set / Incr (bucket not ready)
    store/bucket.go        Bucket.checkAndSet / get / incr
    store/data.go          dataStore.AppendRecord (record enters the write buffer: FlushData += , SetData -=)
    store/datachunk.go     dataChunk.GetRecordByOffset (GetData), dataChunk.flush (the flusher: FlushData -=, Free)
    store/datafile.go      readRecordAt (read buffer allocation, GetData)
    store/item.go          Record.TryCompress, Payload.Decompress (buffer replaced, size difference added)

  Global state = the shared ledger + the buffers the write buffer owns + one program counter per connection
  (`done`/`todo` of the command in flight, the commands still to come, and — ghost — the commands completed) + the
  flusher threads.  A schedule is a list
  of `Action`s; `step` performs one micro-operation of the chosen thread if it is enabled (a token take is enabled
  only while a token is free), `run` folds a schedule (a disabled choice is skipped: every list is a schedule).

  The op lists are derived per command kind and per outcome (`Outcome`, `microOps`); `outcomeOf` maps a served
  command of Model/Proto.lean to its outcome and Lemmas/LedgerConc.lean proves that folding `microOps` over the
  ledger gives exactly the ledger and the write-buffer ownership `Proto.serveOnce` produces.

  Paths that do NOT give back what they took are modelled as they are (`Outcome.clean = false`):
    * `recv_timeout` after a store command / incr was parsed (server.go:125-131; req.Clear drops the item),
    * a short read of the key/value bytes in readRecordAt (datafile.go:140-154: `kv` is never freed),
    * a failed Decompress after `GetData.AddSize(diff)` (datachunk.go:160-161, 168-169),
    * a panic inside the read of a get (`SizeDecompressed` on a too short body carrying the compression flag):
      the deferred recover sees `resp == nil`, nothing is cleaned (`Outcome.getPanic`).
  Not modelled: panics elsewhere inside Process (same mechanism: whatever is held stays held), the OOM refusal
  (it happens before the token is taken: `Outcome.plain`), locks (bucket write lock, dataStore lock, chunk lock: no
  ledger operation blocks while holding one; the token is taken before any of them).
  Core-only, executable.
-/
import GoBeans.Model.Proto

namespace LedgerConc
open Proto (Ledger Buf Cfg)

/-! ### the ledger as a vector -/

/-- all nine components zero (a ledger DIFFERENCE; the ledger of an idle server is `Proto.zero`-like: tokens = maxReq) -/
def nil : Ledger := { tokens := 0 }

def plus (a b : Ledger) : Ledger :=
  { getC := a.getC + b.getC, getS := a.getS + b.getS, setC := a.setC + b.setC, setS := a.setS + b.setS,
    flushC := a.flushC + b.flushC, flushS := a.flushS + b.flushS, allocC := a.allocC + b.allocC,
    allocS := a.allocS + b.allocS, tokens := a.tokens + b.tokens }

def neg (a : Ledger) : Ledger :=
  { getC := -a.getC, getS := -a.getS, setC := -a.setC, setS := -a.setS, flushC := -a.flushC, flushS := -a.flushS,
    allocC := -a.allocC, allocS := -a.allocS, tokens := -a.tokens }

instance : Add Ledger := ⟨plus⟩
instance : Neg Ledger := ⟨neg⟩
instance : Sub Ledger := ⟨fun a b => plus a (neg b)⟩

def vsum : List Ledger → Ledger
  | [] => nil
  | x :: xs => x + vsum xs

/-- the ledger of a server with nothing in flight and nothing buffered (`InitTokens`, `DBRL.ResetAll`) -/
def zero (cfg : Cfg) : Ledger := { tokens := cfg.maxReq }

/-! ### micro-operations -/

/-- the eight published counters (`cmem.DBRL`: GetData, SetData, FlushData, AllocRL; Count and Size of each) -/
inductive Ctr
  | getC | getS | setC | setS | flushC | flushS | allocC | allocS
deriving DecidableEq, Repr, Inhabited

inductive LedgerOp
  | tokGet                     -- token.go:45  `t := <-rl.Chan`      (blocks while no token is free)
  | tokPut                     -- token.go:76  `rl.Chan <- t`
  | add (c : Ctr) (d : Int)    -- cmem.go:48,55,59,66  one atomic.AddInt64 on one counter
  | push (b : Buf)             -- data.go:85 / datachunk.go:48  the record (Ver > 0) enters the write buffer: it owns `b` now
  | io                         -- no ledger effect: network read of a body, reply write, file read / write
deriving DecidableEq, Repr, Inhabited

def Ctr.vec (c : Ctr) (d : Int) : Ledger :=
  match c with
  | .getC => { nil with getC := d }
  | .getS => { nil with getS := d }
  | .setC => { nil with setC := d }
  | .setS => { nil with setS := d }
  | .flushC => { nil with flushC := d }
  | .flushS => { nil with flushS := d }
  | .allocC => { nil with allocC := d }
  | .allocS => { nil with allocS := d }

/-- what one micro-operation adds to the ledger -/
def delta : LedgerOp → Ledger
  | .tokGet => { nil with tokens := -1 }
  | .tokPut => { nil with tokens := 1 }
  | .add c d => c.vec d
  | .push _ => nil
  | .io => nil

def applyOp (l : Ledger) (op : LedgerOp) : Ledger := l + delta op

def applyOps (ops : List LedgerOp) (l : Ledger) : Ledger := ops.foldl applyOp l

/-- the total effect of a list of micro-operations -/
def eff (ops : List LedgerOp) : Ledger := vsum (ops.map delta)

def pushOf : LedgerOp → List Buf
  | .push b => [b]
  | _ => []

/-- the buffers handed to the write buffer -/
def pushes (ops : List LedgerOp) : List Buf := ops.flatMap pushOf

/-- `<-rl.Chan` needs a free token; everything else is a non-blocking atomic add (or I/O the environment completes) -/
def enabled (l : Ledger) : LedgerOp → Bool
  | .tokGet => decide (0 < l.tokens)
  | _ => true

/-- what ownership of a buffer by the write buffer contributes: FlushData count/size and, for a C buffer, AllocRL -/
def ownVec (b : Buf) : Ledger :=
  { nil with flushC := 1, flushS := b.cap, allocC := if b.inC then 1 else 0, allocS := if b.inC then b.cap else 0 }

def ownSum (bs : List Buf) : Ledger := vsum (bs.map ownVec)

/-! ### building blocks (cmem) -/

/-- `ResourceLimiter.AddSizeAndCount(n)`: AddSize then AddCount (cmem.go:37-40) -/
def addSC (s c : Ctr) (n : Int) : List LedgerOp := [.add s n, .add c 1]
/-- `ResourceLimiter.SubSizeAndCount(n)`: SubSize then SubCount (cmem.go:42-45) -/
def subSC (s c : Ctr) (n : Int) : List LedgerOp := [.add s (-n), .add c (-1)]

/-- `CArray.Alloc` (cmem.go:75-94): counted in AllocRL only when malloc'ed -/
def allocOps (b : Buf) : List LedgerOp := if b.inC then addSC .allocS .allocC b.cap else []
/-- `CArray.Free` (cmem.go:96-104) -/
def freeOps (b : Buf) : List LedgerOp := if b.inC then subSC .allocS .allocC b.cap else []

/-! ### reading a record (`dataChunk.GetRecordByOffset`) -/

/-- the buffer a record is read into — `Copy` of the buffered record (datachunk.go:142-143; a Go-heap copy has
    Cap 0) or `kv.Alloc(ksz+vsz)` in readRecordAt (datafile.go:140-145) — and, for a compressed record, the
    buffer `Payload.Decompress` replaces it with (item.go:170-176) -/
structure RdBuf where
  raw : Buf
  dec : Option Buf := none
deriving DecidableEq, Repr, Inhabited

/-- the buffer the caller ends up with -/
def RdBuf.fin (r : RdBuf) : Buf := r.dec.getD r.raw

/-- Alloc; GetData.AddSizeAndCount(Cap); (file read); GetData.AddSize(DiffSizeAfterDecompressed()) — executed also when the
    difference is 0 —; Decompress: CDecompressSafe allocates, the old buffer is freed (datachunk.go:160-161, 168-169) -/
def readOps (r : RdBuf) : List LedgerOp :=
  allocOps r.raw ++ addSC .getS .getC r.raw.cap ++ [.io, .add .getS ((r.fin.cap : Int) - r.raw.cap)]
    ++ (match r.dec with
        | some d => allocOps d ++ freeOps r.raw
        | none => [])

/-- `GetData.SubSizeAndCount(Cap)`; `CArray.Free()` (protocol.go:451-453, store.go:120-121, 145-146, 190-191,
    bucket.go:462-463, 542-543, 551-552) -/
def releaseOps (b : Buf) : List LedgerOp := subSC .getS .getC b.cap ++ freeOps b

/-- what `Bucket.get(ki, false)` + the storage client do for one key -/
inductive KeyRead
  | miss                              -- nothing read: key not in the tree, bucket not ready, '@' listing, "@collision_", invalid key
  | transient (r : RdBuf)             -- read and released inside the call: tombstone (store.go:189-192), '?' meta
                                      -- (store.go:120-121), "@@" dump (store.go:145-146), other key with another hash or an
                                      -- unresolved collision (bucket.go:461-464), crc mismatch (datafile.go:162-167)
  | hit (r : RdBuf)                   -- returned to the caller, who holds it (store.go:194-197)
  | collision (r1 r2 : RdBuf)         -- same hash, other key: r1 read, r2 read through the hint and returned, r1 released by
                                      -- the deferred function when `get` returns (bucket.go:461-464, 500-506)
  | readErrLeak (b : Buf)             -- DEFECT datafile.go:140-154: short read of the key/value bytes: GetData is uncounted but
                                      -- `kv` was never stored into the payload the deferred Free (datafile.go:118) frees
  | decompFailLeak (raw : Buf) (diff : Int)
                                      -- DEFECT datachunk.go:160-161,168-169: AddSize(diff) then Decompress fails (error ignored):
                                      -- the buffer stays `raw`, is returned as a hit, and only raw.cap is uncounted later
deriving DecidableEq, Repr, Inhabited

def keyOps : KeyRead → List LedgerOp
  | .miss => []
  | .transient r => readOps r ++ releaseOps r.fin
  | .hit r => readOps r
  | .collision r1 r2 => readOps r1 ++ readOps r2 ++ releaseOps r1.fin
  | .readErrLeak b => allocOps b ++ addSC .getS .getC b.cap ++ [.io] ++ subSC .getS .getC b.cap
  | .decompFailLeak raw diff => allocOps raw ++ addSC .getS .getC raw.cap ++ [.io, .add .getS diff]

/-- the buffers the caller holds after the call -/
def keyHeld : KeyRead → List Buf
  | .hit r => [r.fin]
  | .collision _ r2 => [r2.fin]
  | .decompFailLeak raw _ => [raw]
  | _ => []

def KeyRead.clean : KeyRead → Bool
  | .readErrLeak _ => false
  | .decompFailLeak _ _ => false
  | _ => true

/-! ### compression on the write path (`Record.TryCompress`, item.go:120-164) -/

/-- one call of TryCompress: the trial buffers allocated and freed again (`CCompress(try)` when the ratio is poor or
    the body is longer than the sample, item.go:143-154) and the compressed buffer that replaces the body, if any -/
structure Attempt where
  tries : List Buf := []
  comp : Option Buf := none
deriving DecidableEq, Repr, Inhabited

def Attempt.out (cur : Buf) (a : Attempt) : Buf := a.comp.getD cur

/-- TryCompress followed by `SetData.AddSize(newCap - oldCap)` (bucket.go:354-356, data.go:67-69; the add is executed
    also when nothing changed) -/
def compressOps (cur : Buf) (a : Attempt) : List LedgerOp :=
  a.tries.flatMap (fun t => allocOps t ++ freeOps t)
    ++ (match a.comp with
        | some c => allocOps c ++ freeOps cur
        | none => [])
    ++ [.add .setS (((a.out cur).cap : Int) - cur.cap)]

/-! ### outcomes of a served command -/

/-- how a store command (set add replace cas append prepend) ends once its header line was accepted -/
inductive StoreEnd
  | allocFail                         -- protocol.go:226-229 malloc failed: token held, nothing counted, CLIENT_ERROR
  | cut                               -- protocol.go:233-251 body or terminator missing / wrong: uncount, free, error (or close)
  | recvTimeoutLeak                   -- DEFECT server.go:125-131 body complete but overdue: RECV_TIMEOUT is answered, Process never
                                      -- runs, `req.Clear()` (protocol.go:83-88) drops the item: SetData and the C buffer stay
  | append                            -- protocol.go:538-547 append / prepend: not supported, buffer released by Process
  | dropped                           -- store.go:43-56 invalid key / negative revision; hstore.go:386-389 bucket not ready
  | refused (a : Attempt)             -- bucket.go:349-366 compressed, then not written (same value hash, stale revision, NOT_FOUND)
  | written (a1 a2 : Attempt)         -- bucket.go:349-398 + data.go:65-91: TryCompress in checkAndSet and again in AppendRecord,
                                      -- record appended to the chunk's write buffer, FlushData += then SetData -=
deriving DecidableEq, Repr, Inhabited

inductive IncrEnd
  | early                             -- decr (protocol.go:586), non-numeric delta (:568), invalid key (store.go:225), bucket
                                      -- not ready (hstore.go:412)
  | failed (old : KeyRead)            -- bucket.go:514-547: old value read, not a counter (or read error): released, uncounted
  | written (old : KeyRead) (a : Attempt)   -- bucket.go:549-563 + data.go:65-91: old value released, new record (Go-heap body, Cap 0) appended
  | recvTimeoutLeak                   -- DEFECT server.go:125-131: SetData.Count stays incremented
deriving DecidableEq, Repr, Inhabited

inductive Outcome
  | plain                             -- no ledger operation: delete, stats, version, verbosity, flush_all, quit, unknown command, and
                                      -- every refusal of Request.Read before RL.Get (stream ended in the line, bad line, arity, numbers,
                                      -- length, noreply word, ErrOOM)
  | get (keys : List KeyRead) (rel : List Buf)
                                      -- get / gets: token; per key (first occurrences, in order) the read; reply; CleanBuffer releases
                                      -- the items in MAP order `rel`; token back.  Key-length error / recv_timeout: `get [] []`.
  | getPanic (keys : List KeyRead) (raw : Buf)
                                      -- DEFECT datachunk.go:160 / 168 → item.go:84 → quicklz.go:39-58: a record carrying the
                                      -- compression flag whose body is shorter than the quicklz header makes SizeDecompressed index
                                      -- past the body AFTER the read buffer `raw` was allocated and counted; the panic is recovered by
                                      -- ServeOnce (server.go:70-83) with `resp == nil`: no reply, no CleanBuffer — `raw` and every
                                      -- buffer the earlier keys of the same get returned stay counted; only the token goes back
  | store (body : Buf) (e : StoreEnd)
  | incr (e : IncrEnd)
deriving DecidableEq, Repr, Inhabited

/-- Request.Read of a store command up to the body: RL.Get; item.Alloc(length); SetData.AddSizeAndCount(Cap);
    io.ReadFull(body) — the token is held while the body travels (protocol.go:224-233) -/
def storeHead (body : Buf) : List LedgerOp := [.tokGet] ++ allocOps body ++ addSC .setS .setC body.cap ++ [.io]

/-- reply written (server.go:170-175), then the deferred `RL.Put` (server.go:80-82) -/
def tail : List LedgerOp := [.io, .tokPut]

/-- Request.Read of incr / decr: `SetData.AddCount(1)` BEFORE `RL.Get` (protocol.go:270-271): a connection waiting
    for a token already holds the count -/
def incrHead : List LedgerOp := [.add .setC 1, .tokGet]

/-- AppendRecord from the append to the hand-over (data.go:85-91): the record is in the chunk's buffer, then
    FlushData.AddSizeAndCount, then SetData.SubSizeAndCount -/
def handOver (b : Buf) : List LedgerOp := [.push b] ++ addSC .flushS .flushC b.cap ++ subSC .setS .setC b.cap

/-- the ledger micro-operations of one served command, in program order -/
def microOps : Outcome → List LedgerOp
  | .plain => []
  | .get keys rel => [.tokGet] ++ keys.flatMap keyOps ++ [.io] ++ rel.flatMap releaseOps ++ [.tokPut]
  | .getPanic keys raw => [.tokGet] ++ keys.flatMap keyOps ++ allocOps raw ++ addSC .getS .getC raw.cap ++ [.tokPut]
  | .store body e =>
    match e with
    | .allocFail => [.tokGet] ++ tail
    | .cut => storeHead body ++ subSC .setS .setC body.cap ++ freeOps body ++ tail
    | .recvTimeoutLeak => storeHead body ++ tail
    | .append => storeHead body ++ subSC .setS .setC body.cap ++ freeOps body ++ tail
    | .dropped => storeHead body ++ subSC .setS .setC body.cap ++ freeOps body ++ tail
    | .refused a =>
      storeHead body ++ compressOps body a ++ subSC .setS .setC (a.out body).cap ++ freeOps (a.out body) ++ tail
    | .written a1 a2 =>
      storeHead body ++ compressOps body a1 ++ compressOps (a1.out body) a2 ++ handOver (a2.out (a1.out body)) ++ tail
  | .incr e =>
    match e with
    | .early => incrHead ++ [.add .setC (-1)] ++ tail
    | .failed old => incrHead ++ keyOps old ++ (keyHeld old).flatMap releaseOps ++ [.add .setC (-1)] ++ tail
    | .written old a =>
      incrHead ++ keyOps old ++ (keyHeld old).flatMap releaseOps
        ++ compressOps { cap := 0, inC := false } a ++ handOver (a.out { cap := 0, inC := false }) ++ tail
    | .recvTimeoutLeak => incrHead ++ tail

/-- the outcomes on which the code gives back everything it took (all but the four defects) -/
def Outcome.clean : Outcome → Bool
  | .plain => true
  | .get keys _ => keys.all KeyRead.clean
  | .getPanic _ _ => false
  | .store _ e => (match e with | .recvTimeoutLeak => false | _ => true)
  | .incr e =>
    match e with
    | .recvTimeoutLeak => false
    | .failed old => old.clean
    | .written old _ => old.clean
    | .early => true

/-! ### token discipline of an op list -/

/-- starting with (`h` = true) or without a token: never a second take, never a put without a take, nothing held at
    the end -/
def tokWF : Bool → List LedgerOp → Bool
  | h, [] => !h
  | h, .tokGet :: r => !h && tokWF true r
  | h, .tokPut :: r => h && tokWF false r
  | h, _ :: r => tokWF h r

/-- does the thread hold a token after these operations (starting with `h`) -/
def holdingFrom : Bool → List LedgerOp → Bool
  | h, [] => h
  | _, .tokGet :: r => holdingFrom true r
  | _, .tokPut :: r => holdingFrom false r
  | h, _ :: r => holdingFrom h r

def holding (done : List LedgerOp) : Bool := holdingFrom false done

/-! ### threads, global state, scheduler -/

/-- a connection: the command in flight (`done` performed, `todo` still to do), the commands still to come, and
    (ghost) the commands it has completed; a connection that has closed (also: closed in the middle of a body,
    `StoreEnd.cut`) has none left -/
structure Conn where
  past  : List (List LedgerOp) := []
  done  : List LedgerOp := []
  todo  : List LedgerOp := []
  later : List (List LedgerOp) := []
deriving DecidableEq, Repr, Inhabited

/-- `dataChunk.flush` (datachunk.go:89-122) on a snapshot of `n = len(wbuf)` records: per record (Ver > 0)
    FlushData.SubSizeAndCount(Cap); the file write; the records are detached; then each buffer is freed -/
def flushOps (batch : List Buf) : List LedgerOp :=
  batch.flatMap (fun b => subSC .flushS .flushC b.cap) ++ [.io] ++ batch.flatMap freeOps

/-- a flusher thread (`HStore.Flusher`, the goroutine a rotation starts (data.go:80), `flushPending` on close) -/
structure Flusher where
  batch : List Buf := []
  done  : List LedgerOp := []
  todo  : List LedgerOp := []
deriving DecidableEq, Repr, Inhabited

structure State where
  led      : Ledger
  pend     : List Buf := []           -- buffers owned by the write buffers (records with Ver > 0 not yet taken by a flusher)
  conns    : List Conn := []
  flushers : List Flusher := []
deriving DecidableEq, Repr, Inhabited

inductive Action
  | conn (i : Nat)                    -- connection i: next micro-operation, or begin its next command
  | flush (j : Nat)                   -- flusher j: next micro-operation of the batch in hand
  | snap (j : Nat) (mask : List Bool) -- flusher j (idle) takes the records of one chunk: those of `pend` marked true
deriving DecidableEq, Repr, Inhabited

/-- the marked elements and the others (positions beyond the mask are not taken) -/
def splitMask : List Bool → List Buf → List Buf × List Buf
  | _, [] => ([], [])
  | [], bs => ([], bs)
  | m :: ms, b :: bs =>
    let (t, r) := splitMask ms bs
    if m then (b :: t, r) else (t, b :: r)

def step (s : State) : Action → Option State
  | .conn i =>
    match s.conns[i]? with
    | none => none
    | some c =>
      match c.todo with
      | op :: rest =>
        if enabled s.led op then
          some { s with led := applyOp s.led op, pend := s.pend ++ pushOf op,
                        conns := s.conns.set i { c with done := c.done ++ [op], todo := rest } }
        else none
      | [] =>
        match c.later with
        | cmd :: cs =>
          some { s with conns := s.conns.set i { past := c.past ++ [c.done], done := [], todo := cmd, later := cs } }
        | [] => none
  | .flush j =>
    match s.flushers[j]? with
    | none => none
    | some f =>
      match f.todo with
      | op :: rest =>
        if enabled s.led op then
          some { s with led := applyOp s.led op,
                        flushers := s.flushers.set j { f with done := f.done ++ [op], todo := rest } }
        else none
      | [] => none
  | .snap j mask =>
    match s.flushers[j]? with
    | none => none
    | some f =>
      if f.todo = [] then
        let tr := splitMask mask s.pend
        some { s with pend := tr.2, flushers := s.flushers.set j { batch := tr.1, done := [], todo := flushOps tr.1 } }
      else none

/-- any list of choices is a schedule: a choice that is not enabled (blocked on a token, finished, no such thread) is skipped -/
def run (s : State) : List Action → State
  | [] => s
  | a :: as => run ((step s a).getD s) as

/-- the server at start with these connections (each a list of commands, each command its op list) and `nf` flushers -/
def init (cfg : Cfg) (progs : List (List (List LedgerOp))) (nf : Nat) : State :=
  { led := zero cfg, pend := [], conns := progs.map (fun p => { later := p }),
    flushers := List.replicate nf {} }

/-! ### what each thread holds (the terms of the invariant; executable so that a recorded trace can be checked) -/

/-- the residue of an op list: its effect minus the ownership it handed to the write buffer (zero for a complete
    command that gives back everything it took) -/
def resid (ops : List LedgerOp) : Ledger := eff ops - ownSum (pushes ops)

/-- a connection holds the partial effect of its command in flight minus what it has already handed to the write buffer -/
def Conn.held (c : Conn) : Ledger := resid c.done

/-- what the commands a connection has completed left behind (zero unless one of the leaking paths was taken) -/
def Conn.leaked (c : Conn) : Ledger := vsum (c.past.map resid)

/-- a flusher holds the buffers of its batch plus the partial effect of releasing them -/
def Flusher.held (f : Flusher) : Ledger := ownSum f.batch + eff f.done

/-- invariant (i) as a computable check -/
def invOK (cfg : Cfg) (s : State) : Bool :=
  s.led == zero cfg + vsum (s.conns.map (fun c => c.held + c.leaked)) + vsum (s.flushers.map Flusher.held) + ownSum s.pend
  && decide (0 ≤ s.led.tokens) && decide (s.led.tokens ≤ cfg.maxReq)
  && decide (s.led.tokens = (cfg.maxReq : Int) - (s.conns.countP (fun c => holding c.done)))

/-- the invariant checked after every choice of a schedule (one pass) -/
def invAlong (cfg : Cfg) : State → List Action → Bool
  | s, [] => invOK cfg s
  | s, a :: as => invOK cfg s && invAlong cfg ((step s a).getD s) as

/-- every connection is between commands (or closed), no flusher is at work, the write buffers are empty -/
def quiescent (s : State) : Bool :=
  s.conns.all (fun c => c.todo.isEmpty) && s.flushers.all (fun f => f.todo.isEmpty) && s.pend.isEmpty

/-- every connection has served all its commands (or closed), no flusher is at work, the write buffers are empty -/
def finished (s : State) : Bool :=
  s.conns.all (fun c => c.todo.isEmpty && c.later.isEmpty) && s.flushers.all (fun f => f.todo.isEmpty) && s.pend.isEmpty

/-- connection i is waiting in `<-rl.Chan` -/
def blocked (s : State) (i : Nat) : Bool :=
  match s.conns[i]? with
  | some c => c.todo.head? == some .tokGet && !decide (0 < s.led.tokens)
  | none => false

/-! ### the outcome of a command served by Model/Proto.lean -/

/-- the length a store command line announces (the 4th argument), as `Proto.readStore` parses it -/
def announcedLen (inp : Bytes) : Nat :=
  match Proto.readLine inp with
  | none => 0
  | some line =>
    match Proto.fields (line.take (line.length - 2)) with
    | _ :: args => ((Proto.atoi (args.getD 3 [])).getD 0).toNat
    | [] => 0

/-- `CArray.Alloc(n)` as a buffer -/
def bufOf (cfg : Cfg) (n : Nat) : Buf := { cap := n, inC := decide (¬ n ≤ cfg.bodyInC) }

/-- which outcome `Proto.serveOnce cfg st inp` is (Model/Proto.lean has no compression, no collisions, no read
    errors, no timeouts: those outcomes are not in its range) -/
def outcomeOf (cfg : Cfg) (st : Proto.St) (inp : Bytes) : Outcome :=
  let ro := Proto.readReq cfg st.led inp
  match ro.res with
  | .ok =>
    let pr := Proto.process cfg { st with led := ro.led } ro.req ro.item ro.kind
    let grown := decide (pr.1.pend.length > st.pend.length)
    match ro.kind with
    | .get => .get (pr.2.2.1.map (fun b => .hit { raw := b })) pr.2.2.1
    | .store =>
      let body := ro.item.getD { cap := 0, inC := false }
      if grown then .store body (.written {} {}) else .store body .dropped
    | .append => .store (ro.item.getD { cap := 0, inC := false }) .append
    | .incr => if grown then .incr (.written .miss {}) else .incr .early
    | .decr => .incr .early
    | _ => .plain
  | _ => if ro.working then .store (bufOf cfg (announcedLen inp)) .cut else .plain

/-- the outcomes of the commands `Proto.serve cfg fuel st inp` serves on one connection, in order -/
def outcomes (cfg : Cfg) : Nat → Proto.St → Bytes → List Outcome
  | 0, _, _ => []
  | fuel + 1, st, inp =>
    let s := Proto.serveOnce cfg st inp
    if s.closing then [outcomeOf cfg st inp]
    else outcomeOf cfg st inp :: outcomes cfg fuel s.st (inp.drop s.n)

/-- a connection as the scheduler sees it: one op list per command -/
def program (os : List Outcome) : List (List LedgerOp) := os.map microOps

end LedgerConc
