/-
  Process kill THROUGH THE INDEX FILES (C06) — hand-written model of what a bucket directory looks like when the
  process dies at any instant of normal operation, and of the start path that reads it back:
    store/data.go       dataStore.AppendRecord (rotation), dataStore.flush / flushPending, ListFiles
    store/datachunk.go  dataChunk.AppendRecord, dataChunk.flush (what is in the file when)
    store/hint.go       hintMgr.set / setItem, hintChunk.setItem / rotate, hintMgr.trydump / dump / close,
                        findValidPaths, loadHintsByChunk (with and without the "hint beyond data" drop of fe79633)
    store/hintfile.go   hintFileWriter.close (tmp file + rename: a split file exists completely or not at all)
    store/htree.go      HTree.dump (tmp file + rename)
    store/bucket.go     Bucket.set, Bucket.close, dumpHtree / removeHtree, Bucket.open, checkHintWithData,
                        buildHintFromData, updateHtreeFromHint, checkForDump
  on the record level of GoBeans/Model/Store.lean; the hint mechanism itself is GoBeans/Model/HintIndex.lean
  (`HChunk.setItem`, `Buf.dump`, `validPrefix`, `scanFrom`, `openTree`, …), reused unchanged.

  Model/Crash.lean abstracts the next start to "replay of the surviving records" and leaves the index files out.
  Here they are in: a state is the MEMORY of the process (write buffers, hint buffers, tree) together with the DISK
  (per data file the bytes written so far, the `*.idx.s` split files already renamed into place, the `*.idx.hash`
  tree dump); `step` is one atomic action of the code (each changes at most one file); a kill may follow any action:
  `St.crash` forgets the memory, `recover` is `Bucket.open` on what is left.  Which disk states a kill can leave is
  thereby DEFINED by the operations (`run`), not assumed.

  What is atomic, what is free:
   * `write`       one `Bucket.set`: record into the write buffer of the head file (rotation first if it does not fit),
                   tree entry, hint item into the newest split of the file's hint chunk (a full split is closed).
                   Nothing reaches the disk.
   * `flushTo i n` the file of chunk `i` grows to `n` bytes, anywhere up to the end of the buffered records: `flush`
                   writes through a bufio layer, so a kill finds any prefix — inside a record: a torn tail.  Any
                   chunk, any time: periodic flusher, post-rotation goroutine, `flushPending`, close.
   * `rotateSplit i`  the newest split of chunk `i` is closed (`trydump`: silence time over, or `dumplast`)
   * `dumpSplit i j`  the closed split `j` of chunk `i` is written and renamed to `<i>.<j>.idx.s`.  ANY closed split
                   with items, in ANY order, at ANY time relative to the flushes: the write path dumps a full split
                   at once (`setItem → trydump`), the dumper after `SecsBeforeDump`, two dumpers overtake each
                   other (`hintSplit.dumping`), `close` dumps what is left.  So a split file may describe records
                   that are not in the data file (yet).
   * `beginClose`, `removeDump`, `writeDump`   `Bucket.close`: no writes any more; when every file is flushed
                   (`flushPending`, `flush(-1, true)` come first in `close`) `dumpHtree` removes the old dump and
                   writes the tree under the id of the largest split dumped so far (tmp + rename)
   * `restart`     kill now (or: close is over), then `Bucket.open` — atomic (a kill during a start is not a step).
  Out of scope: GC (C07), the merged hint `*.idx.m` and the collision table (never read into the tree by `open`;
  colliding keys are C13), `check_vhash` tree-only version updates, I/O errors.  Core-only, executable.
-/
import GoBeans.Model.HintIndex

namespace CrashHint
open Store Spec HintIndex

/-! ### state -/

/-- a `*.idx.hash` file: `TreeID = (tc, ts)` from its name, the tree it holds -/
structure TreeDump where
  tc   : Nat
  ts   : Int
  tree : Tree
deriving Repr, Inhabited

/-- one data file with its hint chunk, memory and disk -/
structure Chunk where
  recs    : FileRecs := []                  -- every record appended (`dataChunk`: file ∪ `wbuf`), offset order
  onDisk  : Nat := 0                        -- size of `NNN.data` in bytes (what `flush` has written through)
  created : Bool := false                   -- `NNN.data` exists
  hint    : HChunk := {}                    -- `hintChunk.splits` built in this process life
  files   : List (Option SplitFile) := []   -- `NNN.JJJ.idx.s` renamed into place, by split number
deriving Repr, Inhabited

structure St where
  prev      : List Chunk := []              -- chunks 0 .. newHead-1
  head      : Chunk := {}                   -- chunk `newHead` (receives appends)
  tree      : Tree := []                    -- `bkt.htree`
  treeID    : Nat × Int := (0, -1)          -- `bkt.TreeID`
  maxDumped : Nat × Int := (0, -1)          -- `bkt.hints.maxDumpedHintID`
  dump      : Option TreeDump := none       -- the `*.idx.hash` file on disk
  closing   : Bool := false                 -- `Bucket.close` has begun (no client writes any more)
  pending   : Bool := false                 -- `dumpHtree`: `removeHtree` done, `htree.dump` not yet renamed
deriving Repr, Inhabited

def St.all (s : St) : List Chunk := s.prev ++ [s.head]

def updAt {α : Type} : List α → Nat → (α → α) → List α
  | [], _, _ => []
  | a :: l, 0, f => f a :: l
  | a :: l, i + 1, f => a :: updAt l i f

def St.modChunk (s : St) (i : Nat) (f : Chunk → Chunk) : St :=
  if i < s.prev.length then { s with prev := updAt s.prev i f }
  else if i = s.prev.length then { s with head := f s.head }
  else s

/-! ### write path -/

/-- what `Bucket.set` puts into the tree (`htree.set(ki, &v.Meta, pos)`, bucket.go:409): version and value hash of
    the payload; a delete (`Ver < 0`) leaves an ENTRY with its negative version and value hash 0 — in memory a
    deleted key is a tombstone entry, after a rebuild from hints it is no entry (`updateHtreeFromHint` removes) -/
def memItem (pos : Pos) (r : Rec) : TItem :=
  { pos := pos, ver := r.ver, vhash := if r.ver > 0 then vhashOf r.body else 0 }

/-- `dataChunk.AppendRecord` + `hintMgr.set → hintChunk.setItem` for one record of this chunk -/
def Chunk.push (hash : Key → Nat) (cap : Nat) (c : Chunk) (p : Nat × Rec) : Chunk :=
  { c with recs := c.recs ++ [p], hint := c.hint.setItem cap (itemOfWrite hash p) p.2.size }

/-- `Bucket.set` (bucket.go:403-412) with `dataStore.AppendRecord` (data.go:65-98): offset = writing head of the head
    file; `currOffset+size > DataFileMax` → `newHead++`, offset 0 (the old head is flushed by a goroutine: a later
    `flushTo`).  Refused while closing (the server has stopped serving). -/
def St.write (hash : Key → Nat) (cfg : Store.Cfg) (cap : Nat) (s : St) (r : Rec) : St :=
  if s.closing then s else
  let off := dataSizeOf s.head.recs
  if off + r.size > cfg.dataFileMax then
    { s with prev := s.prev ++ [s.head], head := ({} : Chunk).push hash cap (0, r),
             tree := AMap.set s.tree (hash r.key) (memItem { chunk := s.prev.length + 1, off := 0 } r) }
  else
    { s with head := s.head.push hash cap (off, r),
             tree := AMap.set s.tree (hash r.key) (memItem { chunk := s.prev.length, off := off } r) }

/-! ### flush -/

/-- `dataStore.flush(chunk, …)` → `dataChunk.flush` (datachunk.go:89-121): the buffered records are appended to the
    file through `bufio.Writer` (`Conf.BufIOCap`); the file is created if need be (`GetStreamWriter`).  The model
    lets the file grow to ANY size between what it has and the end of the buffered records. -/
def Chunk.flushTo (c : Chunk) (n : Nat) : Chunk :=
  if c.onDisk ≤ n ∧ n ≤ dataSizeOf c.recs then { c with onDisk := n, created := true } else c

/-! ### hint splits: close, dump -/

/-- `trydump` closing the newest split (hint.go:397-413): `needDump` (it holds items), `ck.rotate()` -/
def Chunk.rotateSplit (c : Chunk) : Chunk :=
  if c.hint.last.items.isEmpty then c else { c with hint := { closed := c.hint.closed ++ [c.hint.last], last := {} } }

/-- put a file at split number `j` (numbers without a file in between stay `none`) -/
def setPad {α : Type} : List (Option α) → Nat → α → List (Option α)
  | [], 0, a => [some a]
  | [], j + 1, a => none :: setPad [] j a
  | _ :: l, 0, a => some a :: l
  | x :: l, j + 1, a => x :: setPad l j a

/-- `HintID.isLarger` (hint.go:74-76) -/
def isLarger (id : Nat × Int) (ck : Nat) (sp : Int) : Bool := decide (ck > id.1) || (ck == id.1 && decide (sp ≥ id.2))

/-- `HintID.setIfLarger` -/
def setIfLarger (id : Nat × Int) (ck : Nat) (sp : Int) : Nat × Int := if isLarger id ck sp then (ck, sp) else id

/-- `hintMgr.dump(chunkID, splitID)` (hint.go:357-377) of a CLOSED split that holds items and has no file yet:
    `HintBuffer.Dump` (sorted, `datasize = maxoffset`), `hintFileWriter.close` renames `….idx.s.tmp` into place;
    `maxDumpedHintID.setIfLarger` -/
def St.dumpSplit (s : St) (i j : Nat) : St :=
  match s.all[i]? with
  | none => s
  | some c =>
    match c.hint.closed[j]? with
    | none => s
    | some b =>
      if b.items.isEmpty || (c.files.getD j none).isSome then s
      else { s.modChunk i (fun c => { c with files := setPad c.files j b.dump }) with
             maxDumped := setIfLarger s.maxDumped i j }

/-! ### close -/

def allFlushed (s : St) : Bool := s.all.all (fun c => c.onDisk == dataSizeOf c.recs)

/-- `Bucket.dumpHtree`, first half (bucket.go:298-305; called from `close`, bucket.go:282-296): `flushPending` and `flush(-1, true)` have run (`allFlushed`; no
    write interleaves), `TreeID.isLarger(maxDumpedHintID)` → `removeHtree()`, `TreeID = hintID` -/
def St.removeDump (s : St) : St :=
  if s.closing && !s.pending && allFlushed s && isLarger s.treeID s.maxDumped.1 s.maxDumped.2 then
    { s with dump := none, treeID := s.maxDumped, pending := true }
  else s

/-- second half: `htree.dump(path(TreeID))`, visible at the rename.  A split id -1 (nothing ever dumped) gives the file
    name `000.*.idx.hash` (`idToStr(-1) = "*"`), which no later start recognises (`parseIDFromName` fails): no dump. -/
def St.writeDump (s : St) : St :=
  if s.pending then
    { s with dump := if s.treeID.2 < 0 then none else some { tc := s.treeID.1, ts := s.treeID.2, tree := s.tree },
             pending := false }
  else s

/-! ### what a kill leaves -/

/-- one data file and the split files of its chunk, as found by the next process -/
structure DFile where
  recs    : FileRecs                  -- the records that lie completely inside the file
  size    : Nat                       -- `st.Size()`
  torn    : Bool                      -- the file ends inside a record
  created : Bool
  hints   : List (Option SplitFile)
deriving Repr, Inhabited

structure Disk where
  files : List DFile
  dump  : Option TreeDump
deriving Repr, Inhabited

/-- as `Store.Chunk.durable` / `Store.Chunk.torn` (Model/Crash.lean): the write buffer is lost, completed writes
    survive; the hint buffers are lost, renamed split files survive -/
def Chunk.crash (c : Chunk) : DFile :=
  { recs := c.recs.filter (fun p => decide (p.1 + p.2.size ≤ c.onDisk)),
    size := c.onDisk,
    torn := c.onDisk ≠ 0 && !(c.recs.any (fun p => p.1 + p.2.size == c.onDisk)),
    created := c.created,
    hints := c.files }

def St.crash (s : St) : Disk := { files := s.all.map Chunk.crash, dump := s.dump }

def St.torn (s : St) : Bool := s.crash.files.any (·.torn)

/-! ### the next start (`Bucket.open`, bucket.go:166-247) -/

/-- loop of `loadHintsByChunk` (hint.go:673-721; the drop: 696-705).  `chk = true`: the code as it is — stop at the first file whose
    `datasize` exceeds the data file ("hint beyond data", fe79633); `chk = false`: the code before that commit —
    every file of the gap-free prefix is kept.  The running `datasize` is the maximum seen. -/
def loadPrefixG (chk : Bool) (dataSize : Nat) : List SplitFile → Nat → List SplitFile × Nat
  | [], d => ([], d)
  | f :: rest, d =>
    if chk && decide (f.datasize > dataSize) then ([], d)
    else
      let r := loadPrefixG chk dataSize rest (if f.datasize < d then d else f.datasize)
      (f :: r.1, r.2)

/-- `checkHintWithData(chunk)` (bucket.go:153-164) and the split files the chunk has afterwards; for `chk = true` this
    is `HintIndex.checkHintWithData` -/
def checkHintG (hash : Key → Nat) (cap : Nat) (chk : Bool) (recs : FileRecs) (dataSize : Nat)
    (disk : List (Option SplitFile)) : List SplitFile :=
  if dataSize = 0 then [] else
  let ld := loadPrefixG chk dataSize (validPrefix disk) 0
  if ld.2 < dataSize then
    ld.1 ++ ((HChunk.run cap (scanEvents hash (scanFrom ld.2 recs))).disk).filterMap id
  else ld.1

/-- `ListFiles` (data.go:166-194): `newHead = max + 1`, `max` = the largest id whose file exists (0 if none does) -/
def numFiles : List DFile → Nat
  | [] => 0
  | f :: fs => if numFiles fs > 0 then numFiles fs + 1 else if f.created then 1 else 0

/-- `hints.maxDumpedHintID` after the hint loop of `open` (bucket.go:208, 230): starts as `TreeID`, and is ASSIGNED
    `HintID{i, startsp + j}` for every split file applied — `j` counts from 0 although the files are applied from
    split 0 and not from `startsp`, so for chunk `tc` the id overshoots (harmless: see REPORT) -/
def openMaxGo (tc : Nat) (ts : Int) : Nat → Nat × Int → List (List SplitFile) → Nat × Int
  | _, m, [] => m
  | i, m, f :: fs =>
    let startsp : Int := if i = tc then ts + 1 else 0
    let m' := if i < tc then m else if startsp ≥ (f.length : Int) then m else (i, startsp + (f.length : Int) - 1)
    openMaxGo tc ts (i + 1) m' fs

/-- the tree dump `open` loads: `getAllIndex(HTREE_SUFFIX)`; a dump whose chunk id lies beyond the data files is removed
    ("htree beyond data", bucket.go:186-189) -/
def usedDump (d : Disk) : Option TreeDump :=
  match d.dump with
  | some t => if t.tc ≥ numFiles d.files then none else some t
  | none => none

/-- per chunk the split files it has after `checkHintWithData` -/
def keptFiles (hash : Key → Nat) (cap : Nat) (chk : Bool) (d : Disk) : List (List SplitFile) :=
  d.files.map (fun f => checkHintG hash cap chk f.recs f.size f.hints)

/-- the item lists `updateHtreeFromHint` reads -/
def keptHints (hash : Key → Nat) (cap : Nat) (chk : Bool) (d : Disk) : List (List (List Item)) :=
  (keptFiles hash cap chk d).map (fun fl => fl.map (·.items))

/-- the tree after the hint loop of `open` -/
def openedTree (hash : Key → Nat) (cap : Nat) (chk : Bool) (d : Disk) : Tree :=
  match usedDump d with
  | some t => openTree t.tc t.ts t.tree (keptHints hash cap chk d)
  | none => openTree 0 (-1) [] (keptHints hash cap chk d)

/-- `hints.maxDumpedHintID` after the hint loop -/
def openedMax (hash : Key → Nat) (cap : Nat) (chk : Bool) (d : Disk) : Nat × Int :=
  match usedDump d with
  | some t => openMaxGo t.tc t.ts 0 (t.tc, t.ts) (keptFiles hash cap chk d)
  | none => openMaxGo 0 (-1) 0 (0, -1) (keptFiles hash cap chk d)

/-- `Bucket.open` on a bucket directory whose data files all end at a record boundary:
     * tree dump: dropped if its chunk id lies beyond the data files, else loaded (`usedDump`);
     * EVERY chunk: `checkHintWithData` (empty data file → its split files are removed; else keep the gap-free prefix
       of split files [that does not reach beyond the data], rescan the data file from the largest `datasize` kept);
     * `openTree`: chunks below `tc` untouched, chunk `tc` skipped if it has at most `ts + 1` split files, else
       applied from split 0, later chunks applied (`Ver > 0 → set`, else `remove`);
     * no dump on disk and some data file exists → `dumpHtree()` under `maxDumpedHintID` (`checkForDump`, bucket.go:240, 258-279;
       split id -1: unrecognisable file name, see `St.writeDump`);
     * appends go to a new file `max + 1`; the chunks of the existing files have file-only splits.
    (For chunks below `tc` the code runs `checkHintWithData` in a goroutine after `open` has returned; the model does
    it at once — those chunks do not reach the tree either way.) -/
def openSt (hash : Key → Nat) (cap : Nat) (chk : Bool) (d : Disk) : St :=
  let n := numFiles d.files
  let md := openedMax hash cap chk d
  let tree := openedTree hash cap chk d
  { prev := (d.files.take n).map (fun f =>
      { recs := f.recs, onDisk := f.size, created := f.created, hint := {},
        files := (checkHintG hash cap chk f.recs f.size f.hints).map some }),
    head := {},
    tree := tree,
    treeID := (match usedDump d with
      | some t => (t.tc, t.ts)
      | none => if n = 0 then (0, -1) else md),
    maxDumped := md,
    dump := (match usedDump d with
      | some t => some t
      | none => if n = 0 ∨ md.2 < 0 then none else some { tc := md.1, ts := md.2, tree := tree }),
    closing := false,
    pending := false }

/-- `Bucket.open`.  `none` = the store refuses to start: a data file ends in a partial record (`ListFiles`: "file not
    256 aligned"; `buildHintFromData` → `logger.Fatalf("fail to start for bad data")`) — the refusal C06 allows. -/
def recover (hash : Key → Nat) (cap : Nat) (chk : Bool) (d : Disk) : Option St :=
  if d.files.any (·.torn) then none else some (openSt hash cap chk d)

/-! ### the transition system -/

inductive Op
  | write (r : Rec)
  | flushTo (i n : Nat)
  | rotateSplit (i : Nat)
  | dumpSplit (i j : Nat)
  | beginClose
  | removeDump
  | writeDump
  | restart
deriving Repr

def step (hash : Key → Nat) (cfg : Store.Cfg) (cap : Nat) (s : St) : Op → St
  | .write r => s.write hash cfg cap r
  | .flushTo i n => s.modChunk i (fun c => c.flushTo n)
  | .rotateSplit i => s.modChunk i Chunk.rotateSplit
  | .dumpSplit i j => s.dumpSplit i j
  | .beginClose => { s with closing := true }
  | .removeDump => s.removeDump
  | .writeDump => s.writeDump
  | .restart => (recover hash cap true s.crash).getD s      -- a refused start leaves the directory as it is

def run (hash : Key → Nat) (cfg : Store.Cfg) (cap : Nat) (s : St) (ops : List Op) : St := ops.foldl (step hash cfg cap) s

/-- all durable records in (file, offset) order — the `durable log` of Model/Crash.lean -/
def durLog (s : St) : List (Pos × Rec) := logOf (s.crash.files.map (·.recs))

/-- `dataStore.GetRecordByPos` on the files a kill leaves -/
def Disk.readAt (d : Disk) (p : Pos) : Option Rec :=
  match d.files[p.chunk]? with
  | some f => (f.recs.find? (fun q => q.1 = p.off)).map (·.2)
  | none => none

end CrashHint
