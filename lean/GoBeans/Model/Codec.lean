/-
  Record codec (C09) — hand-written model of store/datafile.go
  (`WriteRecord.append`, `readRecordAt`, `DataStreamReader.Next/nextValid`),
  built from the regenerated kernels `Gen.encodeHeader`, `Gen.decodeHeader`, `Gen.getCRC`,
  `Gen.Sizes`, `Gen.IsValidKeySize`, `Gen.IsValidValueSize`.  Core-only (linked into the driver).
-/
import GoBeans.Gen.Kernels

namespace Codec

structure Rec where
  key  : Bytes
  body : Bytes          -- as stored (possibly compressed)
  flag : UInt32
  ver  : Int32
  ts   : UInt32
deriving DecidableEq, Repr, Inhabited

structure Cfg where
  maxKeyLen : Int64 := 250
  bodyMax   : Int64 := 52428800
deriving Repr, Inhabited

def Rec.ksz (r : Rec) : UInt32 := (Int64.ofNat r.key.length).toInt32.toUInt32   -- uint32(len(rec.Key))
def Rec.vsz (r : Rec) : UInt32 := (Int64.ofNat r.body.length).toInt32.toUInt32

/-- (recSize, padded size) — `Record.Sizes` -/
def Rec.sizes (r : Rec) : UInt32 × UInt32 := Gen.Sizes (Int64.ofNat r.key.length) (Int64.ofNat r.body.length)

def Rec.padded (r : Rec) : Nat := r.sizes.2.toNat

def zeroHeader : Bytes := List.replicate Gen.recHeaderSize 0

def header (r : Rec) : Bytes :=
  Gen.encodeHeader zeroHeader r.ts r.flag r.ver r.ksz r.vsz r.key r.body

/-- `WriteRecord.append(wbuf, dopadding = true)`: header, key, body, zero padding -/
def encode (r : Rec) : Bytes :=
  let (size, sizeall) := r.sizes
  header r ++ r.key ++ r.body ++ List.replicate (sizeall - size).toNat 0

def encodeAll (rs : List Rec) : Bytes := rs.foldr (fun r acc => encode r ++ acc) []

inductive RErr | shortHead | badKeySize | badValueSize | shortBody | badCRC
deriving DecidableEq, Repr

/-- `readRecordAt(path, f, offset)`; on success also the padded size -/
def decodeAt (cfg : Cfg) (f : Bytes) (off : Nat) : Except RErr (Rec × Nat) :=
  let h := (f.drop off).take 24
  if h.length < 24 then .error .shortHead else
  let (crc, ts, flag, ver, ksz, vsz) := Gen.decodeHeader h
  if !Gen.IsValidKeySize cfg.maxKeyLen ksz then .error .badKeySize else
  if !Gen.IsValidValueSize cfg.bodyMax vsz then .error .badValueSize else
  let kv := (f.drop (off + 24)).take (ksz.toNat + vsz.toNat)
  if kv.length < ksz.toNat + vsz.toNat then .error .shortBody else
  let key := kv.take ksz.toNat
  let body := kv.drop ksz.toNat
  if crc != Gen.getCRC h key body then .error .badCRC else
  let r : Rec := { key := key, body := body, flag := flag, ver := ver, ts := ts }
  .ok (r, r.padded)

inductive ScanEnd | eof | error
deriving DecidableEq, Repr

/-- `nextValid`: from the 256-aligned offset at or below `off`, try `readRecordAt` every 256 bytes -/
def nextValid (cfg : Cfg) (f : Bytes) : Nat → Nat → Option (Nat × Rec × Nat)
  | 0, _ => none
  | fuel + 1, off =>
    if off < f.length then
      match decodeAt cfg f off with
      | .ok (r, sz) => some (off, r, sz)
      | .error _ => nextValid cfg f fuel (off + 256)
    else none

/-- one `DataStreamReader.Next()` at stream offset `off`:
    `none` = clean end (nil record, nil error), `some (.error ())` = error return,
    `some (.ok (offset, rec, nextOffset))`.
    `Next` parses the record at the stream position with the same sequence of checks as
    `readRecordAt` (sizes, key+body read, CRC), so the model shares `decodeAt`; what differs is
    what happens on failure: bad sizes / bad CRC → `nextValid`; a short read of key or body →
    `nextValidOrErr` (resynchronise, report the read error only if no valid record follows). -/
def next (cfg : Cfg) (f : Bytes) (off : Nat) : Option (Except Unit (Nat × Rec × Nat)) :=
  let rest := f.drop off
  if rest.length = 0 then none else                       -- io.EOF on the header: clean end
  if rest.length < 24 then some (.error ()) else         -- ErrUnexpectedEOF on the header
  let resync := fun (_ : Unit) =>
    match nextValid cfg f (f.length / 256 + 2) (off / 256 * 256) with
    | some (o, r, sz) => some (.ok (o, r, o + sz))
    | none => none
  match decodeAt cfg f off with
  | .ok (r, sz) => some (.ok (off, r, off + sz))
  | .error .shortBody =>
      (match resync () with
       | some x => some x
       | none => some (.error ()))
  | .error _ => resync ()

/-- the loop every caller runs: `for { rec, off, _, err := r.Next(); if err → stop; if rec == nil → stop }` -/
def scanFrom (cfg : Cfg) (f : Bytes) : Nat → Nat → List (Nat × Rec) × ScanEnd
  | 0, _ => ([], .eof)
  | fuel + 1, off =>
    match next cfg f off with
    | none => ([], .eof)
    | some (.error _) => ([], .error)
    | some (.ok (o, r, nxt)) =>
      let (rs, e) := scanFrom cfg f fuel nxt
      ((o, r) :: rs, e)

def scan (cfg : Cfg) (f : Bytes) (start : Nat) : List (Nat × Rec) × ScanEnd :=
  scanFrom cfg f (f.length / 256 + 2) start

end Codec
