/-
  L1 — one bucket as a record-level state machine (hand-written model of store/bucket.go,
  data.go, datachunk.go, htree.go as far as single-client behaviour goes).

  * a chunk (data file) is the list of its records with their offsets; a prefix of it is on
    disk (`flushed`), the rest is in the write buffer;
  * the tree maps a key HASH to (position, version, value hash) — one slot per hash, as in the code;
  * `hash` is a parameter: the real key hash for C01, an arbitrary function for C13;
  * compression is abstracted to its only store-level effect, the on-disk size of the record
    (`size`, an input), and the logical body/flag a read returns (C10 carries the codec);
  * version arithmetic and value hash are the REGENERATED kernels (`Gen.checkAndUpdateVerison`,
    `Gen.Getvhash`).
  Core-only (linked into the driver).
-/
import GoBeans.Gen.Kernels
import GoBeans.Spec.KV

namespace Store
open Spec (Key Reply)

structure Rec where
  key  : Key
  ver  : Int
  flag : Nat
  ts   : Option Nat
  body : Bytes
  size : Nat            -- padded on-disk size (multiple of 256)
  wts  : Nat := 0       -- timestamp actually stored in the record (= ts for set; server clock for delete/incr);
                        -- only GC's age test on the first record of a file looks at it
deriving DecidableEq, Repr, Inhabited

structure Pos where
  chunk : Nat
  off   : Nat
deriving DecidableEq, Repr, Inhabited

structure TItem where
  pos   : Pos
  ver   : Int
  vhash : Nat
deriving DecidableEq, Repr, Inhabited

structure Chunk where
  recs    : List (Nat × Rec) := []    -- (offset, record), offset order
  flushed : Nat := 0                   -- how many of them are on disk
  size    : Nat := 0                   -- writing head
  created : Bool := false              -- the file exists although it may hold no record (rotation away from an empty head)
deriving Repr, Inhabited

structure Cfg where
  dataFileMax : Nat := 4194304000
  checkVHash  : Bool := false
  bodyMax     : Nat := 52428800         -- MCConf.BodyMax (GC destination test)
  noGCDays    : Int := 0
deriving Repr, Inhabited

structure Bucket where
  chunks : Nat → Chunk := fun _ => {}    -- data files by id (total function: absent file = empty chunk)
  head   : Nat := 0                       -- the file receiving appends; files above it are empty
  tree   : List (Nat × TItem) := []
  nextGC : Nat := 0                       -- nextgc.txt: where an unqualified GC request starts
deriving Inhabited

def vhashOf (body : Bytes) : Nat := (Gen.Getvhash body).toNat

/-- `checkAndUpdateVerison` on the model's `Int` versions (through the regenerated Int32 code) -/
def nextVer (oldv rev : Int) : Int × Bool :=
  let (v, ok) := Gen.checkAndUpdateVerison (Int32.ofInt oldv) (Int32.ofInt rev)
  (v.toInt, ok)

def Bucket.chunk (b : Bucket) (i : Nat) : Chunk := b.chunks i

def Bucket.setChunk (b : Bucket) (i : Nat) (c : Chunk) : Bucket :=
  { b with chunks := fun j => if j = i then c else b.chunks j }

/-- the data files in id order, up to and including the head -/
def Bucket.chunkList (b : Bucket) : List Chunk := (List.range (b.head + 1)).map b.chunks

def Chunk.find (c : Chunk) (off : Nat) : Option Rec :=
  (c.recs.find? (fun p => p.1 = off)).map (·.2)

/-- `dataStore.GetRecordByPos`: buffer or file, the record that starts at that offset -/
def Bucket.readAt (b : Bucket) (p : Pos) : Option Rec := (b.chunk p.chunk).find p.off

/-- where the next record of on-disk size `sz` goes: (file, offset, rotated?) -/
def Bucket.slot (cfg : Cfg) (b : Bucket) (sz : Nat) : Nat × Nat × Bool :=
  if (b.chunks b.head).size + sz > cfg.dataFileMax then (b.head + 1, 0, true) else (b.head, (b.chunks b.head).size, false)

/-- rotation away from the head file: it is flushed by the post-rotation flush (which has completed
    before the next command in single-client runs) and exists from then on, even if empty -/
def Bucket.sealHead (b : Bucket) : Bucket :=
  b.setChunk b.head { b.chunks b.head with flushed := (b.chunks b.head).recs.length, created := true }

def Bucket.pushRec (b : Bucket) (ck off : Nat) (r : Rec) : Bucket :=
  { b.setChunk ck { b.chunks ck with recs := (b.chunks ck).recs ++ [(off, r)], size := off + r.size } with head := ck }

/-- `dataStore.AppendRecord`: rotate when the record does not fit -/
def Bucket.append (cfg : Cfg) (b : Bucket) (r : Rec) : Bucket × Pos :=
  let (ck, off, rot) := b.slot cfg r.size
  ((if rot then b.sealHead else b).pushRec ck off r, { chunk := ck, off := off })

inductive GetResult
  | miss
  | found (r : Rec) (it : TItem)          -- record at the tree position carries the wanted key
  | broken                                 -- tree points at nothing readable
  | otherKey (r : Rec) (it : TItem)       -- equal hash, different key (collision path, C13)
deriving Repr

/-- `Bucket.get(ki, memOnly=false)` for a non-colliding key -/
def Bucket.lookup (hash : Key → Nat) (b : Bucket) (k : Key) : GetResult :=
  match AMap.get b.tree (hash k) with
  | none => .miss
  | some it =>
    match b.readAt it.pos with
    | none => .broken
    | some r => if r.key = k then .found r it else .otherKey r it

/-- `Bucket.set`: append → tree set (→ hint set, not observable here) -/
def Bucket.put (hash : Key → Nat) (cfg : Cfg) (b : Bucket) (r : Rec) : Bucket × Pos :=
  let (b, pos) := b.append cfg r
  ({ b with tree := AMap.set b.tree (hash r.key) { pos := pos, ver := r.ver, vhash := if r.ver > 0 then vhashOf r.body else 0 } }, pos)

inductive Op
  | set (k : Key) (body : Bytes) (flag : Nat) (rev : Int) (ts : Nat) (size : Nat)
  | delete (k : Key) (size : Nat) (wts : Nat)
  | incr (k : Key) (delta : Int) (size : Nat) (wts : Nat)
  | get (k : Key)
  | info (k : Key)
  | flush
  | reopen (keepTree : Bool)
deriving Repr

/-- all records of the bucket in (file, offset) order, with their positions -/
def Bucket.log (b : Bucket) : List (Pos × Rec) :=
  (List.range (b.head + 1)).flatMap (fun i => (b.chunks i).recs.map (fun p => (({ chunk := i, off := p.1 } : Pos), p.2)))

/-- one step of rebuilding the tree from the data (through hints): a live record sets its key's slot,
    a tombstone removes it -/
def replayStep (hash : Key → Nat) (t : List (Nat × TItem)) (p : Pos × Rec) : List (Nat × TItem) :=
  if p.2.ver > 0 then AMap.set t (hash p.2.key) { pos := p.1, ver := p.2.ver, vhash := vhashOf p.2.body }
  else AMap.erase t (hash p.2.key)

/-- replay of all records in (file, offset) order: later record of a key wins, `ver < 0` removes -/
def replayTree (hash : Key → Nat) (log : List (Pos × Rec)) : List (Nat × TItem) :=
  log.foldl (replayStep hash) []

def lastNonEmpty (chunks : List Chunk) : Option Nat :=
  let rec go (i : Nat) (cs : List Chunk) (best : Option Nat) : Option Nat :=
    match cs with
    | [] => best
    | c :: rest => go (i + 1) rest (if c.size > 0 ∨ c.created then some i else best)
  go 0 chunks none

inductive CasResult
  | done (pos : Option Pos)      -- accepted (written at pos) or silently not written
  | notFound
deriving Repr

/-- `Bucket.checkAndSet` (set: rev ≥ 0 with a body; delete: rev = -1, empty body) -/
def checkAndSet (hash : Key → Nat) (cfg : Cfg) (b : Bucket) (k : Key) (body : Bytes) (flag : Nat) (rev : Int)
    (ts : Option Nat) (size : Nat) (wts : Nat) : Bucket × CasResult :=
  -- the value hash is only computed for Ver >= 0 (a delete request carries 0)
  let vh := if rev ≥ 0 then vhashOf body else 0
  let write := fun (v : Int) =>
    let p := b.put hash cfg { key := k, ver := v, flag := flag, ts := ts, body := body, size := size, wts := wts }
    (p.1, CasResult.done (some p.2))
  match AMap.get b.tree (hash k) with
  | none =>
    if (nextVer 0 rev).2 = false then (b, .done none)
    else if (nextVer 0 rev).1 < 0 then (b, .notFound)              -- Ver < 0 && payload == nil
    else write (nextVer 0 rev).1
  | some it =>
    if (it.ver > 0 ∧ vh = it.vhash) ∧ cfg.checkVHash = true then
      -- "not really set if vhash is the same"; an explicit revision replaces the tree version only
      (if rev ≠ 0 then { b with tree := AMap.set b.tree (hash k) { it with ver := rev, vhash := vh } } else b, .done none)
    else if (nextVer it.ver rev).2 = false then (b, .done none)
    else if (nextVer it.ver rev).1 < 0 ∧ it.ver < 0 then (b, .notFound)   -- Ver < 0 && oldv < 0
    else write (nextVer it.ver rev).1

def step (hash : Key → Nat) (cfg : Cfg) (b : Bucket) : Op → Bucket × Reply × Option Pos
  | .set k body flag rev ts size =>
    match checkAndSet hash cfg b k body flag rev (some ts) size ts with
    | (b', .done pos) => (b', .stored, pos)
    | (b', .notFound) => (b', .error, none)
  | .delete k size wts =>
    match checkAndSet hash cfg b k [] 0 (-1) none size wts with
    | (b', .done pos) => (b', .deleted, pos)
    | (b', .notFound) => (b', .notFound, none)
  | .incr k delta size wts =>
    let write := fun (ver : Int) (v : Int) =>
      let (b', pos) := b.put hash cfg { key := k, ver := ver, flag := Spec.FLAG_INCR, ts := none, body := Spec.itoa v, size := size, wts := wts }
      (b', Reply.num v, some pos)
    match b.lookup hash k with
    | .miss => write 1 delta
    | .broken => (b, .num 0, none)
    | .otherKey _ _ => (b, .error, none)
    | .found r it =>
      if it.ver < 0 then write 1 delta
      else if r.flag ≠ Spec.FLAG_INCR then (b, .num 0, none)
      else if r.body.length > 22 then (b, .num 0, none)
      else match Spec.parseInt r.body with
        | none => (b, .num 0, none)
        | some old => write (it.ver + 1) (Spec.wrap64 (old + delta))
  | .get k =>
    match b.lookup hash k with
    | .miss => (b, .miss, none)
    | .broken => (b, .error, none)
    | .otherKey _ _ => (b, .error, none)
    | .found r it => if it.ver > 0 then (b, .value r.flag r.body, some it.pos) else (b, .miss, some it.pos)
  | .info k =>
    match b.lookup hash k with
    | .miss => (b, .miss, none)
    | .broken => (b, .error, none)
    | .otherKey _ _ => (b, .error, none)
    | .found r it => (b, .info it.ver (if it.ver > 0 then vhashOf r.body else 0) r.flag r.body.length r.ts, some it.pos)
  | .flush =>
    let c := b.chunk b.head
    (b.setChunk b.head { c with flushed := c.recs.length }, .stored, none)
  | .reopen keepTree =>
    -- close: flush the head file, dump hints and tree; open: a new process appends to a new file
    let chunks := fun i => { b.chunks i with flushed := (b.chunks i).recs.length }
    let cl := (List.range (b.head + 1)).map chunks
    let head := match lastNonEmpty cl with | some i => i + 1 | none => 0
    let tree := if keepTree then b.tree else replayTree hash b.log
    ({ chunks := chunks, head := head, tree := tree, nextGC := b.nextGC }, .stored, none)

end Store

namespace Store
open Spec (Key Reply)

/-- the client command an operation stands for (flush / reopen are not client commands) -/
def cmdOf : Op → Option Spec.Cmd
  | .set k body flag rev ts _ => some (.set k body flag rev ts)
  | .delete k _ _ => some (.delete k)
  | .incr k d _ _ => some (.incr k d)
  | .get k => some (.get k)
  | .info k => some (.info k)
  | .flush => none
  | .reopen _ => none

/-- run a history; collect the replies to client commands -/
def run (hash : Key → Nat) (cfg : Cfg) : Bucket → List Op → Bucket × List Reply
  | b, [] => (b, [])
  | b, op :: ops =>
    let (b', r, _) := step hash cfg b op
    let (b'', rs) := run hash cfg b' ops
    (b'', match cmdOf op with | some _ => r :: rs | none => rs)

end Store
