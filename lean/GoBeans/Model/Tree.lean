/-
  Merkle tree listing (C08).
  (1) `specList`: the listing recomputed from CONTENT ONLY — the set of (key hash, version, value hash) entries —
      for every prefix, bucket depth and tree height: leaf summaries are sums over live entries, inner summaries a
      fold of the 16 children (×97 per child once the subtree holds more than ThresholdBigHash keys), listings
      show the 16 children or, below the list-keys threshold / at leaf level, the entries under the prefix.
      Being a function of content it is history independent by construction; engine `seq` compares the real
      `get @prefix` answers with it on every run.
  (2) `Leaf`: the incremental summary bookkeeping of htree.go (`setToLeaf` / `remvoeFromLeaf`) as a small state
      machine; Lemmas/Tree.lean proves its summary always equals the content sum.
  Core-only.
-/
import GoBeans.Gen.Kernels

namespace Tree

structure Ent where
  khash : Nat
  ver   : Int
  vhash : Nat
deriving DecidableEq, Repr, Inhabited

abbrev Content := List Ent      -- one entry per key hash (live: ver > 0, tombstone: ver < 0)

def M16 : Nat := 65536

/-- the contribution of one live entry to its leaf's hash: vhash * lo16(khash >> 32)  (mod 2^16) -/
def contrib (e : Ent) : Nat := (e.vhash * ((e.khash / 2^32) % M16)) % M16

/-- leaf summary = (number of live entries, sum of their contributions mod 2^16) -/
def leafSum (c : Content) : Nat × Nat :=
  c.foldl (fun (acc : Nat × Nat) e => if e.ver > 0 then (acc.1 + 1, (acc.2 + contrib e) % M16) else acc) (0, 0)

/-- the top `n` hex digits of a 64-bit hash, as a number -/
def topDigits (kh : Nat) (n : Nat) : Nat := kh / 16 ^ (16 - n)

def under (c : Content) (n : Nat) (p : Nat) : Content := c.filter (fun e => topDigits e.khash n == p)

/-- summary of the node whose path is the `n` digits `p`, with `below` levels under it (0 = leaf) -/
def nodeSum (c : Content) (n : Nat) (p : Nat) : Nat → Nat × Nat
  | 0 => leafSum (under c n p)
  | below + 1 =>
    let ch := (List.range 16).map (fun i => nodeSum c (n + 1) (p * 16 + i) below)
    let cnt := ch.foldl (fun a x => a + x.1) 0
    let h := if cnt > Gen.ThresholdBigHash
      then ch.foldl (fun h x => (h * 97 + x.2) % M16) 0
      else ch.foldl (fun h x => (h + x.2) % M16) 0
    (cnt, h)

inductive Listing
  | nodes (ch : List (Nat × Nat))          -- 16 × (hash, count)
  | items (es : List Ent)                   -- entries under the prefix (live and tombstones)
  | none
deriving Repr

def digitsVal (ds : List Nat) : Nat := ds.foldl (fun a d => a * 16 + d) 0

/-- `HTree.ListDir` of the bucket tree (depth digits name the bucket, `height` levels) at prefix `ds`
    (length ≥ depth), over the content of that bucket -/
def listBucket (c : Content) (depth height thrList : Nat) (ds : List Nat) : Listing :=
  let L := ds.length
  let l := min L (depth + height - 1)
  let level := l - depth
  let p := digitsVal (ds.take l)
  let node := nodeSum c l p (height - 1 - level)
  if level ≥ height - 1 ∨ node.1 < thrList then
    .items (under c L (digitsVal ds))
  else
    .nodes ((List.range 16).map (fun i => let s := nodeSum c (l + 1) (p * 16 + i) (height - 2 - level); (s.2, s.1)))

/-- `HStore.ListUpper`: prefix shorter than the bucket depth; `root b` is the root summary of bucket `b`
    (zero for a bucket that is not served) -/
def upperSum (root : Nat → Nat × Nat) (depth : Nat) (n : Nat) (p : Nat) : Nat → Nat × Nat
  | 0 => root p
  | below + 1 =>
    let ch := (List.range 16).map (fun i => upperSum root depth (n + 1) (p * 16 + i) below)
    (ch.foldl (fun a x => a + x.1) 0, ch.foldl (fun h x => (h * 97 + x.2) % M16) 0)

def listUpper (root : Nat → Nat × Nat) (depth : Nat) (ds : List Nat) : Listing :=
  let L := ds.length
  let p := digitsVal ds
  .nodes ((List.range 16).map (fun i => let s := upperSum root depth (L + 1) (p * 16 + i) (depth - L - 1); (s.2, s.1)))

/-! incremental leaf bookkeeping -/

structure Leaf where
  items : List Ent := []        -- insertion order; one per key hash
  count : Nat := 0
  hash  : Nat := 0              -- mod 2^16
deriving Repr

def Leaf.find (lf : Leaf) (kh : Nat) : Option Ent := lf.items.find? (fun e => e.khash == kh)

/-- `setToLeaf`: replace or append the item; adjust count and hash by the difference -/
def Leaf.set (lf : Leaf) (e : Ent) : Leaf :=
  let old := lf.find e.khash
  let items := match old with
    | some _ => lf.items.map (fun x => if x.khash == e.khash then e else x)
    | none => lf.items ++ [e]
  let addC := if e.ver > 0 then 1 else 0
  let addH := if e.ver > 0 then e.vhash % M16 else 0
  let (subC, subH) := match old with
    | some o => if o.ver > 0 then (1, o.vhash % M16) else (0, 0)
    | none => (0, 0)
  -- node.hash += (vhashNew - vhashOld) * uint16(khash>>32)   in uint16 arithmetic
  let k := (e.khash / 2^32) % M16
  { items := items, count := lf.count + addC - subC,
    hash := (lf.hash + ((addH + M16 - subH) % M16) * k) % M16 }

/-- `remvoeFromLeaf` (remove by key hash) -/
def Leaf.remove (lf : Leaf) (kh : Nat) : Leaf :=
  match lf.find kh with
  | none => lf
  | some o =>
    let k := (kh / 2^32) % M16
    { items := lf.items.filter (fun x => x.khash != kh),
      count := if o.ver > 0 then lf.count - 1 else lf.count,
      hash := if o.ver > 0 then (lf.hash + M16 - ((o.vhash % M16) * k) % M16) % M16 else lf.hash }

end Tree
