/-
  Implementation-level model of the in-memory Merkle tree of store/htree.go with LAZY inner-node summaries (C08).

  Model/Tree.lean holds the content-level SPECIFICATION (`Tree.nodeSum`, `Tree.listBucket`) and the incremental
  leaf bookkeeping (`Tree.Leaf`).  This file adds the inner levels as the code has them:

      levels [][]Node          Node{count uint32, hash uint16, isHashUpdated bool}
      leafs  []SliceHeader

  * `levels[0 .. height-2]`  -> `HTree.inner : List (List Node)`   (row i has 16^i nodes)
  * `levels[height-1]` + `leafs[]` -> `HTree.leaves : List Tree.Leaf` (16^(height-1) leaves; a `Leaf` carries the items
    and the leaf NODE's (count, hash)).  The leaf nodes' `isHashUpdated` is set to true by `newHTree` and no
    code path ever clears it when height >= 2 (`getLeafAndInvalidNodes` clears levels[0][0] and levels[1..height-2]
    only), so it is not stored: `HTree.node` reports it as `true`.

  Every function follows the Go function named in its comment, in the order the Go code performs its steps.
  Run-time panics of the Go code are `none`.  Core-only, executable.

  Abstractions (see REPORT.md): counts are unbounded naturals (Go: uint32, no wrap below 2^32 live keys per bucket);
  a leaf stores the full 64-bit key hash (Go: the low TreeKeyHashLen bytes, the rest is rebuilt from the node path);
  the position test of `SliceHeader.Remove` / `movePos` is an oracle boolean (a `Tree.Ent` carries no position);
  the bit mask of the item filter `(filtermask & h) == ki.KeyHash` of `listDir` is written with / and * by a power of 16.
-/
import GoBeans.Model.Tree

deriving instance DecidableEq for Tree.Leaf
deriving instance DecidableEq for Tree.Listing

namespace HTreeImpl
open Tree

/-- `Node` (htree.go:61).  `count` : uint32, `hash` : uint16 (kept `< 2^16`), `upd` : `isHashUpdated`.
    The zero value of Go (`make([]Node, n)`) is `{}` : count 0, hash 0, flag false. -/
structure Node where
  count : Nat := 0
  hash  : Nat := 0
  upd   : Bool := false
deriving DecidableEq, Repr

instance : Inhabited Node := ⟨{}⟩

/-- `HTree` (htree.go:25): `depth`, `bucketID`, `levels`, `leafs` (the lock and the scratch `ni` are not state). -/
structure HTree where
  depth    : Nat
  bucketID : Nat
  inner    : List (List Node)      -- levels[0 .. height-2]
  leaves   : List Leaf             -- levels[height-1] (count, hash) together with leafs[]
deriving Repr, DecidableEq

/-- `len(tree.levels)` -/
def HTree.height (t : HTree) : Nat := t.inner.length + 1

/-- `newHTree` (htree.go:79).  Panics ("HTree too high") when depth+height > MAX_DEPTH; with height = 0 the
    expression `tree.levels[height-1]` panics (index -1).  All inner nodes start as the zero value (flag FALSE),
    the leaf nodes are flagged, all leaves are empty. -/
def newHTree (depth bucketID height : Nat) : Option HTree :=
  if depth + height > Gen.MAX_DEPTH then none
  else if height = 0 then none
  else some { depth := depth, bucketID := bucketID,
              inner := (List.range (height - 1)).map (fun i => List.replicate (16 ^ i) {}),
              leaves := List.replicate (16 ^ (height - 1)) {} }

/-- `tree.levels[level][offset]` for an inner level (the zero node when out of range; the invariant `Shape`
    of Lemmas/HTreeImpl.lean shows that the code never indexes out of range) -/
def HTree.innerNode (t : HTree) (level offset : Nat) : Node := (t.inner.getD level []).getD offset default

/-- `tree.leafs[offset]` with the leaf node `tree.levels[height-1][offset]` -/
def HTree.leaf (t : HTree) (offset : Nat) : Leaf := t.leaves.getD offset {}

/-- `tree.levels[level][offset]` at any level -/
def HTree.node (t : HTree) (level offset : Nat) : Node :=
  if level + 1 = t.height then { count := (t.leaf offset).count, hash := (t.leaf offset).hash, upd := true }
  else t.innerNode level offset

/-- assignment `tree.levels[level][offset] = nd` (inner level) -/
def HTree.setInner (t : HTree) (level offset : Nat) (nd : Node) : HTree :=
  { t with inner := t.inner.set level ((t.inner.getD level []).set offset nd) }

/-- `tree.levels[level][offset].isHashUpdated = false` -/
def HTree.clearFlag (t : HTree) (level offset : Nat) : HTree :=
  t.setInner level offset { t.innerNode level offset with upd := false }

/-- assignment to `tree.leafs[offset]` / `tree.levels[height-1][offset]` -/
def HTree.setLeaf (t : HTree) (offset : Nat) (lf : Leaf) : HTree :=
  { t with leaves := t.leaves.set offset lf }

/-- `ParsePathUint64` (key.go:82): `KeyPath[i] = (khash >> 4*(15-i)) & 0xf`, i < 16 -/
def pathDigit (kh i : Nat) : Nat := (kh / 16 ^ (15 - i)) % 16

/-- the offset after `k` rounds of `offset = offset*16 + path[level-1]`, `path = ki.KeyPath[tree.depth:]`,
    level = 1..k  (the loop of `getLeaf`, htree.go:241, and of `getLeafAndInvalidNodes`, htree.go:255) -/
def offsetAt (kh depth : Nat) : Nat → Nat
  | 0 => 0
  | k + 1 => offsetAt kh depth k * 16 + pathDigit kh (depth + k)

/-- `getLeaf` (htree.go:237): `ni.offset` after `len(levels)-1` rounds -/
def leafOffset (t : HTree) (kh : Nat) : Nat := offsetAt kh t.depth (t.height - 1)

/-- `getLeafAndInvalidNodes` lines 254-258 after `k` rounds of the loop:
      tree.levels[0][0].isHashUpdated = false
      for level := 1; level < len(levels)-1; level++ { offset = offset*16+path[level-1]; levels[level][offset].isHashUpdated = false }
    (round k+1 is `level = k+1`).  Returns the tree and `ni.offset`. -/
def invalLoop (kh : Nat) (t : HTree) : Nat → HTree × Nat
  | 0 => (t.clearFlag 0 0, 0)
  | k + 1 =>
    let r := invalLoop kh t k
    let off := r.2 * 16 + pathDigit kh (t.depth + k)
    (r.1.clearFlag (k + 1) off, off)

/-- `getLeafAndInvalidNodes` (htree.go:249).  With `len(levels) = 1`, `ni.level = 0` and line 259 evaluates
    `path[ni.level-1] = path[-1]`: a run-time panic (after levels[0][0] — the only leaf node — was unflagged).
    Otherwise: the loop runs for level 1..height-2, line 259 adds the last digit, the leaf offset is returned. -/
def getLeafAndInvalidNodes (t : HTree) (kh : Nat) : Option (HTree × Nat) :=
  if t.height < 2 then none
  else
    let r := invalLoop kh t (t.height - 2)
    some (r.1, r.2 * 16 + pathDigit kh (t.depth + (t.height - 2)))

/-- `HTree.set` / `setReq` (htree.go:288/297): invalidate the path, then `setToLeaf` (= `Tree.Leaf.set`) -/
def set (t : HTree) (e : Ent) : Option HTree :=
  match getLeafAndInvalidNodes t e.khash with
  | none => none
  | some (t1, off) => some (t1.setLeaf off ((t1.leaf off).set e))

/-- `HTree.remove` (htree.go:330): invalidate the path FIRST, then `remvoeFromLeaf`.  `posOk` is the outcome of
    `oldPos.ChunkID == -1 || oldm.Pos.Offset == oldPos.Offset` (leaf.go:146): when false nothing is removed, but the
    path has been invalidated all the same. -/
def remove (t : HTree) (kh : Nat) (posOk : Bool) : Option HTree :=
  match getLeafAndInvalidNodes t kh with
  | none => none
  | some (t1, off) => some (if posOk then t1.setLeaf off ((t1.leaf off).remove kh) else t1)

/-- `HTree.getReq` (htree.go:347): `getLeaf` then `SliceHeader.Get`; no flag is touched -/
def get (t : HTree) (kh : Nat) : Option Ent := (t.leaf (leafOffset t kh)).find kh

/-- `HTree.movePos` (htree.go:307): look the item up; when found and `req.item.Pos == oldPos` (`posEq`) write the
    same (ver, vhash) back through `getLeafAndInvalidNodes` + `setToLeaf` (only the position, not modelled, differs) -/
def movePos (t : HTree) (kh : Nat) (posEq : Bool) : Option HTree :=
  match get t kh with
  | none => some t
  | some it => if posEq then set t it else some t

/-- the second loop of `updateNodes` (htree.go:375-381), uint16 arithmetic step by step:
      node.hash = 0; for i { if node.count > ThresholdBigHash { node.hash *= 97 }; node.hash += hashs[i] } -/
def foldHash (count : Nat) (hashs : List Nat) : Nat :=
  hashs.foldl (fun h x => ((if count > Gen.ThresholdBigHash then (h * 97) % M16 else h) + x) % M16) 0

/-- state of the first loop of `updateNodes`: the tree (children are updated in place), `node.count`, `hashs[0..i)` -/
structure UpdAcc where
  t : HTree
  count : Nat
  hashs : List Nat

/-- `updateNodes(level, offset)` (htree.go:363).  `fuel` = number of levels below `level` (`height-1-level`);
    at the leaf level the node is always flagged, so the call returns it.
    Not flagged: children 0..15 are updated IN ORDER by recursive calls (each may rewrite nodes below it),
    their counts are added up, their hashes collected; then the hash is folded, the node is written with the flag set. -/
def updateNodes : Nat → HTree → Nat → Nat → HTree × Node
  | 0, t, level, offset => (t, t.node level offset)
  | fuel + 1, t, level, offset =>
    let node := t.node level offset
    if node.upd then (t, node)
    else
      match (List.range 16).foldl (fun (acc : UpdAcc) i =>
        match updateNodes fuel acc.t (level + 1) (offset * 16 + i) with
        | (t', cnode) => { t := t', count := acc.count + cnode.count, hashs := acc.hashs ++ [cnode.hash] }) ⟨t, 0, []⟩ with
      | ⟨t', count, hashs⟩ =>
        match (⟨count, foldHash count hashs, true⟩ : Node) with
        | nd => (t'.setInner level offset nd, nd)

/-- `updateNodes(level, offset)` called on a tree of this height -/
def updateAt (t : HTree) (level offset : Nat) : HTree × Node := updateNodes (t.height - 1 - level) t level offset

/-- `HTree.Update` (htree.go:357): `updateNodes(0, 0)`; the caller (`HStore.updateNodesUpper`) reads count and hash
    of the returned root -/
def update (t : HTree) : HTree × Node := updateAt t 0 0

/-- what `HStore.NumKey` (hstore.go:182; `stats curr_items`) reads: `htree.levels[0][0].count`, with NO call of
    `updateNodes` (and without the tree lock) -/
def rootCountNoUpdate (t : HTree) : Nat := (t.node 0 0).count

/-- `digitsVal` of the part of the path below the bucket: the loop of `getNode` (htree.go:275) -/
def getNodePos (t : HTree) (ds : List Nat) : Nat × Nat :=
  let l := min ds.length (t.depth + t.height - 1)
  (l - t.depth, ((ds.take l).drop t.depth).foldl (fun o d => o * 16 + d) 0)

/-- `collectItems` (htree.go:386) from a node with `fuel` levels below it: at the leaf `SliceHeader.Iter` in storage
    order filtered by `keep`; above, children 0..15 in order -/
def collectItems (t : HTree) (keep : Ent → Bool) : Nat → Nat → List Ent
  | 0, offset => (t.leaf offset).items.filter keep
  | fuel + 1, offset => (List.range 16).flatMap (fun i => collectItems t keep fuel (offset * 16 + i))

/-- `filtermask & h` of `listDir` (htree.go:423-425): `filtermask = (0xffff_ffff_ffff_ffff >> shift) << shift`,
    `shift = 64 - 4*len(ki.StringKey)` keeps the top `L` hex digits of the 64-bit `h` and clears the rest
    (`L = 0`: shift 64, Go shifts everything out, mask 0).  Written arithmetically: (h / 16^(16-L)) * 16^(16-L). -/
def maskTop (h L : Nat) : Nat := (h / 16 ^ (16 - L)) * 16 ^ (16 - L)

/-- `setKeyHashByPath` (key.go:118): `ki.KeyHash` of a path key = its digits from bit 60 downwards -/
def pathKeyHash (ds : List Nat) : Nat := digitsVal ds * 16 ^ (16 - ds.length)

/-- the filter of `collectItems`: `(filtermask & h) == filterkeyhash` -/
def keepItem (ds : List Nat) (e : Ent) : Bool := maskTop e.khash ds.length == pathKeyHash ds

/-- `listDir` (htree.go:411) for the path digits `ds` (`ki.KeyPath`, `len(ki.StringKey) = ds.length`), list-keys
    threshold `thr`: locate the node (`len == depth`: the root, else `getNode`), `updateNodes` on it, then
    either the items below it that match the prefix, or its 16 children AS STORED (they are not updated one by one). -/
def listDir (t : HTree) (thr : Nat) (ds : List Nat) : HTree × Listing :=
  let pos := if ds.length = t.depth then (0, 0) else getNodePos t ds
  let r := updateAt t pos.1 pos.2
  if pos.1 ≥ t.height - 1 ∨ r.2.count < thr then
    (r.1, .items (collectItems r.1 (keepItem ds) (t.height - 1 - pos.1) pos.2))
  else
    (r.1, .nodes ((List.range 16).map (fun i =>
      let n := r.1.node (pos.1 + 1) (pos.2 * 16 + i); (n.hash, n.count))))

/-- `HTree.ListDir` (htree.go:437): "bad dir path to list: too short" when `len(ki.Key) < tree.depth` (= `none`) -/
def ListDir (t : HTree) (thr : Nat) (ds : List Nat) : Option (HTree × Listing) :=
  if ds.length < t.depth then none else some (listDir t thr ds)

/-- `HTree.load` (htree.go:107) on a tree just made by `newHTree`: the dump file gives the leaf nodes (count, hash)
    and the raw leaves - here together as `Leaf`s; a file with fewer than 16^(height-1) of them is a read error
    (`none`; the caller then starts from an empty tree).  Inner nodes stay as `newHTree` made them: NOT flagged.
    Nothing checks the stored leaf summaries against the stored items (the dump is trusted).
    The closing `ListTop()` is the separate call `listTop`. -/
def load (t : HTree) (leaves : List Leaf) : Option HTree :=
  if leaves.length < 16 ^ (t.height - 1) then none
  else some { t with leaves := leaves.take (16 ^ (t.height - 1)) }

/-- the path `ListTop` (htree.go:463) lists: `fmt.Sprintf("%x", tree.bucketID)` - hex WITHOUT padding to `depth`
    digits: one digit for bucket ids below 16 (also "0" when depth = 0), two from 16 to 255 -/
def listTopPath (bucketID : Nat) : List Nat := if bucketID < 16 then [bucketID] else [bucketID / 16, bucketID % 16]

/-- `ListTop`: `ListDir` of that path with the default threshold; the reply is only logged, errors are dropped -/
def listTop (t : HTree) : HTree :=
  match ListDir t Gen.ThresholdListKeyDefault (listTopPath t.bucketID) with
  | none => t
  | some r => r.1

/-! ### operation sequences -/

inductive Op
  | set (e : Ent)
  | remove (kh : Nat) (posOk : Bool)
  | movePos (kh : Nat) (posEq : Bool)
  | update
  | list (thr : Nat) (ds : List Nat)
deriving Repr, DecidableEq

inductive Out
  | done
  | node (count hash : Nat)
  | listing (l : Listing)
  | err                                  -- ListDir: path too short
deriving Repr, DecidableEq

/-- one call; `none` = the Go code panics -/
def step (t : HTree) : Op → Option (HTree × Out)
  | .set e => (set t e).map (fun t' => (t', .done))
  | .remove kh p => (remove t kh p).map (fun t' => (t', .done))
  | .movePos kh p => (movePos t kh p).map (fun t' => (t', .done))
  | .update => let r := update t; some (r.1, .node r.2.count r.2.hash)
  | .list thr ds =>
    match ListDir t thr ds with
    | none => some (t, .err)
    | some r => some (r.1, .listing r.2)

/-- a sequence of calls: final tree and all outputs -/
def run : HTree → List Op → Option (HTree × List Out)
  | t, [] => some (t, [])
  | t, op :: ops =>
    match step t op with
    | none => none
    | some (t1, o) =>
      match run t1 ops with
      | none => none
      | some (t2, os) => some (t2, o :: os)

/-- the content of the tree: the items of all leaves, in leaf order -/
def content (t : HTree) : Content := t.leaves.flatMap (·.items)

/-! ### sanity evaluations -/
section sanity
def k1 : Ent := { khash := 0x1234567890abcdef, ver := 2, vhash := 777 }
def k2 : Ent := { khash := 0x1299567890abcdef, ver := 1, vhash := 5 }
def k3 : Ent := { khash := 0x1f00000000000001, ver := 3, vhash := 9 }
def t0 : HTree := (newHTree 1 1 3).getD ⟨0, 0, [], []⟩

example : newHTree 1 0 8 = none := by decide
example : (newHTree 1 0 0).isNone = true := by decide
example : t0.height = 3 := by decide
example : pathDigit 0x1234567890abcdef 0 = 1 ∧ pathDigit 0x1234567890abcdef 15 = 0xf := by decide
example : leafOffset t0 k1.khash = 0x23 := by decide
-- height 1: `set` panics
example : ((newHTree 0 0 1).bind (fun t => set t k1)).isNone = true := by decide
end sanity

end HTreeImpl
