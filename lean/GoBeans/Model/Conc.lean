/-
  Concurrent clients (C04, C05): the per-key register a bucket implements when every write takes effect atomically at
  one point between its invocation and its response (the tree update under the bucket write lock), and the
  conditions the property states on a recorded history of one key:
    (A) a read returns a value some write of that key stored (or the initial absence), invoked before the read
        ended, and not older than any write acknowledged before the read began;
    (B) accepted writes get distinct versions that respect real time (acknowledged before the other is issued ⇒ smaller);
    (C) a read issued after everything has stopped sees the highest version — (A) for a read that begins after every response.
  `checkA`/`checkB` are the executable oracle of engine `conc`; Lemmas/Conc.lean proves that EVERY atomic execution
  passes them (so the oracle never blames an implementation whose writes are atomic), Props/C04.lean states it.
  Versions are absolute values (a delete carries the negated version on disk).  Core-only.
-/
namespace Conc

inductive AOp
  | write (val : Nat)          -- val ≠ 0: identifies the bytes written (unique per write in the harness)
  | delete
  | read
deriving DecidableEq, Repr

structure Reg where
  ver : Nat := 0
  val : Nat := 0               -- 0: no live value
deriving DecidableEq, Repr

inductive Out
  | acc (ver : Nat)            -- write / delete accepted with this |version|
  | rej                        -- delete of an absent key
  | got (val ver : Nat)        -- read
deriving DecidableEq, Repr

def valOf : AOp → Nat
  | .write v => v
  | _ => 0

def regStep (r : Reg) : AOp → Reg × Out
  | .write v => ({ ver := r.ver + 1, val := v }, .acc (r.ver + 1))
  | .delete => if r.val ≠ 0 then ({ ver := r.ver + 1, val := 0 }, .acc (r.ver + 1)) else (r, .rej)
  | .read => (r, .got r.val r.ver)

/-- one completed operation on one key as recorded; `lin` is only used by the theorems (the checks ignore it) -/
structure Ev where
  op : AOp
  inv : Nat
  resp : Nat
  out : Out
  lin : Nat := 0
deriving DecidableEq, Repr

def accVer : Out → Option Nat
  | .acc v => some v
  | _ => none

/-- (A) for one read -/
def readOK (h : List Ev) (r : Ev) : Bool :=
  match r.out with
  | .got val ver =>
    ((ver == 0 && val == 0) || h.any (fun w => accVer w.out == some ver && decide (w.inv < r.resp) && valOf w.op == val))
    && h.all (fun w => match accVer w.out with
        | some vw => !(decide (w.resp < r.inv)) || decide (vw ≤ ver)
        | none => true)
  | _ => true

def checkA (h : List Ev) : Bool := h.all (readOK h)

/-- (B) -/
def checkB (h : List Ev) : Bool :=
  h.all (fun a => h.all (fun b => match accVer a.out, accVer b.out with
    | some va, some vb => !(decide (a.resp < b.inv)) || decide (va < vb)
    | _, _ => true))
  && ((h.filterMap (fun e => accVer e.out)).Nodup : Bool)

/-! atomic executions -/

structure Step where
  op : AOp
  inv : Nat
  lin : Nat
  resp : Nat
deriving Repr

def run (r : Reg) : List Step → List Ev
  | [] => []
  | s :: ss => { op := s.op, inv := s.inv, resp := s.resp, out := (regStep r s.op).2, lin := s.lin } :: run (regStep r s.op).1 ss

def Valid (ss : List Step) : Prop :=
  (∀ s ∈ ss, s.inv < s.lin ∧ s.lin < s.resp) ∧ ss.Pairwise (fun a b => a.lin < b.lin)

end Conc

/-! ### GC beside clients (C05): one key's tree item and the records it may point at -/
namespace Conc

structure Item where
  ver : Nat := 0
  pos : Nat := 0
deriving DecidableEq, Repr

/-- the tree item of one key and the value id stored at every position of the bucket (0: nothing / a delete marker) -/
structure KeyState where
  item : Item := {}
  data : Nat → Nat := fun _ => 0

def KeyState.reg (s : KeyState) : Reg := { ver := s.item.ver, val := s.data s.item.pos }

inductive GStep
  | client (op : AOp) (pos : Nat)     -- a client operation; a write or delete appends its record at position `pos`
  | gcCopy (old new : Nat)            -- GC appends a copy of the record at `old` at position `new`
  | gcMove (old new : Nat)            -- GC repoints the item from `old` to `new` IF it still points at `old` (one step)
  | gcMoveBlind (old new : Nat)       -- the historical repoint: whatever the item points at now (kept to state the defect)
deriving Repr

def setData (d : Nat → Nat) (p v : Nat) : Nat → Nat := fun q => if q = p then v else d q

def gstep (s : KeyState) : GStep → KeyState
  | .client (.write v) p => { item := { ver := s.item.ver + 1, pos := p }, data := setData s.data p v }
  | .client .delete p =>
    if s.data s.item.pos ≠ 0 then { item := { ver := s.item.ver + 1, pos := p }, data := setData s.data p 0 } else s
  | .client .read _ => s
  | .gcCopy old new => { s with data := setData s.data new (s.data old) }
  | .gcMove old new => if s.item.pos = old then { s with item := { s.item with pos := new } } else s
  | .gcMoveBlind _ new => { s with item := { s.item with pos := new } }

/-- positions are used once: what a client or GC writes to is neither the current position nor one GC is working with -/
def stepFresh (s : KeyState) (busy : List Nat) : GStep → Prop
  | .client _ p => p ≠ s.item.pos ∧ p ∉ busy
  | .gcCopy old new => new ≠ s.item.pos ∧ new ≠ old ∧ new ∉ busy
  | _ => True

def clientOp : GStep → Option AOp
  | .client op _ => some op
  | _ => none

end Conc
