/-
  HintMerge (C14) — step-by-step model of the k-way merge of hint files in store/hintmerge.go
  (`merge`, `mergeHeap`, `mergeWriter.write`, `mergeWriter.flush`) and of the part of
  store/collision.go (`CollisionTable.compareAndSet`) the merge talks to.

  `Hint.merge` (Model/Hint.lean) is the FUNCTIONAL description (sort everything, keep the last of each run,
  filter the groups); this file is the OPERATIONAL one: a priority queue of readers, one `write` per pop,
  `flush` when the key hash changes and once more at the end.  Lemmas/HintMerge.lean proves that the two
  agree on every input the real code is meant for, and what the output is.

  The priority queue is a parameter (`HeapImpl`): the theorems hold for every implementation that returns a
  minimum of the code's `Less`; two implementations are given, the plain list one (`listHeap`: pop = first
  minimal element) and the exact array algorithms of Go's container/heap (`goHeap`: Init / Pop / Push with
  up / down), which is what the real code runs.  They can differ only when two sources hold the same
  (khash, key) at the same position (same chunk id and offset) — see REPORT.md.

  Core-only, executable.
-/
import GoBeans.Model.Hint

namespace HintMerge
open Hint

/-- hintmerge.go:108 / :145  `curr.Pos.ChunkID = r.chunkID` : every item read from a source gets the chunk id
    of the reader (whatever the file said). -/
def tag (c : Nat) (it : Item) : Item := { it with chunk := c }

/-- `mergeReader` (hintmerge.go:10-13): `r` = the chunk id of the reader and the items not yet read from its
    file, `curr` = the item read last (already tagged). -/
structure Reader where
  chunk : Nat
  curr : Item
  rest : List Item
deriving DecidableEq, Repr

/-- `mergeHeap.Less` (hintmerge.go:70-82): key hash, then key (Go string comparison = byte-wise
    lexicographic = `<` on `List UInt8`), then `Pos.CmpKey()` = `int64(ChunkID)<<32 + int64(Offset)`
    (item.go:199; `Hint.posKey`; no overflow for chunk ids < 2^31, the real ones are < 256). -/
def less (a b : Reader) : Bool := Hint.itemLt a.curr b.curr

/-- hintmerge.go:141-147  `mr.curr, err = mr.r.next()`; `nil` at the end of the file (hintfile.go:90),
    otherwise the chunk id is set and the reader goes back on the heap. -/
def Reader.next (r : Reader) : Option Reader :=
  match r.rest with
  | [] => none
  | x :: xs => some { r with curr := tag r.chunk x, rest := xs }

/-- hintmerge.go (merge, the opening loop): open every source and read its first item; a source WITHOUT items offers
    nothing and does not enter the queue (since /repo "fix: a hint file without items made the merge panic"; before it
    `hp[i].curr.Pos.ChunkID = …` dereferenced nil).  The result type is kept: `none` = a Go panic, which no longer occurs. -/
def openAll : List (Nat × List Item) → Option (List Reader)
  | [] => some []
  | (_, []) :: ss => openAll ss
  | (c, x :: xs) :: ss =>
    match openAll ss with
    | none => none
    | some rs => some ({ chunk := c, curr := tag c x, rest := xs } :: rs)

/-! ### mergeWriter -/

/-- `mergeWriter` (hintmerge.go:15-20).  `bufRev` is `buf[0:num]` as a stack, newest first (the code only
    ever looks at `buf[num-1]`); `out` = the `writeItem` calls so far, `coll` = the `compareAndSet` calls so
    far, both in call order. -/
structure Writer where
  bufRev : List Item := []
  out : List Item := []
  coll : List Item := []
deriving DecidableEq, Repr

/-- `mergeWriter.flush` (hintmerge.go:54-65): a buffer of more than one item (= different keys with one hash)
    goes to the collision table, then the buffer is written.  `num` is NOT reset here (the caller does). -/
def flush (w : Writer) : Writer :=
  { w with coll := if w.bufRev.length > 1 then w.coll ++ w.bufRev.reverse else w.coll,
           out := w.out ++ w.bufRev.reverse }

/-- `mergeWriter.write` (hintmerge.go:30-52) -/
def write (w : Writer) (it : Item) : Writer :=
  match w.bufRev with
  | [] => { w with bufRev := [it] }                                   -- num == 0: the first
  | last :: tl =>
    if last.khash ≠ it.khash then { flush w with bufRev := [it] }     -- flush(); num = 1; buf[0] = it
    else if last.key ≠ it.key then { w with bufRev := it :: last :: tl }   -- num += 1; buf[num-1] = it
    else { w with bufRev := it :: tl }                                -- same key: buf[num-1] = it (overwrite)

/-! ### the priority queue -/

/-- what `merge` needs from container/heap, over the slice `mergeHeap` -/
structure HeapImpl where
  init : List Reader → List Reader
  pop : List Reader → Option (Reader × List Reader)
  push : List Reader → Reader → List Reader

/-- "pop the minimum by the code's Less" on a plain list: the first element that no later element is
    `less` than -/
def popMin : List Reader → Option (Reader × List Reader)
  | [] => none
  | r :: rs =>
    match popMin rs with
    | none => some (r, [])
    | some (m, rest) => if less m r then some (m, r :: rest) else some (r, rs)

def listHeap : HeapImpl := { init := id, pop := popMin, push := fun h r => h ++ [r] }

/-! the array algorithms of Go's container/heap (go1.23 src/container/heap/heap.go) over `mergeHeap` -/

/-- `h.Less(i, j)` -/
def lessAt (h : List Reader) (i j : Nat) : Bool :=
  match h[i]?, h[j]? with
  | some a, some b => less a b
  | _, _ => false

/-- `h.Swap(i, j)` -/
def swap (h : List Reader) (i j : Nat) : List Reader :=
  match h[i]?, h[j]? with
  | some a, some b => (h.set i b).set j a
  | _, _ => h

/-- `heap.down(h, i, n)`; the loop runs at most log n times, `fuel` = n is plenty -/
def down (n : Nat) : Nat → List Reader → Nat → List Reader
  | 0, h, _ => h
  | fuel + 1, h, i =>
    let j1 := 2 * i + 1
    if j1 ≥ n then h else
    let j := if j1 + 1 < n ∧ lessAt h (j1 + 1) j1 then j1 + 1 else j1
    if !lessAt h j i then h else down n fuel (swap h i j) j

/-- `heap.up(h, j)`; `(j-1)/2` is 0 for j = 0 in Go (truncation) and in `Nat` -/
def up : Nat → List Reader → Nat → List Reader
  | 0, h, _ => h
  | fuel + 1, h, j =>
    let i := (j - 1) / 2
    if i = j ∨ !lessAt h j i then h else up fuel (swap h i j) i

/-- `heap.Init`: `for i := n/2 - 1; i >= 0; i-- { down(h, i, n) }` -/
def heapInit (h : List Reader) : List Reader :=
  let n := h.length
  (List.range (n / 2)).reverse.foldl (fun a i => down n n a i) h

/-- `heap.Pop`: `n := Len()-1; Swap(0, n); down(0, n); return h.Pop()` (`mergeHeap.Pop` cuts the last) -/
def heapPop (h : List Reader) : Option (Reader × List Reader) :=
  match h with
  | [] => none
  | _ :: _ =>
    let n := h.length - 1
    let h1 := down n n (swap h 0 n) 0
    match h1[n]? with
    | some x => some (x, h1.take n)
    | none => none

/-- `heap.Push`: `mergeHeap.Push` appends, then `up(Len()-1)` -/
def heapPush (h : List Reader) (r : Reader) : List Reader :=
  up (h.length + 1) (h ++ [r]) h.length

def goHeap : HeapImpl := { init := heapInit, pop := heapPop, push := heapPush }

/-! ### the merge loop -/

/-- hintmerge.go:131-149, `fuel` iterations of
    `for len(h) > 0 { mr := heap.Pop(&h); mw.write(mr.curr); mr.curr = mr.r.next(); if mr.curr != nil { heap.Push(&h, mr) } }`;
    returns the heap and the writer it stopped with -/
def loop (I : HeapImpl) : Nat → List Reader → Writer → List Reader × Writer
  | 0, h, w => (h, w)
  | fuel + 1, h, w =>
    match I.pop h with
    | none => (h, w)
    | some (mr, h') =>
      let w' := write w mr.curr
      match mr.next with
      | none => loop I fuel h' w'
      | some mr' => loop I fuel (I.push h' mr') w'

def totalItems (srcs : List (Nat × List Item)) : Nat := (srcs.map (fun s => s.2.length)).sum

/-- `merge` up to and including the `mw.flush()` after the loop (hintmerge.go:96-154), the loop cut after
    `steps` iterations; `none` = the nil-dereference panic of an empty source -/
def run (I : HeapImpl) (steps : Nat) (srcs : List (Nat × List Item)) : Option (List Reader × Writer) :=
  match openAll srcs with
  | none => none
  | some hp =>
    let r := loop I steps (I.init hp) {}
    some (r.1, flush r.2)

inductive Outcome where
  /-- nil dereference at hintmerge.go:108: some source has no item -/
  | panic
  /-- the loop ran to the end: `out` = the items handed to `writeItem` in order (they reach the merged file
      only if `mw.w != nil`, i.e. `!Conf.NoMerged && !forGC` and the file could be created),
      `coll` = the items handed to `ct.compareAndSet(_, "merge")` in order -/
  | ok (out coll : List Item)
  /-- the loop was left early (`aborted by gc` at the loop head, or a read error after a pop): `mw.flush()`
      still runs, so the collision reports of the prefix stay; the destination file is removed -/
  | aborted (coll : List Item)
deriving DecidableEq, Repr

/-- the merge with the loop left after `steps` iterations if the heap is not empty by then -/
def kwayAbort (I : HeapImpl) (steps : Nat) (srcs : List (Nat × List Item)) : Outcome :=
  match run I steps srcs with
  | none => .panic
  | some ([], w) => .ok w.out w.coll
  | some (_ :: _, w) => .aborted w.coll

/-- the undisturbed merge: every iteration pops one item, so `totalItems` iterations empty the heap -/
def kway (I : HeapImpl) (srcs : List (Nat × List Item)) : Outcome :=
  kwayAbort I (totalItems srcs) srcs

/-! ### the inputs the code is meant for -/

/-- the order of a hint file: (khash, key) -/
def keyLt (a b : Item) : Bool :=
  if a.khash ≠ b.khash then a.khash < b.khash else a.key < b.key

/-- strictly increasing by (khash, key): sorted, and no (khash, key) twice -/
def srcSorted : List Item → Bool
  | [] => true
  | [_] => true
  | a :: b :: t => keyLt a b && srcSorted (b :: t)

/-- every source has an item and is strictly sorted by (khash, key) -/
def srcsOK (srcs : List (Nat × List Item)) : Bool :=
  srcs.all (fun s => !s.2.isEmpty && srcSorted s.2)

/-- all the items of all the sources, tagged with the chunk id of their source (the same list `Hint.merge`
    sorts) -/
def allItems (srcs : List (Nat × List Item)) : List Item :=
  srcs.flatMap (fun s => s.2.map (tag s.1))

/-- two items the code's `Less` cannot order: same hash, key and position -/
def posTie (a b : Item) : Bool :=
  a.khash = b.khash && a.key = b.key && posKey a = posKey b

/-- no two entries of the list tie -/
def noTies : List Item → Bool
  | [] => true
  | a :: t => t.all (fun b => !posTie a b) && noTies t

/-- a sufficient, source-level condition for `noTies (allItems srcs)`: different chunk ids, offsets are uint32 -/
def distinctChunks (srcs : List (Nat × List Item)) : Bool :=
  decide (srcs.map (·.1)).Nodup && srcs.all (fun s => s.2.all (fun it => it.off < 2^32))

/-! ### the collision table -/

/-- `CollisionTable.compareAndSet(it, "merge")` (collision.go:36-52) on a table kept as a list: an entry for
    (khash, key) is replaced iff the new position is ≥ the old one, a new (khash, key) is added -/
def ctSet : List Item → Item → List Item
  | [], it => [it]
  | o :: t, it =>
    if o.khash = it.khash ∧ o.key = it.key then (if posKey it ≥ posKey o then it :: t else o :: t)
    else o :: ctSet t it

def ctGet (t : List Item) (kh : Nat) (key : Bytes) : Option Item :=
  t.find? (fun o => o.khash = kh ∧ o.key = key)

end HintMerge
