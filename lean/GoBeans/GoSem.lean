/-
  GoSem — the handful of Go semantics helpers that the regenerated kernels
  (`GoBeans/Gen/*.lean`, written by tools/go2lean from /repo on every run) refer to.
  Core-only: this file is linked into the driver executable.

  Conventions of the translation (see DESIGN.md §2.2 A):
  * Go `uintN`/`intN`  ↦ Lean `UIntN`/`IntN` (same wrap-around arithmetic),
    Go `int`/`uint`   ↦ `Int64`/`UInt64` (amd64),
    Go `[]byte`       ↦ `Bytes = List UInt8`, `[]int` ↦ `List Int64`.
  * Go shifts by a count ≥ width give 0 (unsigned) — Lean's `<<<` on `UIntN`
    reduces the count mod N, so shifts go through `Go.shl*/shr*`.
  * Out-of-range slice/index expressions panic in Go; here they are totalised
    (take/drop, default element).  Every use in a theorem is under a hypothesis
    that keeps indices in range, or the function is only applied to in-range
    data by construction (noted at the use site).
-/

abbrev Bytes := List UInt8

namespace Go

@[inline] def shl8  (x : UInt8)  (n : Nat) : UInt8  := if n < 8  then x <<< n.toUInt8  else 0
@[inline] def shr8  (x : UInt8)  (n : Nat) : UInt8  := if n < 8  then x >>> n.toUInt8  else 0
@[inline] def shl16 (x : UInt16) (n : Nat) : UInt16 := if n < 16 then x <<< n.toUInt16 else 0
@[inline] def shr16 (x : UInt16) (n : Nat) : UInt16 := if n < 16 then x >>> n.toUInt16 else 0
@[inline] def shl32 (x : UInt32) (n : Nat) : UInt32 := if n < 32 then x <<< n.toUInt32 else 0
@[inline] def shr32 (x : UInt32) (n : Nat) : UInt32 := if n < 32 then x >>> n.toUInt32 else 0
@[inline] def shl64 (x : UInt64) (n : Nat) : UInt64 := if n < 64 then x <<< n.toUInt64 else 0
@[inline] def shr64 (x : UInt64) (n : Nat) : UInt64 := if n < 64 then x >>> n.toUInt64 else 0
/-- signed: `<<` like unsigned on the bit pattern, `>>` arithmetic (sign fill). -/
@[inline] def sshl32 (x : Int32) (n : Nat) : Int32 := if n < 32 then x <<< (Int32.ofNat n) else 0
@[inline] def sshr32 (x : Int32) (n : Nat) : Int32 := if n < 32 then x >>> (Int32.ofNat n) else (if x < 0 then -1 else 0)
@[inline] def sshl64 (x : Int64) (n : Nat) : Int64 := if n < 64 then x <<< (Int64.ofNat n) else 0
@[inline] def sshr64 (x : Int64) (n : Nat) : Int64 := if n < 64 then x >>> (Int64.ofNat n) else (if x < 0 then -1 else 0)

/-- `l[a:b]` -/
@[inline] def slice {α} (l : List α) (a b : Nat) : List α := (l.take b).drop a
/-- `l[i]` (totalised) -/
@[inline] def idx {α} [Inhabited α] (l : List α) (i : Nat) : α := l.getD i default

/-- little-endian read of the first `n` bytes -/
def getLE : Nat → Bytes → Nat
  | 0, _ => 0
  | _ + 1, [] => 0
  | n + 1, b :: bs => b.toNat + 256 * getLE n bs

/-- little-endian bytes of `v`, `n` of them -/
def leBytes : Nat → Nat → Bytes
  | 0, _ => []
  | n + 1, v => (v % 256).toUInt8 :: leBytes n (v / 256)

/-- overwrite `l[off .. off+xs.length)` with `xs` (only positions that exist) -/
def splice (l : Bytes) (off : Nat) (xs : Bytes) : Bytes :=
  l.take off ++ (xs.take (l.length - off)) ++ l.drop (off + xs.length)

@[inline] def getU16 (b : Bytes) : UInt16 := (getLE 2 b).toUInt16
@[inline] def getU32 (b : Bytes) : UInt32 := (getLE 4 b).toUInt32
@[inline] def getU64 (b : Bytes) : UInt64 := (getLE 8 b).toUInt64
@[inline] def putU16 (b : Bytes) (off : Nat) (v : UInt16) : Bytes := splice b off (leBytes 2 v.toNat)
@[inline] def putU32 (b : Bytes) (off : Nat) (v : UInt32) : Bytes := splice b off (leBytes 4 v.toNat)
@[inline] def putU64 (b : Bytes) (off : Nat) (v : UInt64) : Bytes := splice b off (leBytes 8 v.toNat)

@[inline] def natOfI64 (x : Int64) : Nat := x.toNatClampNeg

end Go

/-- decidable equality on `Except` (used by `decide` in non-vacuity examples) -/
instance instDecidableEqExcept {ε α : Type} [DecidableEq ε] [DecidableEq α] : DecidableEq (Except ε α)
  | .ok a, .ok b => if h : a = b then isTrue (by rw [h]) else isFalse (fun e => h (by cases e; rfl))
  | .error a, .error b => if h : a = b then isTrue (by rw [h]) else isFalse (fun e => h (by cases e; rfl))
  | .ok _, .error _ => isFalse (fun e => by cases e)
  | .error _, .ok _ => isFalse (fun e => by cases e)
