module verifharness

go 1.21

require (
	github.com/douban/gobeansdb v0.0.0
	gopkg.in/yaml.v2 v2.2.7
)

require (
	github.com/samuel/go-zookeeper v0.0.0-20190923202752-2cc03de413da // indirect
	github.com/spaolacci/murmur3 v1.1.0 // indirect
)

replace github.com/douban/gobeansdb => /repo
