import GoBeans.Model.HintIndex

open Store HintIndex

def hashOf (c : DiffCase) (k : List UInt8) : Nat := (AMap.get c.khash k).getD 0

/-- per case: the names of the comparisons that FAIL -/
def checkCase (c : DiffCase) : List String :=
  let hash := hashOf c
  let model0 := c.files.map (fun recs => (HChunk.run c.cap (writeEvents hash recs)).disk)
  -- the real directory listing has no entry for trailing absent splits
  let trim := fun (d : List (Option SplitFile)) => (d.reverse.dropWhile (·.isNone)).reverse
  let e1 := if model0.map trim == c.disk0 then [] else ["disk0 (write path: Set/rotate/Dump)"]
  let model1 := openDisks hash c.cap c.files c.masked
  let e2 := if model1 == c.disk1 then [] else ["disk1 (checkHintWithData: kept prefix + rescan)"]
  let t := restartTree hash c.cap c.files c.masked
  let e3 := if c.tree.all (fun p => AMap.get t (hash p.1) == p.2) then [] else ["tree (updateHtreeFromHint loop)"]
  let t' := replayTree hash (logOf c.files)
  let e4 := if c.tree.all (fun p => AMap.get t' (hash p.1) == p.2) then [] else ["tree vs replayTree"]
  e1 ++ e2 ++ e3 ++ e4

def checkDump (c : DumpCase) : List String :=
  let hash := fun k => (AMap.get c.khash k).getD 0
  let t0 : Tree := c.t0.filterMap (fun p => p.2.map (fun it => (hash p.1, it)))
  let t := openTree c.tc c.ts t0 (openHints hash c.cap c.files c.masked)
  if c.tree.all (fun p => AMap.get t (hash p.1) == p.2) then [] else ["tree after start with stale dump"]

def main : IO Unit := do
  let mut bad := 0
  let mut i := 0
  for c in cases do
    let r := checkCase c
    if r != [] then
      bad := bad + 1
      IO.println s!"case {i}: MISMATCH {r}"
    i := i + 1
  IO.println s!"{cases.length} cases, {bad} mismatching"
  let mut bad2 := 0
  let mut j := 0
  for c in dcases do
    let r := checkDump c
    if r != [] then
      bad2 := bad2 + 1
      IO.println s!"dcase {j}: MISMATCH {r}"
    j := j + 1
  IO.println s!"{dcases.length} dump cases, {bad2} mismatching"

#eval main
