package main

// hintdiff — differential check for GoBeans.Model.HintIndex (C02, hint files as rebuildable caches).
// Drives the real store (built with -tags verif): random sets/deletes, close, records what is in the data files and in
// the *.idx.s files, removes a random subset of the *.idx.s files (and the tree dump), reopens, records the *.idx.s files
// again and the tree item of every key.  Output: a Lean file of literals (`cases : List DiffCase`) that
// scratch/HintDiffCheck.lean evaluates against the model (`HChunk.run`, `openDisks`, `restartTree`).
//
//   hintdiff -seed N -n CASES -out Cases.lean

import (
	"bytes"
	"encoding/hex"
	"flag"
	"fmt"
	"io"
	"os"
	"path/filepath"
	"runtime"
	"sort"
	"strconv"
	"strings"
	"sync"
	"sync/atomic"
	"time"

	"github.com/douban/gobeansdb/cmem"
	"github.com/douban/gobeansdb/config"
	"github.com/douban/gobeansdb/gobeansdb"
	"github.com/douban/gobeansdb/loghub"
	mc "github.com/douban/gobeansdb/memcache"
	"github.com/douban/gobeansdb/store"
)

type quietHub struct {
	mu    sync.Mutex
	fatal string
}

func (h *quietHub) Log(name string, level int, file string, line int, msg string) {
	if os.Getenv("HX_DEBUG") != "" {
		fmt.Fprintf(os.Stderr, "LOG %d %s:%d %s\n", level, file, line, msg)
	}
	if level == loghub.FATAL {
		panic(fmt.Sprintf("FATAL %s:%d %s", file, line, msg))
	}
}
func (h *quietHub) Reopen(path string) error           { return nil }
func (h *quietHub) GetLastLog() []byte                 { return nil }
func (h *quietHub) DumpBuffer(all bool, out io.Writer) {}

var rot, bgdone int64

func curGID() int64 {
	var buf [64]byte
	n := runtime.Stack(buf[:], false)
	f := bytes.Fields(buf[:n])
	id, _ := strconv.ParseInt(string(f[1]), 10, 64)
	return id
}

var mainGID = curGID()

func hook(point string, args ...interface{}) {
	switch point {
	case "data.rotate":
		atomic.AddInt64(&rot, 1)
	case "data.flush.exit":
		if args[1].(int) >= 0 && curGID() != mainGID {
			atomic.AddInt64(&rot, -1)
		}
	case "bucket.open.bgcheck.done":
		atomic.AddInt64(&bgdone, 1)
	}
}

func quiesce() {
	for i := 0; atomic.LoadInt64(&rot) != 0; i++ {
		time.Sleep(20 * time.Microsecond)
		if i > 500000 {
			panic("rotation flush did not finish")
		}
	}
}

type rng struct{ s uint64 }

func (r *rng) next() uint64 {
	r.s ^= r.s << 13
	r.s ^= r.s >> 7
	r.s ^= r.s << 17
	return r.s
}
func (r *rng) intn(n int) int { return int(r.next() % uint64(n)) }

func applyConf(home string, dfmax, splitCap int64) {
	store.Conf.InitDefault()
	store.Conf.Home = home
	store.Conf.NumBucket = 1
	store.Conf.BucketsStat = []int{1}
	store.Conf.TreeHeight = 3
	store.Conf.Init()
	store.Conf.DataFileMax = dfmax
	store.Conf.SplitCap = splitCap
	store.Conf.MergeInterval = 100000
	store.Conf.FlushInterval = 100000
	store.Conf.FlushWake = 1 << 40
	config.MCConf.BodyMax = 1 << 20
	config.MCConf.MaxKeyLen = 250
	store.VerifSetSecsBeforeDump(-1)
}

func open(home string, dfmax, splitCap int64) (*store.HStore, *gobeansdb.StorageClient) {
	applyConf(home, dfmax, splitCap)
	atomic.StoreInt64(&bgdone, 0)
	hs, err := store.NewHStore()
	if err != nil {
		panic(err)
	}
	for i := 0; atomic.LoadInt64(&bgdone) < 1; i++ {
		time.Sleep(20 * time.Microsecond)
		if i > 500000 {
			panic("open: background hint check did not finish")
		}
	}
	return hs, gobeansdb.VerifNewStorageClient(hs)
}

func lbytes(b []byte) string {
	var sb strings.Builder
	sb.WriteString("[")
	for i, x := range b {
		if i > 0 {
			sb.WriteString(",")
		}
		sb.WriteString(strconv.Itoa(int(x)))
	}
	sb.WriteString("]")
	return sb.String()
}

func lint(v int32) string {
	if v < 0 {
		return fmt.Sprintf("(%d)", v)
	}
	return strconv.Itoa(int(v))
}

// hint files of the bucket directory: chunk -> split -> "some ⟨[items], datasize⟩"
func readHints(dir string, nchunks int) string {
	paths, _ := filepath.Glob(filepath.Join(dir, "*.idx.s"))
	sort.Strings(paths)
	byChunk := map[int]map[int]string{}
	maxSplit := map[int]int{}
	for _, p := range paths {
		name := filepath.Base(p)
		ck, _ := strconv.Atoi(name[:3])
		sp, _ := strconv.Atoi(name[4:7])
		items, datasize, _, err := store.VerifHintReadAll(p)
		if err != nil {
			panic(err)
		}
		var sb strings.Builder
		sb.WriteString("some ⟨[")
		for i, it := range items {
			if i > 0 {
				sb.WriteString(", ")
			}
			fmt.Fprintf(&sb, "⟨%d, %d, %d, %s, %d, %s⟩", it.Keyhash, it.Chunk, it.Offset, lint(it.Ver), it.Vhash, lbytes([]byte(it.Key)))
		}
		fmt.Fprintf(&sb, "], %d⟩", datasize)
		if byChunk[ck] == nil {
			byChunk[ck] = map[int]string{}
		}
		byChunk[ck][sp] = sb.String()
		if sp+1 > maxSplit[ck] {
			maxSplit[ck] = sp + 1
		}
	}
	var out []string
	for ck := 0; ck < nchunks; ck++ {
		var row []string
		for sp := 0; sp < maxSplit[ck]; sp++ {
			if s, ok := byChunk[ck][sp]; ok {
				row = append(row, s)
			} else {
				row = append(row, "none")
			}
		}
		out = append(out, "["+strings.Join(row, ", ")+"]")
	}
	return "[" + strings.Join(out, ",\n      ") + "]"
}

func runOps(r *rng, cl *gobeansdb.StorageClient, keys []string, nops int) {
	for i := 0; i < nops; i++ {
		key := keys[r.intn(len(keys))]
		if r.intn(4) == 0 {
			cl.Delete(key)
		} else {
			body := make([]byte, 1+r.intn(30))
			for j := range body {
				body[j] = byte(r.intn(4))
			}
			item := &mc.Item{Flag: 0, Exptime: 0, ReceiveTime: time.Unix(1000, 0)}
			item.Alloc(len(body))
			copy(item.Body, body)
			cmem.DBRL.SetData.AddSizeAndCount(item.CArray.Cap)
			cl.Set(key, item, false)
		}
		quiesce()
	}
}

func scanData(home string) (files []string, nchunks int) {
	datas, _ := filepath.Glob(filepath.Join(home, "*.data"))
	sort.Strings(datas)
	for _, p := range datas {
		ck, _ := strconv.Atoi(filepath.Base(p)[:3])
		if ck+1 > nchunks {
			nchunks = ck + 1
		}
	}
	for ck := 0; ck < nchunks; ck++ {
		p := filepath.Join(home, fmt.Sprintf("%03d.data", ck))
		var row []string
		if _, err := os.Stat(p); err == nil {
			recs, broken, err := store.VerifScanFile(p, 0, 1<<16)
			if err != nil || broken != 0 {
				panic(fmt.Sprint("scan ", p, err, broken))
			}
			for _, rec := range recs {
				row = append(row, fmt.Sprintf("(%d, rk %s %s %s %d)", rec.Offset, lbytes(rec.Key), lint(rec.Ver), lbytes(rec.Body), rec.RecSize))
			}
		}
		files = append(files, "["+strings.Join(row, ", ")+"]")
	}
	return
}

func readTree(hs *store.HStore, keys []string) (tree, khash []string) {
	for _, key := range keys {
		kh := store.VerifCurrentKeyHash([]byte(key))
		khash = append(khash, fmt.Sprintf("(%s, %d)", lbytes([]byte(key)), kh))
		ki := store.NewKeyInfoFromBytes([]byte(key), kh, false)
		payload, pos, err := hs.Get(ki, true)
		if err != nil {
			panic(err)
		}
		if payload == nil {
			tree = append(tree, fmt.Sprintf("(%s, none)", lbytes([]byte(key))))
		} else {
			tree = append(tree, fmt.Sprintf("(%s, some ⟨⟨%d, %d⟩, %s, %d⟩)", lbytes([]byte(key)), pos.ChunkID, pos.Offset, lint(payload.Ver), payload.ValueHash))
		}
	}
	return
}

// dumpCase: a STALE tree dump (written at the end of session 1, put back after session 2), a subset of the split
// files removed, reopened with a possibly different SplitCap.
func dumpCase(r *rng, sb *strings.Builder, name string) {
	home, _ := os.MkdirTemp("", "hintdiff")
	defer os.RemoveAll(home)
	dfmax := []int64{256 * 3, 256 * 5, 256 * 8, 256 * 40}[r.intn(4)]
	cap1 := int64(1 + r.intn(4))
	nkeys := 2 + r.intn(5)
	var keys []string
	for i := 0; i < nkeys; i++ {
		keys = append(keys, fmt.Sprintf("key%d", i))
	}
	hs, cl := open(home, dfmax, cap1)
	runOps(r, cl, keys, 3+r.intn(15))
	t0, khash := readTree(hs, keys)
	hs.Close()
	quiesce()
	hashes, _ := filepath.Glob(filepath.Join(home, "*.idx.hash"))
	if len(hashes) != 1 {
		panic(fmt.Sprint("tree dumps: ", hashes))
	}
	dumpName := filepath.Base(hashes[0])
	tc, _ := strconv.Atoi(dumpName[:3])
	ts, _ := strconv.Atoi(dumpName[4:7])
	saved, _ := os.ReadFile(hashes[0])
	if r.intn(3) > 0 {
		hs, cl = open(home, dfmax, cap1)
		runOps(r, cl, keys, 1+r.intn(12))
		hs.Close()
		quiesce()
	}
	hashes, _ = filepath.Glob(filepath.Join(home, "*.idx.hash"))
	for _, p := range hashes {
		os.Remove(p)
	}
	os.WriteFile(filepath.Join(home, dumpName), saved, 0644)
	files, nchunks := scanData(home)
	idx, _ := filepath.Glob(filepath.Join(home, "*.idx.s"))
	sort.Strings(idx)
	mode := r.intn(3)
	for _, p := range idx {
		if (mode == 0 && r.intn(100) < 40) || mode == 1 {
			os.Remove(p)
		}
	}
	masked := readHints(home, nchunks)
	cap2 := cap1
	if r.intn(2) == 0 {
		cap2 = int64(1 + r.intn(4))
	}
	hs, _ = open(home, dfmax, cap2)
	tree, _ := readTree(hs, keys)
	hs.Close()
	quiesce()
	fmt.Fprintf(sb, "def %s : DumpCase := {\n  cap := %d,\n  khash := [%s],\n  files := [%s],\n  masked := %s,\n  tc := %d,\n  ts := %d,\n  t0 := [%s],\n  tree := [%s] }\n\n",
		name, cap2, strings.Join(khash, ", "), strings.Join(files, ",\n      "), masked, tc, ts, strings.Join(t0, ", "), strings.Join(tree, ", "))
}

func main() {
	seed := flag.Uint64("seed", 1, "")
	n := flag.Int("n", 20, "")
	out := flag.String("out", "Cases.lean", "")
	forceCap := flag.Int("cap", -1, "force SplitCap (default: random 1..4)")
	flag.Parse()
	hub := &quietHub{}
	loghub.ErrorLogger.Hub = hub
	loghub.ErrorLogger.SetLevel(loghub.ERROR)
	if os.Getenv("HX_DEBUG") != "" {
		loghub.ErrorLogger.SetLevel(loghub.DEBUG)
	}
	store.VerifHook = hook
	r := &rng{*seed*0x9E3779B97F4A7C15 + 12345}
	var sb strings.Builder
	sb.WriteString("-- generated by harness/cmd/hintdiff; seed " + strconv.FormatUint(*seed, 10) + "\nimport GoBeans.Model.HintIndex\nopen Store HintIndex\n\n")
	sb.WriteString("structure DiffCase where\n  cap : Nat\n  khash : List (List UInt8 × Nat)\n  files : List FileRecs\n  disk0 : List (List (Option SplitFile))\n  masked : List (List (Option SplitFile))\n  disk1 : List (List (Option SplitFile))\n  tree : List (List UInt8 × Option TItem)\n\n")
	sb.WriteString("structure DumpCase where\n  cap : Nat\n  khash : List (List UInt8 × Nat)\n  files : List FileRecs\n  masked : List (List (Option SplitFile))\n  tc : Nat\n  ts : Int\n  t0 : List (List UInt8 × Option TItem)\n  tree : List (List UInt8 × Option TItem)\n\n")
	sb.WriteString("def rk (key : List UInt8) (ver : Int) (body : List UInt8) (size : Nat) : Rec := { key := key, ver := ver, flag := 0, ts := none, body := body, size := size }\n\n")
	var names []string
	for c := 0; c < *n; c++ {
		home, _ := os.MkdirTemp("", "hintdiff")
		dfmax := []int64{256 * 3, 256 * 5, 256 * 8, 256 * 40}[r.intn(4)]
		splitCap := int64(1 + r.intn(4))
		if *forceCap >= 0 {
			splitCap = int64(*forceCap)
		}
		nkeys := 2 + r.intn(5)
		var keys []string
		for i := 0; i < nkeys; i++ {
			keys = append(keys, fmt.Sprintf("key%d", i))
		}
		hs, cl := open(home, dfmax, splitCap)
		nops := 5 + r.intn(25)
		for i := 0; i < nops; i++ {
			key := keys[r.intn(nkeys)]
			if r.intn(4) == 0 {
				cl.Delete(key)
			} else {
				body := make([]byte, 1+r.intn(30))
				for j := range body {
					body[j] = byte(r.intn(4)) // few distinct values: equal bodies happen
				}
				item := &mc.Item{Flag: 0, Exptime: 0, ReceiveTime: time.Unix(1000, 0)}
				item.Alloc(len(body))
				copy(item.Body, body)
				cmem.DBRL.SetData.AddSizeAndCount(item.CArray.Cap)
				cl.Set(key, item, false)
			}
			quiesce()
		}
		hs.Close()
		quiesce()
		// data files
		datas, _ := filepath.Glob(filepath.Join(home, "*.data"))
		sort.Strings(datas)
		nchunks := 0
		for _, p := range datas {
			ck, _ := strconv.Atoi(filepath.Base(p)[:3])
			if ck+1 > nchunks {
				nchunks = ck + 1
			}
		}
		var files []string
		for ck := 0; ck < nchunks; ck++ {
			p := filepath.Join(home, fmt.Sprintf("%03d.data", ck))
			var row []string
			if _, err := os.Stat(p); err == nil {
				recs, broken, err := store.VerifScanFile(p, 0, 1<<16)
				if err != nil || broken != 0 {
					panic(fmt.Sprint("scan ", p, err, broken))
				}
				for _, rec := range recs {
					row = append(row, fmt.Sprintf("(%d, rk %s %s %s %d)", rec.Offset, lbytes(rec.Key), lint(rec.Ver), lbytes(rec.Body), rec.RecSize))
				}
			}
			files = append(files, "["+strings.Join(row, ", ")+"]")
		}
		disk0 := readHints(home, nchunks)
		// remove the tree dump and a random subset of the split files
		hashes, _ := filepath.Glob(filepath.Join(home, "*.idx.hash"))
		for _, p := range hashes {
			os.Remove(p)
		}
		idx, _ := filepath.Glob(filepath.Join(home, "*.idx.s"))
		sort.Strings(idx)
		mode := r.intn(4)
		for _, p := range idx {
			drop := false
			switch mode {
			case 0:
				drop = r.intn(100) < 40
			case 1:
				drop = true
			case 2:
				drop = r.intn(100) < 15
			case 3:
				drop = false
			}
			if drop {
				os.Remove(p)
			}
		}
		masked := readHints(home, nchunks)
		hs, cl = open(home, dfmax, splitCap)
		disk1 := readHints(home, nchunks)
		var tree, khash []string
		for _, key := range keys {
			kh := store.VerifCurrentKeyHash([]byte(key))
			khash = append(khash, fmt.Sprintf("(%s, %d)", lbytes([]byte(key)), kh))
			ki := store.NewKeyInfoFromBytes([]byte(key), kh, false)
			payload, pos, err := hs.Get(ki, true)
			if err != nil {
				panic(err)
			}
			if payload == nil {
				tree = append(tree, fmt.Sprintf("(%s, none)", lbytes([]byte(key))))
			} else {
				tree = append(tree, fmt.Sprintf("(%s, some ⟨⟨%d, %d⟩, %s, %d⟩)", lbytes([]byte(key)), pos.ChunkID, pos.Offset, lint(payload.Ver), payload.ValueHash))
			}
		}
		hs.Close()
		quiesce()
		os.RemoveAll(home)
		name := fmt.Sprintf("case%d", c)
		names = append(names, name)
		fmt.Fprintf(&sb, "def %s : DiffCase := {\n  cap := %d,\n  khash := [%s],\n  files := [%s],\n  disk0 := %s,\n  masked := %s,\n  disk1 := %s,\n  tree := [%s] }\n\n",
			name, splitCap, strings.Join(khash, ", "), strings.Join(files, ",\n      "), disk0, masked, disk1, strings.Join(tree, ", "))
	}
	fmt.Fprintf(&sb, "def cases : List DiffCase := [%s]\n", strings.Join(names, ", "))
	var dnames []string
	for c := 0; c < *n; c++ {
		name := fmt.Sprintf("dcase%d", c)
		dnames = append(dnames, name)
		dumpCase(r, &sb, name)
	}
	fmt.Fprintf(&sb, "def dcases : List DumpCase := [%s]\n", strings.Join(dnames, ", "))
	_ = hex.EncodeToString
	os.WriteFile(*out, []byte(sb.String()), 0644)
}
