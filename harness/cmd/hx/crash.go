package main

import (
	"fmt"
	"io"
	"os"
	"path/filepath"
	"sort"
	"strconv"
	"strings"
	"sync"
	"sync/atomic"
	"time"

	"github.com/douban/gobeansdb/store"
)

// engine crash (C06, C07): a real HStore driven by one client; before every file-system mutation the store is
// about to perform (hook points fs.*: data writes behind the bufio layer, create, remove, rename, truncate,
// small-file rewrites) the bucket directory is copied: that copy is what a SIGKILL at that instant leaves behind.
// For a data write also torn variants: the copy plus a prefix of the bytes about to be written (cut at 256-byte
// boundaries and at unaligned points).  After the history every copy is opened by a new HStore and every key is read.
//
//   -mix c06 : writes, deletes, counters, forced flushes, rotations, hint dumps, clean restarts; crash anywhere
//   -mix c07 : a phased layout, flush, then one GC pass; crash points inside the pass only

func init() { engines["crash"] = engineCrash }

type crashSnap struct {
	n     int
	dir   string
	label string
}

type crashRec struct {
	mu        sync.Mutex
	armed     bool
	inGC      bool
	home      string
	base      string
	r         *RNG
	snaps     []crashSnap
	events    int
	max       int
	pending   []string      // trace lines produced inside hooks, emitted by the main goroutine
	parkRot   chan struct{} // mix c02: the post-rotation flush waits here until released
	parkOnly  map[int]bool  // mix c02: if not nil, only the flushes of these files wait (the others run)
	rotParked int32
}

var curCrash *crashRec

func copyDir(src, dst string) {
	os.MkdirAll(dst, 0o755)
	ents, _ := os.ReadDir(src)
	for _, e := range ents {
		if e.IsDir() {
			continue
		}
		in, err := os.Open(filepath.Join(src, e.Name()))
		if err != nil {
			continue
		}
		out, err := os.Create(filepath.Join(dst, e.Name()))
		if err == nil {
			io.Copy(out, in)
			out.Close()
		}
		in.Close()
	}
}

func dataSizes(dir string) string {
	paths, _ := filepath.Glob(filepath.Join(dir, "[0-9][0-9][0-9].data"))
	sort.Strings(paths)
	var parts []string
	for _, p := range paths {
		st, err := os.Stat(p)
		if err != nil {
			continue
		}
		ck, _ := strconv.Atoi(filepath.Base(p)[:3])
		parts = append(parts, fmt.Sprintf("%d:%d", ck, st.Size()))
	}
	if len(parts) == 0 {
		return "-"
	}
	return strings.Join(parts, ",")
}

// partialOf: the data files that do not end where their last decodable record ends (a partial record at the end)
func partialOf(dir string) string {
	paths, _ := filepath.Glob(filepath.Join(dir, "[0-9][0-9][0-9].data"))
	sort.Strings(paths)
	var parts []string
	for _, p := range paths {
		items, size, ok := indepScan(p)
		if !ok {
			continue
		}
		end := int64(0)
		if n := len(items); n > 0 {
			it := items[n-1]
			end = int64(it.off) + (int64(24+len(it.key))+int64(it.vsz)+255)/256*256
		}
		if size > end {
			parts = append(parts, strconv.Itoa(func() int { ck, _ := strconv.Atoi(filepath.Base(p)[:3]); return ck }()))
		}
	}
	if len(parts) == 0 {
		return "-"
	}
	return strings.Join(parts, ",")
}

func invOf(dir string) string {
	paths, _ := filepath.Glob(filepath.Join(dir, "[0-9][0-9][0-9].data"))
	sort.Strings(paths)
	var parts []string
	for _, p := range paths {
		items, _, ok := indepScan(p)
		if !ok {
			continue
		}
		ck, _ := strconv.Atoi(filepath.Base(p)[:3])
		for _, it := range items {
			parts = append(parts, fmt.Sprintf("%d:%d:%s:%d", ck, it.off, hx(it.key), it.ver))
		}
	}
	if len(parts) == 0 {
		return "-"
	}
	return strings.Join(parts, ",")
}

func (cs *crashRec) take(label string, mutate func(dir string)) {
	n := len(cs.snaps)
	dir := filepath.Join(cs.base, fmt.Sprintf("snap%d", n))
	copyDir(cs.home, dir)
	if mutate != nil {
		mutate(dir)
	}
	cs.snaps = append(cs.snaps, crashSnap{n, dir, label})
	gc := 0
	if cs.inGC {
		gc = 1
	}
	line := fmt.Sprintf("snap %d gc=%d %s sizes=%s", n, gc, label, dataSizes(dir))
	if cs.inGC {
		// the records a scan of the copied data files finds (independent decoder with CRC), in (file, offset) order
		line += " partial=" + partialOf(dir) + " files=" + invOf(dir)
	}
	cs.pending = append(cs.pending, line)
}

func crashHook(point string, args ...interface{}) {
	seqHook(point, args...)
	if cs := curCrash; cs != nil && cs.parkRot != nil && point == "data.flush.enter" && args[1].(int) >= 0 && curGID() != mainGID &&
		(cs.parkOnly == nil || cs.parkOnly[args[1].(int)]) {
		atomic.AddInt32(&cs.rotParked, 1)
		select {
		case <-cs.parkRot:
		case <-time.After(5 * time.Second):
		}
	}
	if !strings.HasPrefix(point, "fs.") {
		return
	}
	cs := curCrash
	if cs == nil {
		return
	}
	cs.mu.Lock()
	defer cs.mu.Unlock()
	if !cs.armed || len(cs.snaps) >= cs.max {
		return
	}
	cs.events++
	path, _ := args[0].(string)
	if filepath.Dir(path) != cs.home {
		return
	}
	name := filepath.Base(path)
	// sampling: about one mutation point in four (the generator is re-seeded per case, so over cases every kind of
	// point is visited)
	rate := 25
	if cs.inGC {
		rate = 70 // a pass has few mutation points
	}
	if !cs.r.Chance(rate) {
		return
	}
	switch point {
	case "fs.write":
		off := args[1].(int64)
		p := args[2].([]byte)
		app := 0
		if st, err := os.Stat(path); err != nil || off >= st.Size() {
			app = 1 // the write extends the file (0: it overwrites existing bytes, the in-place rewrite of GC)
		}
		cs.take(fmt.Sprintf("ev=write file=%s off=%d len=%d cut=0 app=%d", name, off, len(p), app), nil)
		if strings.HasSuffix(name, ".data") && len(p) > 0 {
			// torn variants of this write: a prefix of it reached the file
			var cuts []int
			for c := 256; c < len(p); c += 256 {
				cuts = append(cuts, c)
			}
			cuts = append(cuts, 1+cs.r.Intn(len(p)), len(p)-1)
			// one torn variant per sampled write, in 70% of them
			if cs.r.Chance(70) && len(cs.snaps) < cs.max {
				cut := cuts[cs.r.Intn(len(cuts))]
				if cut > 0 && cut < len(p) {
					cs.take(fmt.Sprintf("ev=write file=%s off=%d len=%d cut=%d app=%d", name, off, len(p), cut, app), func(dir string) {
						f, err := os.OpenFile(filepath.Join(dir, name), os.O_WRONLY|os.O_CREATE, 0o644)
						if err == nil {
							f.WriteAt(p[:cut], off)
							f.Close()
						}
					})
				}
			}
		}
	default:
		cs.take(fmt.Sprintf("ev=%s file=%s", point[3:], name), nil)
	}
}

func (cs *crashRec) flushLines(c *Ctx) {
	cs.mu.Lock()
	lines := cs.pending
	cs.pending = nil
	cs.mu.Unlock()
	for _, l := range lines {
		c.line("%s", l)
	}
}

func engineCrash(c *Ctx) {
	store.VerifHook = crashHook
	root := NewRNG(c.seed)
	base := c.work
	if base == "" {
		base, _ = os.MkdirTemp("", "hxcrash")
		defer os.RemoveAll(base)
	}
	if c.replay != "" {
		// a crash case is reproduced by regenerating it: the replay file names seed and case index
		for _, l := range replayLines(c.replay) {
			if l.op == "case" {
				parts := strings.SplitN(l.args[0], "-", 2)
				seed, _ := strconv.ParseUint(parts[0], 10, 64)
				ci, _ := strconv.Atoi(parts[1])
				mix := c.mix
				for _, a := range l.args {
					if strings.HasPrefix(a, "mix=") {
						mix = a[4:]
					}
				}
				r := NewRNG(seed).Fork(uint64(ci))
				crashCase(c, r, l.args[0], base, mix)
			}
		}
		return
	}
	for ci := 0; ci < c.n; ci++ {
		r := root.Fork(uint64(ci))
		mix := c.mix
		if mix == "" {
			mix = "c06"
		}
		crashCase(c, r, fmt.Sprintf("%d-%d", c.seed, ci), base, mix)
	}
}

func crashCase(c *Ctx, r *RNG, id, base, mix string) {
	home := filepath.Join(base, "home")
	os.RemoveAll(base)
	os.MkdirAll(home, 0o755)
	defer os.RemoveAll(base)
	cfg := seqCfg{home: home, nb: 1, served: []int{0}, height: 2 + r.Intn(2)}
	cfg.checkVHash = false
	cfg.dfmax = []int64{256 * 4, 256 * 6, 256 * 8, 256 * 16}[r.Intn(4)]
	cfg.splitCap = []int64{2, 4, 64}[r.Intn(3)]
	cfg.idxInt = 4096
	cfg.bodyInC = 4096
	cfg.bodyMax = []int64{256, 512}[r.Intn(2)]
	bufio := []int{256, 300, 512, 1000, 4096}[r.Intn(5)]
	cfg.listKey = []uint32{1, 2, 256}[r.Fork(99).Intn(3)] // small: listings show node summaries, not items
	s := &seqStore{cfg: cfg}
	curStore = s
	cs := &crashRec{home: home, base: base, r: r.Fork(77), max: 48}
	if c.tier == "thorough" {
		cs.max = 90
	}
	curCrash = cs
	defer func() { curStore = nil; curCrash = nil }()
	c.line("case %s %s mix=%s bufio=%d", id, cfgLine(cfg), mix, bufio)
	c.count("case." + mix)
	open := func() error {
		err := s.open()
		store.Conf.BufIOCap = bufio
		return err
	}
	if err := open(); err != nil {
		c.line("open => REFUSED %v", err)
		c.line("end")
		return
	}
	// keys
	var keys []string
	for len(keys) < 3+r.Intn(5) {
		k := genKey(r)
		if store.IsValidKeyString(k) && len(k) < 60 {
			keys = append(keys, k)
		}
	}
	ts := uint32(1500000000)
	write := func() {
		k := keys[r.Intn(len(keys))]
		ts += uint32(r.Intn(3))
		switch p := r.Intn(100); {
		case p < 62:
			maxLen := 420
			if int64(maxLen) > cfg.bodyMax-8 {
				maxLen = int(cfg.bodyMax - 8)
			}
			_, v := genValue(r, len(k), maxLen)
			s.doSet(c, k, v, []uint32{0, 1, 0x204}[r.Intn(3)], 0, ts)
			c.count("op.set")
		case p < 85:
			s.doDelete(c, k)
			c.count("op.delete")
		default:
			s.doIncr(c, k, r.Intn(9)-2)
			c.count("op.incr")
		}
		s.quiesce()
	}
	restart := func() bool {
		ok := s.restart(c, r, []int{0, 0, 1, 3, 4}[r.Intn(5)])
		store.Conf.BufIOCap = bufio
		c.count("op.restart")
		return ok
	}
	failed := false
	closed := false
	if mix == "c02" {
		// a clean shutdown right after a rotation: the goroutine that flushes the previous file has not run yet
		cs.parkRot = make(chan struct{})
		atomic.StoreInt64(&s.noQuiesce, 1)
		head0 := s.hs.VerifHead(0)
		nrot := 1
		if r.Chance(50) {
			// several rotations in one process life; the flush goroutines of SOME of the files left behind have not run
			// yet when Close is called (they are independent goroutines: a later one may well finish before an earlier one)
			nrot = 2 + r.Intn(2)
			cs.parkOnly = map[int]bool{}
			for j := 0; j < nrot; j++ {
				if r.Chance(55) {
					cs.parkOnly[head0+j] = true
				}
			}
			if len(cs.parkOnly) == 0 {
				cs.parkOnly[head0+r.Intn(nrot)] = true
			}
			c.count(fmt.Sprintf("c02.rotations-%d.parked-%d", nrot, len(cs.parkOnly)))
		}
		for i := 0; i < 60*nrot && s.hs.VerifHead(0) < head0+nrot; i++ {
			write()
			if cs.parkOnly != nil {
				time.Sleep(200 * time.Microsecond) // let the flushes that are not held run
			}
		}
		for i := 0; i < r.Intn(4); i++ {
			write()
		}
		c.count("c02.rotated")
		if p := guard(func() { s.hs.Close() }); p != "" {
			c.line("fatal => during close: %s", strings.ReplaceAll(p, "\n", " "))
		}
		// the process exits here: what is on disk now is what the next start finds
		cs.mu.Lock()
		cs.take("ev=closed parked="+strconv.Itoa(int(atomic.LoadInt32(&cs.rotParked))), nil)
		cs.mu.Unlock()
		close(cs.parkRot)
		atomic.StoreInt64(&s.noQuiesce, 0)
		s.quiesce()
		cs.flushLines(c)
		c.line("close")
		closed = true // Close() has been called already
	} else if mix == "c07" {
		// phased layout (see engine seq), everything flushed, then one GC pass with crash points inside it
		nph := 2 + r.Intn(4)
		for ph := 0; ph < nph && !failed; ph++ {
			for i := 0; i < 1+r.Intn(7); i++ {
				write()
			}
			if !restart() {
				failed = true
			}
		}
		if !failed {
			head := s.hs.VerifHead(0)
			begin, end := 0, 0
			if head > 1 {
				begin = r.Intn(head)
				end = begin + r.Intn(head-begin)
			}
			if r.Chance(35) {
				begin = 0
			}
			cs.mu.Lock()
			cs.armed, cs.inGC = true, true
			cs.mu.Unlock()
			c.line("gcbegin")
			s.doGC(c, 0, begin, end, 0, r.Chance(40), false)
			cs.mu.Lock()
			cs.armed = false
			cs.mu.Unlock()
			cs.flushLines(c)
			c.line("gcend")
			c.count("op.gc")
		}
	} else {
		cs.armed = true
		nops := 12 + r.Intn(30)
		for i := 0; i < nops && !failed; i++ {
			if f := theHub.takeFatal(); f != "" {
				c.line("fatal => %s", strings.ReplaceAll(f, "\n", " "))
				failed = true
				break
			}
			switch p := r.Intn(100); {
			case p < 70:
				write()
			case p < 82:
				s.flushAll()
				c.line("flush")
				c.count("op.flush")
			case p < 92:
				// the hint dumper's periodic action (may run while records are still in the write buffer)
				if pn := guard(func() { s.hs.VerifDumpHints(0) }); pn != "" {
					c.line("fatal => dumphints: %s", pn)
					failed = true
				} else {
					c.line("dumphints")
				}
				c.count("op.dumphints")
			default:
				if !restart() {
					failed = true
				}
			}
			cs.flushLines(c)
		}
	}
	if closed {
		// nothing left to do
	} else if !failed {
		// orderly shutdown: its file-system steps are crash points too
		if p := guard(func() { s.hs.Close() }); p != "" {
			c.line("fatal => during close: %s", strings.ReplaceAll(p, "\n", " "))
		} else {
			s.quiesce()
			cs.flushLines(c)
			c.line("close")
			c.line("files =>%s", s.filesLine())
		}
	} else {
		guard(func() { s.hs.Close() })
	}
	cs.mu.Lock()
	cs.armed = false
	snaps := cs.snaps
	cs.mu.Unlock()
	cs.flushLines(c)
	c.line("history-end")
	theHub.takeFatal()
	// what each crash state recovers to.  In some c06 cases ONE of the crash states then becomes the store of a second
	// process life (the kill really happened there): more operations with crash points of their own, so that the
	// second start works on what the first recovery left behind (stray hint files, a new head file...)
	jsel := -1
	if mix == "c06" && len(snaps) > 0 && r.Chance(45) {
		jsel = snaps[r.Intn(len(snaps))].n
	}
	var checkSnaps func(snaps []crashSnap, second bool)
	checkSnaps = func(snaps []crashSnap, second bool) {
		if jsel >= 0 && !second {
			// the selected state is looked at last: the second life continues from it
			var rest []crashSnap
			var sel []crashSnap
			for _, sn := range snaps {
				if sn.n == jsel {
					sel = append(sel, sn)
				} else {
					rest = append(rest, sn)
				}
			}
			snaps = append(rest, sel...)
		}
		for _, sn := range snaps {
			cfg2 := cfg
			cfg2.home = sn.dir
			s2 := &seqStore{cfg: cfg2}
			curStore = s2
			err := s2.open()
			if err != nil {
				c.line("crash %d => REFUSED", sn.n)
				theHub.takeFatal()
				c.count("crash.refused")
				continue
			}
			c.line("crash %d => OK", sn.n)
			c.count("crash.recovered")
			for _, k := range keys {
				var res string
				item, gerr := s2.cl.Get(k)
				switch {
				case theHub.takeFatal() != "":
					res = "FATAL"
				case gerr != nil:
					res = "ERR"
				case item == nil:
					res = "MISS"
				default:
					res = fmt.Sprintf("VAL %d %s", item.Flag, valSummary(item.Body))
				}
				c.line("cget %d %s => %s", sn.n, hx([]byte(k)), res)
			}
			if mix == "c06" {
				// C08 after an unclean stop: the listings of the recovered tree (root and the first digit of every key hash)
				probes := map[string]bool{"": true}
				for _, k := range keys {
					probes[fmt.Sprintf("%016x", store.VerifKeyHash([]byte(k)))[:1]] = true
				}
				var ps []string
				for p := range probes {
					ps = append(ps, p)
				}
				sort.Strings(ps)
				for _, p := range ps {
					var body string
					item, lerr := s2.cl.Get("@" + p)
					switch {
					case lerr != nil:
						body = "ERR"
					case item == nil:
						body = "NIL"
					default:
						body = "[" + strings.ReplaceAll(strings.TrimSuffix(string(item.Body), "\n"), "\n", "|") + "]"
					}
					pp := p
					if pp == "" {
						pp = "-"
					}
					c.line("clist %d %s => %s", sn.n, pp, body)
				}
			}
			if !second && sn.n == jsel {
				// second life on this crash state
				c.line("life2 %d", sn.n)
				c.count("crash.second-life")
				s = s2
				cs.mu.Lock()
				cs.home = sn.dir
				n0 := len(cs.snaps)
				cs.max = n0 + 14
				cs.armed = true
				cs.mu.Unlock()
				bad := false
				for i, nops := 0, 2+r.Intn(9); i < nops && !bad; i++ {
					if f := theHub.takeFatal(); f != "" {
						c.line("fatal => %s", strings.ReplaceAll(f, "\n", " "))
						bad = true
						break
					}
					switch p := r.Intn(100); {
					case p < 64:
						write()
					case p < 90:
						s.flushAll()
						c.line("flush")
						c.count("op.flush")
					default:
						if pn := guard(func() { s.hs.VerifDumpHints(0) }); pn != "" {
							c.line("fatal => dumphints: %s", pn)
							bad = true
						} else {
							c.line("dumphints")
						}
						c.count("op.dumphints")
					}
					cs.flushLines(c)
				}
				if !bad {
					// the second kill, wherever the life has got to (at least this one state is looked at)
					cs.mu.Lock()
					if len(cs.snaps) >= cs.max {
						cs.max = len(cs.snaps) + 1
					}
					cs.take("ev=killed life=2", nil)
					cs.armed = false
					cs.mu.Unlock()
				}
				cs.mu.Lock()
				cs.armed = false
				snaps2 := append([]crashSnap(nil), cs.snaps[n0:]...)
				cs.mu.Unlock()
				cs.flushLines(c)
				guard(func() { s2.hs.Close() })
				s2.quiesce()
				theHub.takeFatal()
				c.line("history-end")
				checkSnaps(snaps2, true)
				os.RemoveAll(sn.dir)
				continue
			}
			guard(func() { s2.hs.Close() })
			s2.quiesce()
			theHub.takeFatal()
			os.RemoveAll(sn.dir)
		}
	}
	checkSnaps(snaps, false)
	c.line("end")
}
