package main

import (
	"fmt"
	"os"
	"path/filepath"
	"strconv"
	"strings"

	"github.com/douban/gobeansdb/config"
	"github.com/douban/gobeansdb/store"
	"github.com/douban/gobeansdb/utils"
)

// engine codec (C09): records through the real encoder, positional reader and stream
// scanner, on clean files and on files damaged by the generator.

func init() { engines["codec"] = engineCodec }

type crec struct {
	off             uint32
	key, body       []byte
	flag, ts        uint32
	ver             int32
	enc             []byte
}

func bodysum(b []byte) string { return fmt.Sprintf("%d.%d", len(b), utils.Fnv1a(b)) }

func errClass(err error) string {
	s := err.Error()
	switch {
	case strings.Contains(s, "fail to read head"):
		return "shortHead"
	case strings.Contains(s, "bad key size"):
		return "badKeySize"
	case strings.Contains(s, "bad value size"):
		return "badValueSize"
	case strings.Contains(s, "fail to  read"):
		return "shortBody"
	case strings.Contains(s, "crc check fail"):
		return "badCRC"
	}
	return "other:" + strings.ReplaceAll(s, " ", "_")
}

func encSummary(b []byte) string {
	if len(b) <= 2048 {
		return hx(b)
	}
	return fmt.Sprintf("L%d:C%d:F%d", len(b), store.VerifCRC(b), utils.Fnv1a(b))
}

func applyDamage(base []byte, ops []string) []byte {
	f := append([]byte{}, base...)
	for _, op := range ops {
		p := strings.Split(op, ":")
		switch p[0] {
		case "flip":
			pos, _ := strconv.Atoi(p[1])
			bit, _ := strconv.Atoi(p[2])
			if pos < len(f) {
				f[pos] ^= 1 << uint(bit)
			}
		case "set":
			pos, _ := strconv.Atoi(p[1])
			for i, x := range unhx(p[2]) {
				if pos+i < len(f) {
					f[pos+i] = x
				}
			}
		case "zero":
			a, _ := strconv.Atoi(p[1])
			b, _ := strconv.Atoi(p[2])
			for i := a; i < b && i < len(f); i++ {
				f[i] = 0
			}
		case "trunc":
			n, _ := strconv.Atoi(p[1])
			if n < len(f) {
				f = f[:n]
			}
		}
	}
	return f
}

func codecObserve(c *Ctx, path string, f []byte, offs []uint32) {
	if err := os.WriteFile(path, f, 0o644); err != nil {
		panic(err)
	}
	for _, off := range offs {
		r, err := store.VerifReadRecordAt(path, off)
		if err != nil {
			c.line("readat %d => err %s", off, errClass(err))
		} else {
			c.line("readat %d => ok %s %s %d %d %d", off, hx(r.Key), bodysum(r.Body), r.Flag, r.Ver, r.TS)
		}
	}
	recs, _, err := store.VerifScanFile(path, 0, 1<<16)
	var sb strings.Builder
	for _, r := range recs {
		fmt.Fprintf(&sb, " %d:%s:%d:%d:%d:%s", r.Offset, hx(r.Key), r.Ver, r.Flag, r.TS, bodysum(r.Body))
	}
	end := "eof"
	if err != nil {
		end = "error"
	}
	c.line("scan 0 => %d%s end=%s", len(recs), sb.String(), end)
}

func genDamage(r *RNG, recs []crec, flen int) []string {
	var ops []string
	n := 1
	if r.Chance(30) {
		n = 2 + r.Intn(2)
	}
	for i := 0; i < n; i++ {
		rec := recs[r.Intn(len(recs))]
		base := int(rec.off)
		sz := len(rec.enc)
		switch r.Intn(9) {
		case 0: // single bit flip anywhere in the record
			ops = append(ops, fmt.Sprintf("flip:%d:%d", base+r.Intn(sz), r.Intn(8)))
		case 1: // bit flip in the header
			ops = append(ops, fmt.Sprintf("flip:%d:%d", base+r.Intn(24), r.Intn(8)))
		case 2: // overwrite a few bytes
			ops = append(ops, fmt.Sprintf("set:%d:%s", base+r.Intn(sz), hx(r.Bytes(1+r.Intn(8)))))
		case 3: // zero whole blocks
			a := base + 256*r.Intn(sz/256)
			ops = append(ops, fmt.Sprintf("zero:%d:%d", a, a+256*(1+r.Intn(2))))
		case 4: // truncate at an arbitrary position
			ops = append(ops, fmt.Sprintf("trunc:%d", r.Intn(flen+1)))
		case 5: // vsz forced to 0 / 2^32-1 / just over BodyMax / large-but-valid
			v := []uint32{0, 0xffffffff, uint32(config.MCConf.BodyMax) + 1, uint32(config.MCConf.BodyMax), 70000, 1000}[r.Intn(6)]
			ops = append(ops, fmt.Sprintf("set:%d:%s", base+20, hx([]byte{byte(v), byte(v >> 8), byte(v >> 16), byte(v >> 24)})))
		case 6: // ksz forced to 0 / 251 / huge / other valid
			v := []uint32{0, 251, 0xffffffff, 1, 250, uint32(len(rec.key) + 1)}[r.Intn(6)]
			ops = append(ops, fmt.Sprintf("set:%d:%s", base+16, hx([]byte{byte(v), byte(v >> 8), byte(v >> 16), byte(v >> 24)})))
		case 7: // truncate inside this record (torn tail when it is the last one)
			ops = append(ops, fmt.Sprintf("trunc:%d", base+r.Intn(sz)))
		case 8: // damage the stored crc itself
			ops = append(ops, fmt.Sprintf("flip:%d:%d", base+r.Intn(4), r.Intn(8)))
		}
	}
	return ops
}

func engineCodec(c *Ctx) {
	config.MCConf.BodyMax = 1 << 20
	config.MCConf.MaxKeyLen = 250
	dir := c.work
	if dir == "" {
		dir = os.TempDir()
	}
	path := filepath.Join(dir, "codec.data")
	defer os.Remove(path)
	if c.replay != "" {
		codecReplay(c, path)
		return
	}
	root := NewRNG(c.seed)
	nvar := 10
	if c.tier == "thorough" {
		nvar = 24
	}
	for ci := 0; ci < c.n; ci++ {
		r := root.Fork(uint64(ci))
		nrec := 1 + r.Intn(8)
		if r.Chance(15) {
			nrec = 9 + r.Intn(42)
		}
		var recs []crec
		off := uint32(0)
		c.line("case %d-%d bodymax=%d maxkey=%d", c.seed, ci, config.MCConf.BodyMax, config.MCConf.MaxKeyLen)
		var base []byte
		for i := 0; i < nrec; i++ {
			k := []byte(genKey(r))
			_, v := genValue(r, len(k), 70000)
			if nrec > 12 && len(v) > 700 {
				v = v[:r.Intn(700)]
			}
			rec := crec{off: off, key: k, body: v, flag: uint32(r.Next()), ts: uint32(r.Next()), ver: int32(uint32(r.Next()))}
			switch r.Intn(4) {
			case 0:
				rec.flag = 0
			case 1:
				rec.ver = int32(1 + r.Intn(5))
			case 2:
				rec.ver = -int32(1 + r.Intn(5))
			}
			rec.enc = store.VerifEncodeRecord(rec.key, rec.body, rec.flag, rec.ver, rec.ts)
			c.line("rec %d %s %s %d %d %d => %s", rec.off, hx(rec.key), hx(rec.body), rec.flag, rec.ver, rec.ts, encSummary(rec.enc))
			base = append(base, rec.enc...)
			off += uint32(len(rec.enc))
			recs = append(recs, rec)
			c.count("records")
			if len(rec.enc) > 256 {
				c.count("records.multiblock")
			}
		}
		var offs []uint32
		for _, rc := range recs {
			offs = append(offs, rc.off)
		}
		c.line("variant clean")
		codecObserve(c, path, base, offs)
		c.line("endvariant")
		c.count("variants.clean")
		for v := 0; v < nvar; v++ {
			ops := genDamage(r, recs, len(base))
			c.line("variant %s", strings.Join(ops, ","))
			for _, o := range ops {
				c.count("damage." + strings.Split(o, ":")[0])
			}
			// positional reads at every original offset plus one unaligned / beyond-EOF probe
			probe := append(append([]uint32{}, offs...), uint32(len(base))+256, offs[r.Intn(len(offs))]+uint32(1+r.Intn(255)))
			codecObserve(c, path, applyDamage(base, ops), probe)
			c.line("endvariant")
			c.count("variants.damaged")
		}
		c.line("end")
	}
}

// replay: re-execute the case(s) of a replay/corpus file (rec lines rebuild the base file)
func codecReplay(c *Ctx, path string) {
	var base []byte
	var offs []uint32
	var pending []string // readat offsets requested inside the current variant
	var ops []string
	inVariant := false
	flush := func() {
		var probe []uint32
		for _, p := range pending {
			o, _ := strconv.Atoi(p)
			probe = append(probe, uint32(o))
		}
		if len(probe) == 0 {
			probe = offs
		}
		codecObserve(c, path, applyDamage(base, ops), probe)
		c.line("endvariant")
	}
	for _, l := range replayLines(c.replay) {
		switch l.op {
		case "case":
			base, offs = nil, nil
			for _, a := range l.args {
				if strings.HasPrefix(a, "bodymax=") {
					n, _ := strconv.Atoi(a[8:])
					config.MCConf.BodyMax = int64(n)
				}
			}
			c.line("%s", l.raw)
		case "rec":
			off, _ := strconv.Atoi(l.args[0])
			flag, _ := strconv.ParseUint(l.args[3], 10, 32)
			ver, _ := strconv.ParseInt(l.args[4], 10, 32)
			ts, _ := strconv.ParseUint(l.args[5], 10, 32)
			enc := store.VerifEncodeRecord(unhx(l.args[1]), unhx(l.args[2]), uint32(flag), int32(ver), uint32(ts))
			c.line("rec %s %s %s %d %d %d => %s", l.args[0], l.args[1], l.args[2], flag, ver, ts, encSummary(enc))
			base = append(base, enc...)
			offs = append(offs, uint32(off))
		case "variant":
			inVariant = true
			pending = nil
			ops = nil
			if len(l.args) > 0 && l.args[0] != "clean" {
				ops = strings.Split(l.args[0], ",")
			}
			c.line("%s", strings.SplitN(l.raw, " =>", 2)[0])
		case "readat":
			pending = append(pending, l.args[0])
		case "endvariant":
			if inVariant {
				flush()
			}
			inVariant = false
		case "end":
			c.line("end")
		}
	}
}
