package main

// SplitMix64: every random choice of a run derives from VERIF_SEED, so a case
// is reproducible from (seed, engine, index).

type RNG struct{ s uint64 }

func NewRNG(seed uint64) *RNG { return &RNG{seed} }

func (r *RNG) Next() uint64 {
	r.s += 0x9e3779b97f4a7c15
	z := r.s
	z = (z ^ (z >> 30)) * 0xbf58476d1ce4e5b9
	z = (z ^ (z >> 27)) * 0x94d049bb133111eb
	return z ^ (z >> 31)
}

func (r *RNG) Intn(n int) int {
	if n <= 0 {
		return 0
	}
	return int(r.Next() % uint64(n))
}

func (r *RNG) Bool() bool { return r.Next()&1 == 1 }

// Chance returns true with probability pct/100.
func (r *RNG) Chance(pct int) bool { return r.Intn(100) < pct }

func (r *RNG) Bytes(n int) []byte {
	b := make([]byte, n)
	for i := 0; i < n; i += 8 {
		v := r.Next()
		for j := 0; j < 8 && i+j < n; j++ {
			b[i+j] = byte(v >> (8 * uint(j)))
		}
	}
	return b
}

// Fork derives an independent stream for case i.
func (r *RNG) Fork(i uint64) *RNG {
	return NewRNG(r.s ^ (i+1)*0xd6e8feb86659fd93)
}

func (r *RNG) Pick(xs []int) int { return xs[r.Intn(len(xs))] }
