package main

import (
	"bufio"
	"bytes"
	"sort"
	"fmt"
	"io"
	"os"
	"path/filepath"
	"strconv"
	"strings"
	"time"

	"github.com/douban/gobeansdb/cmem"
	"github.com/douban/gobeansdb/config"
	"github.com/douban/gobeansdb/gobeansdb"
	mc "github.com/douban/gobeansdb/memcache"
	"github.com/douban/gobeansdb/store"
)

// engine proto (C11, C12): byte streams into the real memcache.ServerConn backed by the real
// gobeansdb.StorageClient + HStore; per served command: bytes consumed, bytes written, whether the
// connection closes, and the published buffer counters + free request tokens.

func init() { engines["proto"] = engineProto }

// memConn: the whole client stream is available at once (or `chunk` bytes per Read); EOF at its end.
type memConn struct {
	in    []byte
	pos   int
	chunk int
	out   bytes.Buffer
}

func (m *memConn) Read(p []byte) (int, error) {
	if m.pos >= len(m.in) {
		return 0, io.EOF
	}
	n := len(p)
	if m.chunk > 0 && n > m.chunk {
		n = m.chunk
	}
	if n > len(m.in)-m.pos {
		n = len(m.in) - m.pos
	}
	copy(p, m.in[m.pos:m.pos+n])
	m.pos += n
	return n, nil
}
func (m *memConn) Write(p []byte) (int, error) { return m.out.Write(p) }
func (m *memConn) Close() error                { return nil }

func ledger() string {
	d := &cmem.DBRL
	return fmt.Sprintf("%d,%d,%d,%d,%d,%d,%d,%d,%d", d.GetData.Count, d.GetData.Size, d.SetData.Count, d.SetData.Size,
		d.FlushData.Count, d.FlushData.Size, d.AllocRL.Count, d.AllocRL.Size, len(mc.RL.Chan))
}

type protoCfg struct {
	bodyInC    int64
	bodyMax    int64
	checkVHash bool
	chunk      int
	listKey    int
}

func protoKeys(r *RNG) []string {
	var keys []string
	for len(keys) < 5+r.Intn(6) {
		k := genKey(r)
		if len(k) > 40 || !store.IsValidKeyString(k) {
			continue
		}
		ascii := true
		for i := 0; i < len(k); i++ {
			if k[i] >= 0x80 {
				ascii = false
			}
		}
		if ascii || r.Chance(20) {
			keys = append(keys, k)
		}
	}
	return keys
}

func protoValue(r *RNG) []byte {
	switch r.Intn(8) {
	case 0:
		return []byte{}
	case 1:
		return []byte("\r\n")
	case 2:
		return []byte("a\r\nget x\r\n")
	case 3:
		return []byte(strconv.Itoa(r.Intn(100000) - 500))
	case 4:
		return r.Bytes(65 + r.Intn(120)) // above body_c_str=64: allocated in C
	case 5:
		return r.Bytes(300 + r.Intn(700)) // multi-block, incompressible
	default:
		return r.Bytes(r.Intn(40))
	}
}

// one grammatical command (with its body if any)
func protoCmd(r *RNG, keys []string) []byte {
	k := keys[r.Intn(len(keys))]
	nr := ""
	if r.Chance(12) {
		nr = " noreply"
	}
	switch p := r.Intn(100); {
	case p < 18:
		return []byte("get " + k + "\r\n")
	case p < 22:
		return []byte("gets " + k + "\r\n")
	case p < 28:
		return []byte("get " + k + " " + keys[r.Intn(len(keys))] + " " + keys[r.Intn(len(keys))] + "\r\n")
	case p < 33:
		return []byte("get ?" + k + "\r\n")
	case p < 36:
		return []byte("get ??" + k + "\r\n")
	case p < 42:
		h := fmt.Sprintf("%016x", store.VerifKeyHash([]byte(k)))
		n := []int{0, 1, 2, 3, 8, 16}[r.Intn(6)]
		return []byte("get @" + h[:n] + "\r\n")
	case p < 44:
		return []byte(fmt.Sprintf("get @@%016x\r\n", store.VerifKeyHash([]byte(k))))
	case p < 45:
		return []byte("get @collision_" + k + "\r\n")
	case p < 70:
		v := protoValue(r)
		verb := []string{"set", "set", "set", "add", "replace"}[r.Intn(5)]
		flag := []int{0, 1, 16, 516, 7}[r.Intn(5)]
		if r.Chance(4) {
			flag |= 0x10000 // the server-reserved bit: the store must refuse the value (it would be fed to the decompressor on every read)
		}
		rev := 0
		if r.Chance(25) {
			rev = 1 + r.Intn(8)
		}
		return []byte(fmt.Sprintf("%s %s %d %d %d%s\r\n%s\r\n", verb, k, flag, rev, len(v), nr, v))
	case p < 72:
		v := protoValue(r)
		return []byte(fmt.Sprintf("cas %s 0 0 %d 7%s\r\n%s\r\n", k, len(v), nr, v))
	case p < 75:
		v := protoValue(r)
		if r.Chance(8) {
			nr = " noreply"
		} else {
			nr = ""
		}
		return []byte(fmt.Sprintf("%s %s 0 0 %d%s\r\n%s\r\n", []string{"append", "prepend"}[r.Intn(2)], k, len(v), nr, v))
	case p < 82:
		return []byte(fmt.Sprintf("incr %s %d%s\r\n", k, r.Intn(50)-10, nr))
	case p < 84:
		return []byte(fmt.Sprintf("decr %s 1\r\n", k))
	case p < 92:
		return []byte("delete " + k + nr + "\r\n")
	case p < 93:
		return []byte("delete " + k + " 0\r\n")
	case p < 94:
		return []byte("stats\r\n")
	case p < 95:
		return []byte("stats cmd_get curr_items\r\n")
	case p < 96:
		return []byte("version\r\n")
	case p < 97:
		return []byte("verbosity 1\r\n")
	case p < 98:
		return []byte("flush_all\r\n")
	case p < 99:
		return []byte("optimize_stat\r\n")
	default:
		return []byte("frobnicate a b\r\n")
	}
}

// a malformed / unusual command
func protoBad(r *RNG, keys []string) []byte {
	k := keys[r.Intn(len(keys))]
	long := strings.Repeat("k", 251)
	switch r.Intn(36) {
	case 22:
		return []byte("get @@zzzzzzzzzzzzzzzz\r\n")
	case 23:
		return []byte("get @@0123456789abcdeg\r\n")
	case 24:
		return []byte("set a\tb 0 0 1\r\na\r\n") // control character inside the key
	case 25:
		return []byte("set ?" + k + " 0 0 1\r\na\r\n")
	case 26:
		return []byte("set k\xc2\x85 0 0 1\r\na\r\n") // U+0085 (space) inside the key
	case 27:
		v := r.Bytes(20 + r.Intn(60))
		return []byte(fmt.Sprintf("set %s 0 0 %d\r\n%s\r\n", k, int(config.MCConf.BodyMax)+1+r.Intn(50), v)) // refused: the body is then read as commands
	case 28:
		return []byte("get " + strings.Repeat("x", 5000+r.Intn(3000)) + "\r\n")
	case 29:
		return []byte("frob " + strings.Repeat("y ", 3000) + "\r\n")
	case 30:
		return []byte("get \x00 " + k + "\r\n")
	case 31:
		ks := ""
		for i := 0; i < 30+r.Intn(100); i++ {
			ks += " " + keys[r.Intn(len(keys))]
		}
		return []byte("get" + ks + "\r\n")
	case 32:
		return []byte(fmt.Sprintf("incr %s %d\r\n", k, []int64{9223372036854775807, -9223372036854775808, 9223372036854775806}[r.Intn(3)]))
	case 33:
		return []byte("get " + k + " noreply\r\n")
	case 34:
		return []byte("   get    " + k + "   \r\n") // runs of spaces
	case 35:
		return []byte("set " + k + " +1 +0 +2\r\nab\r\n")
	case 0:
		return []byte("\r\n")
	case 1:
		return []byte("get\r\n")
	case 2:
		return []byte("get " + long + "\r\n")
	case 3:
		return []byte("set " + k + " 0 0\r\n")
	case 4:
		return []byte("set " + k + " x 0 1\r\na\r\n")
	case 5:
		return []byte("set " + k + " 0 0 -1\r\n")
	case 6:
		return []byte("set " + k + " 0 0 4294967296\r\n")
	case 7:
		return []byte("set " + k + " 0 0 99999999999999999999\r\n")
	case 8:
		return []byte("set " + k + " 0 0 3\r\nabcde\r\n") // body longer than announced: bad data chunk, rest read as commands
	case 9:
		return []byte("set " + k + " 0 0 3 noreplyx\r\nabc\r\n")
	case 10:
		return []byte("set " + long + " 0 0 1\r\na\r\n")
	case 11:
		return []byte("set " + k + " 0 -3 1\r\na\r\n") // negative revision
	case 12:
		return []byte("incr " + k + " abc\r\n")
	case 13:
		return []byte("incr " + long + " 1\r\n")
	case 14:
		return []byte("incr " + k + "\r\n")
	case 15:
		return []byte("get " + k + "\n") // LF only
	case 16:
		return []byte("delete\r\n")
	case 17:
		return []byte("get @" + strings.Repeat("a", 17) + "\r\n")
	case 18:
		return []byte("get @xyz\r\n")
	case 19:
		return []byte("get ?\r\n")
	case 20:
		return []byte("get @@abc\r\n")
	default:
		return []byte("set " + k + " 0 0 " + strconv.Itoa(int(config.MCConf.BodyMax)+1) + "\r\n")
	}
}

var mutRNG *RNG

// slowClient answers gets late (the store was slow)
type slowClient struct {
	mc.StorageClient
	d time.Duration
}

func (s *slowClient) Get(key string) (*mc.Item, error) {
	it, err := s.StorageClient.Get(key)
	time.Sleep(s.d)
	return it, err
}

func (s *slowClient) GetMulti(keys []string) (map[string]*mc.Item, error) {
	m, err := s.StorageClient.GetMulti(keys)
	time.Sleep(s.d)
	return m, err
}

// protoStreamKeys: up to four distinct keys of storage commands of the stream (ordinary keys only)
func protoStreamKeys(stream []byte) []string {
	var ks []string
	for _, line := range strings.Split(string(stream), "\r\n") {
		ws := strings.Fields(line)
		if len(ws) >= 5 && (ws[0] == "set" || ws[0] == "add" || ws[0] == "replace") && len(ws[1]) < 100 && !strings.HasPrefix(ws[1], "@") && !strings.HasPrefix(ws[1], "?") {
			dup := false
			for _, k := range ks {
				if k == ws[1] {
					dup = true
				}
			}
			if !dup && store.IsValidKeyString(ws[1]) {
				ks = append(ks, ws[1])
			}
		}
		if len(ks) >= 4 {
			break
		}
	}
	return ks
}

// late: the commands of the overdue phase (nil: no such phase); set by the generator or by a `latestream` replay line
var late []byte

func protoRun(c *Ctx, id string, cfg protoCfg, stream []byte, home string) {
	os.RemoveAll(home)
	os.MkdirAll(home, 0o755)
	store.Conf.InitDefault()
	store.Conf.Home = home
	store.Conf.NumBucket = 1
	store.Conf.BucketsStat = []int{1}
	store.Conf.TreeHeight = 3
	store.Conf.CheckVHash = cfg.checkVHash
	store.Conf.Init()
	store.Conf.FlushInterval = 100000
	store.Conf.FlushWake = 1 << 40
	store.Conf.MergeInterval = 100000
	config.MCConf.BodyMax = cfg.bodyMax
	config.MCConf.BodyInC = cfg.bodyInC
	config.MCConf.BodyBig = 1 << 30
	config.MCConf.MaxKeyLen = 250
	config.MCConf.MaxReq = 16
	config.MCConf.TimeoutMS = 1 << 30
	store.VerifSetSecsBeforeDump(-1)
	store.VerifSetThresholdListKey(uint32(cfg.listKey))
	hs, err := store.NewHStore()
	if err != nil {
		c.line("case %s => OPEN-FAILED", id)
		return
	}
	mc.InitTokens()
	cl := gobeansdb.VerifNewStorageClient(hs)
	cv := 0
	if cfg.checkVHash {
		cv = 1
	}
	c.line("case %s bodyinc=%d bodymax=%d checkvhash=%d chunk=%d listkey=%d version=%s", id, cfg.bodyInC, cfg.bodyMax, cv, cfg.chunk, cfg.listKey, hx([]byte(config.Version)))
	if late != nil {
		c.line("latestream %s", hx(late))
	}
	c.line("stream %s", hx(stream))
	conn := &memConn{in: stream, chunk: cfg.chunk}
	sc := mc.NewServerConnVerif(conn)
	stats := mc.NewStats()
	for steps := 0; !sc.VerifClosing() && steps < 10000; steps++ {
		before := conn.pos - sc.VerifBuffered()
		conn.out.Reset()
		var e error
		p := guard(func() { e = sc.ServeOnce(cl, stats) })
		after := conn.pos - sc.VerifBuffered()
		cl2 := 0
		if sc.VerifClosing() || e != nil { // Serve ends its loop on an error and closes the connection
			cl2 = 1
		}
		res := ""
		if p != "" {
			res = " PANIC"
		}
		if e != nil {
			res += " ERR"
		}
		c.line("step n=%d close=%d led=%s%s => %s", after-before, cl2, ledger(), res, hx(conn.out.Bytes()))
		if steps%3 == 0 {
			out := append([]byte{}, conn.out.Bytes()...)
			protoRResp(c, out)
		}
		if e != nil {
			break
		}
	}
	// the overdue phase: a command whose bytes arrive later than timeout_ms after its first line is answered
	// RECV_TIMEOUT and dropped without being processed.  With a negative timeout EVERY command is overdue, which makes
	// that path deterministic (no sleeping): whatever Request.Read took for the command (a body buffer counted in
	// SetData, the incr count, a request token) must have been given back when the connection is idle again.
	if late != nil {
		config.MCConf.TimeoutMS = -1
		lconn := &memConn{in: late}
		lsc := mc.NewServerConnVerif(lconn)
		for steps := 0; !lsc.VerifClosing() && steps < 100; steps++ {
			before := lconn.pos - lsc.VerifBuffered()
			lconn.out.Reset()
			var e error
			p := guard(func() { e = lsc.ServeOnce(cl, stats) })
			after := lconn.pos - lsc.VerifBuffered()
			res := ""
			if p != "" {
				res = " PANIC"
			}
			c.line("late n=%d led=%s%s => %s", after-before, ledger(), res, hx(lconn.out.Bytes()))
			if e != nil || after == before {
				break
			}
		}
		// the slow phase: the command is read in time but the store answers late: the reply is replaced by
		// PROCESS_TIMEOUT and dropped - the buffers of the values it carried must be released all the same.  Gets of the
		// keys the stream wrote, through a storage client that answers 60 ms late, timeout 25 ms.  (Under load the READ may
		// already be overdue: then the command takes the RECV_TIMEOUT path - the oracle is the same.)
		config.MCConf.TimeoutMS = 25
		var gets []byte
		for _, k := range protoStreamKeys(stream) {
			gets = append(gets, []byte("get "+k+"\r\n")...)
		}
		sconn := &memConn{in: gets}
		ssc := mc.NewServerConnVerif(sconn)
		slow := &slowClient{StorageClient: cl, d: 60 * time.Millisecond}
		for steps := 0; !ssc.VerifClosing() && steps < 6; steps++ {
			before := sconn.pos - ssc.VerifBuffered()
			sconn.out.Reset()
			var e error
			p := guard(func() { e = ssc.ServeOnce(slow, stats) })
			after := sconn.pos - ssc.VerifBuffered()
			res := ""
			if p != "" {
				res = " PANIC"
			}
			c.line("late slow=1 n=%d led=%s%s => %s", after-before, ledger(), res, hx(sconn.out.Bytes()))
			if e != nil || after == before {
				break
			}
		}
		config.MCConf.TimeoutMS = 1 << 30
	}
	guard(func() { hs.VerifFlush() })
	c.line("final led=%s", ledger())
	guard(func() { hs.Close() })
	c.line("end")
	os.RemoveAll(home)
}

// ---- the client side of the wire and the parser in isolation: Request.Write, Request.Read, Response.Read ----

func fmtReq(req *mc.Request, err error, consumed int) string {
	if err != nil {
		return fmt.Sprintf("ERR %s n=%d", strings.ReplaceAll(err.Error(), " ", "_"), consumed)
	}
	var ks []string
	for _, k := range req.Keys {
		ks = append(ks, hx([]byte(k)))
	}
	flag, exp, cas, body := 0, 0, 0, "-"
	if req.Item != nil {
		flag, exp, cas, body = req.Item.Flag, req.Item.Exptime, req.Item.Cas, hx(req.Item.Body)
	}
	nr := 0
	if req.NoReply {
		nr = 1
	}
	return fmt.Sprintf("OK n=%d cmd=%s keys=%s flag=%d exptime=%d cas=%d body=%s noreply=%d", consumed, hx([]byte(req.Cmd)), strings.Join(ks, ","), flag, exp, cas, body, nr)
}

// protoWire: serialise a structured request with the real Request.Write, parse the bytes back with the real
// Request.Read (followed by unrelated bytes), and parse reply bytes with the real Response.Read
func protoWire(c *Ctx, r *RNG, keys []string) {
	mc.InitTokens()
	k := keys[r.Intn(len(keys))]
	req := &mc.Request{}
	switch r.Intn(9) {
	case 0:
		req.Cmd, req.Keys = []string{"get", "gets"}[r.Intn(2)], []string{k}
	case 1:
		req.Cmd, req.Keys = "get", []string{k, keys[r.Intn(len(keys))], "?" + k}
	case 2, 3:
		req.Cmd = []string{"set", "add", "replace", "append", "prepend"}[r.Intn(5)]
		req.Keys = []string{k}
		req.Item = &mc.Item{Flag: r.Intn(1000), Exptime: r.Intn(20)}
		req.Item.Body = protoValue(r)
		req.NoReply = r.Chance(30)
	case 4:
		req.Cmd, req.Keys = "cas", []string{k}
		req.Item = &mc.Item{Flag: r.Intn(1000), Exptime: r.Intn(20), Cas: r.Intn(100000)}
		req.Item.Body = protoValue(r)
		req.NoReply = r.Chance(30)
	case 5:
		req.Cmd, req.Keys = "delete", []string{k}
		req.NoReply = r.Chance(30)
	case 6:
		req.Cmd, req.Keys = []string{"incr", "decr"}[r.Intn(2)], []string{k}
		req.Item = &mc.Item{}
		req.Item.Body = []byte(strconv.Itoa(r.Intn(100000) - 500))
		req.NoReply = r.Chance(30)
	case 7:
		req.Cmd = []string{"version", "quit", "flush_all", "stats"}[r.Intn(4)]
	default:
		req.Cmd, req.Keys = "stats", []string{"cmd_get", "cmd_set"}
	}
	var buf bytes.Buffer
	werr := req.Write(&buf)
	c.line("wreq %s => %s", strings.TrimPrefix(fmtReq(req, nil, 0), "OK n=0 "), hx(buf.Bytes()))
	c.count("wire.wreq")
	if werr == nil {
		tail := []byte("get zz\r\n")
		in := append(append([]byte{}, buf.Bytes()...), tail...)
		rd := bufio.NewReader(bytes.NewReader(in))
		back := &mc.Request{}
		err := back.Read(rd)
		c.line("rreq %s => %s", hx(in), fmtReq(back, err, len(in)-rd.Buffered()))
		if back.Item != nil {
			cmem.DBRL.SetData.SubSizeAndCount(back.Item.CArray.Cap)
			back.Item.CArray.Free()
		}
		if back.Working {
			mc.RL.Put(back)
		}
		if back.Cmd == "incr" || back.Cmd == "decr" {
			cmem.DBRL.SetData.SubCount(1)
		}
		c.count("wire.rreq")
	}
}

func protoRResp(c *Ctx, out []byte) {
	if len(out) == 0 {
		return
	}
	resp := new(mc.Response)
	rd := bufio.NewReader(bytes.NewReader(out))
	var err error
	p := guard(func() { err = resp.Read(rd) })
	var res string
	switch {
	case p != "":
		res = "PANIC"
	case err != nil:
		res = "ERR"
	default:
		var keys []string
		for k := range resp.Items {
			keys = append(keys, k)
		}
		sort.Strings(keys)
		var items []string
		for _, k := range keys {
			it := resp.Items[k]
			items = append(items, fmt.Sprintf("%s:%d:%d:%s", hx([]byte(k)), it.Flag, it.Cas, hx(it.Body)))
		}
		is := "-"
		if len(items) > 0 {
			is = strings.Join(items, ",")
		}
		res = fmt.Sprintf("OK rest=%d status=%s msg=%s items=%s", rd.Buffered(), hx([]byte(resp.Status)), hx([]byte(resp.Msg)), is)
		resp.CleanBuffer()
	}
	c.line("rresp %s => %s", hx(out), res)
	c.count("wire.rresp")
}

func engineProto(c *Ctx) {
	base := c.work
	if base == "" {
		base, _ = os.MkdirTemp("", "hxproto")
		defer os.RemoveAll(base)
	}
	os.MkdirAll(base, 0o755)
	if c.replay != "" {
		n := 0
		var cfg protoCfg
		id := "replay"
		for _, l := range replayLines(c.replay) {
			switch l.op {
			case "case":
				id = l.args[0]
				cfg = protoCfg{bodyInC: 64, bodyMax: 1 << 20, listKey: 256}
				for _, a := range l.args[1:] {
					kv := strings.SplitN(a, "=", 2)
					v, _ := strconv.ParseInt(kv[1], 10, 64)
					switch kv[0] {
					case "bodyinc":
						cfg.bodyInC = v
					case "bodymax":
						cfg.bodyMax = v
					case "checkvhash":
						cfg.checkVHash = v == 1
					case "chunk":
						cfg.chunk = int(v)
					case "listkey":
						cfg.listKey = int(v)
					}
				}
			case "latestream":
				late = unhx(l.args[0])
			case "stream":
				n++
				protoRun(c, id, cfg, unhx(l.args[0]), filepath.Join(base, fmt.Sprintf("replay%d", n)))
				late = nil
			}
		}
		return
	}
	root := NewRNG(c.seed)
	for ci := 0; ci < c.n; ci++ {
		r := root.Fork(uint64(ci))
		cfg := protoCfg{bodyInC: []int64{64, 4096}[r.Intn(2)], bodyMax: []int64{2000, 1 << 20}[r.Intn(2)], checkVHash: r.Chance(20), listKey: []int{256, 256, 3, 1}[r.Intn(4)]}
		if r.Chance(25) {
			cfg.chunk = 1 + r.Intn(3) // short reads
		}
		keys := protoKeys(r)
		var stream []byte
		ncmd := 5 + r.Intn(35)
		bad := r.Chance(40) // this stream contains malformed commands
		for i := 0; i < ncmd; i++ {
			if bad && r.Chance(15) {
				stream = append(stream, protoBad(r, keys)...)
				c.count("cmd.malformed")
			} else {
				stream = append(stream, protoCmd(r, keys)...)
				c.count("cmd.grammatical")
			}
		}
		if r.Chance(10) {
			stream = append(stream, []byte("quit\r\n")...)
			stream = append(stream, protoCmd(r, keys)...)
		}
		if r.Chance(15) && len(stream) > 0 { // connection cut at an arbitrary byte
			stream = stream[:r.Intn(len(stream))]
			c.count("stream.truncated")
		}
		if bad {
			c.count("stream.with-malformed")
		} else {
			c.count("stream.grammatical")
		}
		late = nil
		if lr := r.Fork(77); lr.Chance(35) {
			for i := 0; i < 1+lr.Intn(4); i++ {
				late = append(late, protoCmd(lr, keys)...)
			}
			c.count("stream.with-overdue-phase")
		}
		mutRNG = r.Fork(31)
		protoRun(c, fmt.Sprintf("%d-%d", c.seed, ci), cfg, stream, filepath.Join(base, fmt.Sprintf("case%d", ci)))
		mutRNG = nil
		late = nil
		for i := 0; i < 6; i++ {
			protoWire(c, r, keys)
		}
	}
}
