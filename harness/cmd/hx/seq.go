package main

import (
	"runtime/debug"
	"hash/crc32"
	"encoding/binary"
	"fmt"
	"os"
	"path/filepath"
	"sort"
	"strconv"
	"strings"
	"sync/atomic"
	"time"

	"github.com/douban/gobeansdb/cmem"
	"github.com/douban/gobeansdb/config"
	"github.com/douban/gobeansdb/gobeansdb"
	mc "github.com/douban/gobeansdb/memcache"
	"github.com/douban/gobeansdb/store"
)

// engine seq (C01, C02, C03, C10, C13, C15, C17, C18): one client drives a real HStore through
// gobeansdb.StorageClient; flush, rotation, restart (with index files removed), GC interleaved.

func init() { engines["seq"] = engineSeq }

type seqCfg struct {
	nb         int
	served     []int
	height     int
	checkVHash bool
	dfmax      int64 // bytes
	splitCap   int64
	idxInt     int64
	bodyInC    int64
	bodyMax    int64
	listKey    uint32 // thresholdListKey: a node with fewer keys lists its items instead of its children
	home       string
	phased     bool // a few writes per process life, then GC (engine seq, mix full)
	collide    bool       // engine seq, mix collide: groups of keys forced onto one key hash (C13)
	safe       bool       // mix collide-safe: colliding keys are set and read once first, then only overwritten and read; restarts keep the tree dump
	groups     [][]string // the groups (set when the key pool is drawn, or by a replay)
}

type seqStore struct {
	gcCancel, gcBoundaries, gcBucket int64 // doGC: CancelGC at the gcCancel-th file boundary of the next pass (1 = before the first file; 0 = never)
	cfg    seqCfg
	hs     *store.HStore
	cl     *gobeansdb.StorageClient
	rot    int64 // rotation flush goroutines spawned and not yet finished
	bgdone int64
	inOp   int64 // a client command is executing: the post-rotation flush is parked until it returns
	noQuiesce int64
	unloaded  []int // buckets that were served and have been hot-unloaded: their files legitimately stay where they are
}

var curStore *seqStore

func seqHook(point string, args ...interface{}) {
	s := curStore
	if s == nil {
		return
	}
	switch point {
	case "data.rotate":
		atomic.AddInt64(&s.rot, 1)
	case "data.flush.enter":
		// single-client runs: the flush that follows a rotation runs after the command that
		// caused it has returned (deterministic order; other orders belong to the conc engine)
		if args[1].(int) >= 0 && curGID() != mainGID {
			// (a flush of an older file called by the command itself — close flushing what a rotation left — is not parked)
			for atomic.LoadInt64(&s.inOp) != 0 {
				time.Sleep(10 * time.Microsecond)
			}
		}
	case "data.flush.exit":
		if args[1].(int) >= 0 && curGID() != mainGID { // the goroutine spawned by a rotation (not close flushing what is left)
			atomic.AddInt64(&s.rot, -1)
		}
	case "bucket.open.bgcheck.done":
		atomic.AddInt64(&s.bgdone, 1)
	case "gc.prepared", "gc.file.done":
		// the pass is cancelled at a chosen file boundary (CancelGC, as the admin command does)
		if ca := atomic.LoadInt64(&s.gcCancel); ca > 0 {
			if atomic.AddInt64(&s.gcBoundaries, 1) == ca {
				s.hs.CancelGC(int(atomic.LoadInt64(&s.gcBucket)))
			}
		}
	}
}

func (s *seqStore) quiesce() {
	if atomic.LoadInt64(&s.noQuiesce) != 0 {
		return // the post-rotation flush is parked on purpose (engine crash, mix c02)
	}
	for i := 0; atomic.LoadInt64(&s.rot) != 0; i++ {
		time.Sleep(20 * time.Microsecond)
		if i > 500000 {
			panic("rotation flush did not finish")
		}
	}
}

func (s *seqStore) applyConf() {
	c := s.cfg
	store.Conf.InitDefault()
	store.Conf.Home = c.home
	store.Conf.NumBucket = c.nb
	store.Conf.BucketsStat = make([]int, c.nb)
	for _, b := range c.served {
		store.Conf.BucketsStat[b] = 1
	}
	store.Conf.TreeHeight = c.height
	store.Conf.CheckVHash = c.checkVHash
	store.Conf.Init()
	store.Conf.DataFileMax = c.dfmax
	store.Conf.SplitCap = c.splitCap
	store.Conf.IndexIntervalSize = c.idxInt
	store.Conf.MergeInterval = 100000
	store.Conf.FlushInterval = 100000 // no time-driven flush
	store.Conf.FlushWake = 1 << 40
	config.MCConf.BodyMax = c.bodyMax
	config.MCConf.BodyInC = c.bodyInC
	config.MCConf.MaxKeyLen = 250
	store.VerifSetSecsBeforeDump(-1)
	store.VerifSetThresholdListKey(c.listKey)
}

func (s *seqStore) open() (err error) {
	s.applyConf()
	atomic.StoreInt64(&s.bgdone, 0)
	defer func() {
		if r := recover(); r != nil {
			if fe, ok := r.(fatalError); ok {
				err = fe
				return
			}
			panic(r)
		}
	}()
	s.hs, err = store.NewHStore()
	if err != nil {
		return err
	}
	s.cl = gobeansdb.VerifNewStorageClient(s.hs)
	want := int64(len(s.cfg.served))
	for i := 0; atomic.LoadInt64(&s.bgdone) < want; i++ {
		time.Sleep(20 * time.Microsecond)
		theHub.mu.Lock()
		f := theHub.fatal
		theHub.mu.Unlock()
		if f != "" {
			// the background hint check of a bucket ended in a fatal error (the real process exits there)
			return fatalError{f}
		}
		if i > 500000 {
			panic("open: background hint check did not finish")
		}
	}
	return nil
}

// flushAll forces a flush; a fatal error inside it is an observation (recorded for the next check).
func (s *seqStore) flushAll() {
	if p := guard(func() { s.hs.VerifFlush() }); p != "" {
		theHub.mu.Lock()
		if theHub.fatal == "" {
			theHub.fatal = p
		}
		theHub.mu.Unlock()
	}
	s.quiesce()
}

// guard runs f and turns a panic into an observation.
func guard(f func()) (panicked string) {
	if s := curStore; s != nil {
		atomic.StoreInt64(&s.inOp, 1)
		defer atomic.StoreInt64(&s.inOp, 0)
	}
	defer func() {
		if r := recover(); r != nil {
			panicked = fmt.Sprint(r)
			if debugLog {
				fmt.Fprintf(os.Stderr, "PANIC %v\n%s\n", r, debug.Stack())
			}
		}
	}()
	f()
	return ""
}

// ---- independent data file scanner (does not use any code of the store) ----

type scanItem struct {
	off  uint32
	key  []byte
	ver  int32
	flag uint32
	vsz  uint32
}

func indepScan(path string) (items []scanItem, size int64, ok bool) {
	data, err := os.ReadFile(path)
	if err != nil {
		return nil, 0, false
	}
	size = int64(len(data))
	off := 0
	for off+24 <= len(data) {
		flag := binary.LittleEndian.Uint32(data[off+8:])
		ver := int32(binary.LittleEndian.Uint32(data[off+12:]))
		ksz := int(binary.LittleEndian.Uint32(data[off+16:]))
		vsz := int(binary.LittleEndian.Uint32(data[off+20:]))
		if ksz == 0 || ksz > 250 || vsz > 1<<26 || off+24+ksz+vsz > len(data) {
			off += 256 // unreadable block
			continue
		}
		if crc32.ChecksumIEEE(data[off+4:off+24+ksz+vsz]) != binary.LittleEndian.Uint32(data[off:]) {
			off += 256 // a header that looks sane over bytes that are not its record (torn or partly overwritten)
			continue
		}
		items = append(items, scanItem{uint32(off), append([]byte{}, data[off+24:off+24+ksz]...), ver, flag, uint32(vsz)})
		n := 24 + ksz + vsz
		off += (n + 255) / 256 * 256
	}
	return items, size, true
}

func bucketDirOf(home string, nb, id int) string {
	switch nb {
	case 1:
		return home
	case 16:
		return filepath.Join(home, fmt.Sprintf("%x", id))
	}
	return filepath.Join(home, fmt.Sprintf("%x", id/16), fmt.Sprintf("%x", id%16))
}

// filesLine: every data file of every bucket directory, scanned independently.
func (s *seqStore) filesLine() string {
	var sb strings.Builder
	for b := 0; b < s.cfg.nb; b++ {
		dir := bucketDirOf(s.cfg.home, s.cfg.nb, b)
		paths, _ := filepath.Glob(filepath.Join(dir, "[0-9][0-9][0-9].data"))
		sort.Strings(paths)
		for _, p := range paths {
			items, size, ok := indepScan(p)
			if !ok {
				continue
			}
			ck, _ := strconv.Atoi(filepath.Base(p)[:3])
			fmt.Fprintf(&sb, " %d/%d:%d:", b, ck, size)
			for i, it := range items {
				if i > 0 {
					sb.WriteByte(',')
				}
				fmt.Fprintf(&sb, "%d:%s:%d", it.off, hx(it.key), it.ver)
			}
		}
	}
	return sb.String()
}

// strayFiles: anything under home that is not inside a served bucket's directory (C15).
func (s *seqStore) strayFiles() []string {
	served := map[string]bool{}
	for _, b := range s.cfg.served {
		served[bucketDirOf(s.cfg.home, s.cfg.nb, b)] = true
	}
	for _, b := range s.unloaded {
		served[bucketDirOf(s.cfg.home, s.cfg.nb, b)] = true
	}
	var stray []string
	filepath.Walk(s.cfg.home, func(p string, info os.FileInfo, err error) error {
		if err != nil || info.IsDir() {
			return nil
		}
		if !served[filepath.Dir(p)] {
			rel, _ := filepath.Rel(s.cfg.home, p)
			stray = append(stray, rel)
		}
		return nil
	})
	return stray
}

type headPos struct {
	chunk int
	off   uint32
}

func (s *seqStore) heads() map[int]headPos {
	m := map[int]headPos{}
	for _, b := range s.cfg.served {
		ck, off := s.hs.VerifWritePos(b)
		m[b] = headPos{ck, off}
	}
	return m
}

// written: which bucket's head moved, and by how much (the on-disk size of the record appended)
func written(before, after map[int]headPos) (bucket int, size uint32, pos string) {
	for b, a := range after {
		bf := before[b]
		if a != bf {
			if a.chunk == bf.chunk {
				return b, a.off - bf.off, fmt.Sprintf("%d/%d:%d", b, a.chunk, bf.off)
			}
			return b, a.off, fmt.Sprintf("%d/%d:%d", b, a.chunk, 0)
		}
	}
	return -1, 0, "-"
}

func valSummary(b []byte) string {
	if len(b) <= 64 {
		return hx(b)
	}
	return "S" + bodysum(b)
}

func (s *seqStore) doGet(c *Ctx, key string) {
	var item *mc.Item
	var err error
	panicked := guard(func() { item, err = s.cl.Get(key) })
	switch {
	case panicked != "":
		c.line("get %s => PANIC", hx([]byte(key)))
	case err != nil:
		c.line("get %s => ERR", hx([]byte(key)))
	case item == nil:
		c.line("get %s => MISS", hx([]byte(key)))
	default:
		c.line("get %s => VAL %d %s", hx([]byte(key)), item.Flag, valSummary(item.Body))
		cmem.DBRL.GetData.SubSizeAndCount(item.CArray.Cap)
		item.CArray.Free()
	}
}

func (s *seqStore) doMeta(c *Ctx, key string) {
	var item *mc.Item
	var err error
	panicked := guard(func() { item, err = s.cl.Get("??" + key) })
	switch {
	case panicked != "":
		c.line("meta %s => PANIC", hx([]byte(key)))
	case err != nil:
		c.line("meta %s => ERR", hx([]byte(key)))
	case item == nil:
		c.line("meta %s => MISS", hx([]byte(key)))
	default:
		c.line("meta %s => %s", hx([]byte(key)), string(item.Body))
	}
}

// doList: the directory listing used for replica synchronisation, `get @<hex prefix>`
func (s *seqStore) doList(c *Ctx, prefix string) {
	var item *mc.Item
	var err error
	p := guard(func() { item, err = s.cl.Get("@" + prefix) })
	pp := prefix
	if pp == "" {
		pp = "-"
	}
	switch {
	case p != "":
		c.line("list %s => PANIC", pp)
	case err != nil:
		c.line("list %s => ERR", pp)
	case item == nil:
		c.line("list %s => NIL", pp)
	default:
		body := strings.TrimSuffix(string(item.Body), "\n")
		c.line("list %s => [%s]", pp, strings.ReplaceAll(body, "\n", "|"))
	}
}

// doUnload: hot-unload a served bucket through HStore.ChangeRoute (what the web handler /route/reload does); from then
// on the bucket is not served: its keys miss, writes are refused, upper-level listings no longer contain it
func (s *seqStore) doUnload(c *Ctx, bkt int) {
	newRoute := store.Conf.DBRouteConfig
	newRoute.BucketsStat = append([]int{}, store.Conf.BucketsStat...)
	newRoute.BucketsStat[bkt] = 0
	var err error
	p := guard(func() { _, _, err = s.hs.ChangeRoute(newRoute) })
	switch {
	case p != "":
		c.line("unload %d => PANIC", bkt)
		return
	case err != nil:
		c.line("unload %d => ERR", bkt)
		return
	}
	store.Conf.DBRouteConfig = newRoute // as the web handler does after ChangeRoute
	var rest []int
	for _, b := range s.cfg.served {
		if b != bkt {
			rest = append(rest, b)
		}
	}
	s.cfg.served = rest
	s.unloaded = append(s.unloaded, bkt)
	c.line("unload %d => ok", bkt)
}

// listProbes: prefixes of the hashes of the pool keys (all lengths that matter) and some neighbours
func (s *seqStore) listProbes(r *RNG, keys []string) []string {
	seen := map[string]bool{"": true}
	out := []string{""}
	add := func(p string) {
		if !seen[p] {
			seen[p] = true
			out = append(out, p)
		}
	}
	for _, k := range keys {
		h := fmt.Sprintf("%016x", store.VerifKeyHash([]byte(k)))
		for _, n := range []int{1, 2, 3, 4, 5, 8, 16} {
			if r.Chance(35) {
				add(h[:n])
			}
		}
	}
	for i := 0; i < 3; i++ {
		add(fmt.Sprintf("%x", r.Intn(16)))
		add(fmt.Sprintf("%02x", r.Intn(256)))
	}
	return out
}

func (s *seqStore) doSet(c *Ctx, key string, body []byte, flag uint32, rev int, ts uint32) {
	before := s.heads()
	item := &mc.Item{Flag: int(flag), Exptime: rev, ReceiveTime: time.Unix(int64(ts), 0)}
	if !item.Alloc(len(body)) {
		panic("alloc")
	}
	copy(item.Body, body)
	cmem.DBRL.SetData.AddSizeAndCount(item.CArray.Cap)
	ok, err := false, error(nil)
	panicked := guard(func() { ok, err = s.cl.Set(key, item, false) })
	s.quiesce()
	_, size, pos := written(before, s.heads())
	res := "STORED"
	if panicked != "" {
		res = "PANIC"
	} else if err != nil {
		res = "ERR"
	} else if !ok {
		res = "NOT_STORED"
	}
	c.line("set %s %s %d %d %d size=%d => %s pos=%s", hx([]byte(key)), hx(body), flag, rev, ts, size, res, pos)
}

func (s *seqStore) doDelete(c *Ctx, key string) {
	before := s.heads()
	ok, err := false, error(nil)
	panicked := guard(func() { ok, err = s.cl.Delete(key) })
	s.quiesce()
	_, size, pos := written(before, s.heads())
	res := "DELETED"
	if panicked != "" {
		res = "PANIC"
	} else if err != nil {
		res = "ERR"
	} else if !ok {
		res = "NOT_FOUND"
	}
	c.line("del %s size=%d ts=%d => %s pos=%s", hx([]byte(key)), size, s.observedTS(key, size), res, pos)
}

func (s *seqStore) doIncr(c *Ctx, key string, delta int) {
	before := s.heads()
	cmem.DBRL.SetData.AddCount(1) // as Request.Read does for incr
	v, err := 0, error(nil)
	panicked := guard(func() { v, err = s.cl.Incr(key, delta) })
	s.quiesce()
	_, size, pos := written(before, s.heads())
	if panicked != "" {
		c.line("incr %s %d size=%d => PANIC pos=%s", hx([]byte(key)), delta, size, pos)
		return
	}
	if err != nil {
		c.line("incr %s %d size=%d => ERR pos=%s", hx([]byte(key)), delta, size, pos)
		return
	}
	c.line("incr %s %d size=%d ts=%d => %d pos=%s", hx([]byte(key)), delta, size, s.observedTS(key, size), v, pos)
}

// isLastSplit: p is the highest-numbered *.idx.s of its data file among idx
func isLastSplit(p string, idx []string) bool {
	if !strings.HasSuffix(p, ".idx.s") {
		return false
	}
	base := filepath.Base(p)
	for _, q := range idx {
		b := filepath.Base(q)
		if strings.HasSuffix(q, ".idx.s") && filepath.Dir(q) == filepath.Dir(p) && b[:3] == base[:3] && b > base {
			return false
		}
	}
	return true
}

// observedTS: delete and incr stamp their record with the server clock; the model needs the value
// (first-record timestamps decide GC eligibility), so it is read back through ??key.
func (s *seqStore) observedTS(key string, size uint32) uint32 {
	if size == 0 {
		return 0
	}
	var item *mc.Item
	guard(func() { item, _ = s.cl.Get("??" + key) })
	if item == nil {
		return 0
	}
	f := strings.Fields(string(item.Body))
	if len(f) < 5 {
		return 0
	}
	ts, _ := strconv.ParseUint(f[4], 10, 32)
	return uint32(ts)
}

// doGC: flush (the sequential statement is about quiescent write buffers), resolve the range the
// way HStore.GC does, then run the pass synchronously.
func (s *seqStore) doGC(c *Ctx, bkt, begin, end, noGCDays int, merge, pretend bool) {
	s.flushAll()
	if theHub.fatal != "" {
		return
	}
	c.line("flush")
	c.line("files =>%s", s.filesLine())
	now := time.Now().Unix()
	var b, e int
	var err error
	panicked := guard(func() { b, e, err = s.hs.VerifGCCheckRange(bkt, begin, end, noGCDays) })
	m := 0
	if merge {
		m = 1
	}
	pr := 0
	if pretend {
		pr = 1
	}
	cancel := atomic.LoadInt64(&s.gcCancel)
	defer atomic.StoreInt64(&s.gcCancel, 0)
	atomic.StoreInt64(&s.gcBoundaries, 0)
	atomic.StoreInt64(&s.gcBucket, int64(bkt))
	lhs := fmt.Sprintf("gc bkt=%d begin=%d end=%d nogcdays=%d merge=%d pretend=%d now=%d cancel=%d", bkt, begin, end, noGCDays, m, pr, now, cancel)
	if panicked != "" {
		c.line("%s => PANIC", lhs)
		return
	}
	if err != nil {
		c.line("%s => REFUSED", lhs)
		return
	}
	if pretend {
		c.line("%s => RANGE %d %d", lhs, b, e)
		return
	}
	var st *store.GCState
	panicked = guard(func() { st = s.hs.VerifGCRun(bkt, b, e, merge) })
	if panicked != "" {
		c.line("%s => RANGE %d %d PANIC %s", lhs, b, e, strings.ReplaceAll(panicked, "\n", " "))
		return
	}
	errs := "ok"
	if st.Err != nil {
		errs = "err"
	}
	// a cancelled pass has looked at the files [b, stopped)
	stopped := e + 1
	if st.CancelFlag && st.Src <= e {
		stopped = st.Src
	}
	c.line("%s => RANGE %d %d DONE %s stopped=%d before=%d released=%d sizebefore=%d sizereleased=%d", lhs, b, e, errs, stopped,
		st.NumBefore, st.NumReleased, st.SizeBefore, st.SizeReleased)
	c.line("files =>%s", s.filesLine())
}

func (s *seqStore) restart(c *Ctx, r *RNG, mode int) bool {
	if s.cfg.safe {
		mode = 0
	}
	if s.cfg.collide && mode != 0 {
		// C13 quantifies over "tree dump present or rebuilt from hints": hint files and the collision table stay
		mode = 3
	}
	if p := guard(func() { s.hs.Close() }); p != "" {
		c.line("fatal => during close: %s", strings.ReplaceAll(p, "\n", " "))
		return false
	}
	s.quiesce()
	if f := theHub.takeFatal(); f != "" {
		c.line("fatal => %s", strings.ReplaceAll(f, "\n", " "))
		return false
	}
	c.line("files =>%s", s.filesLine())
	// remove a subset of the derived index files
	keepTree := 1
	dropped := 0
	for _, b := range s.cfg.served {
		dir := bucketDirOf(s.cfg.home, s.cfg.nb, b)
		idx, _ := filepath.Glob(filepath.Join(dir, "*.idx.*"))
		hasTree := false
		for _, p := range idx {
			if strings.HasSuffix(p, ".hash") {
				hasTree = true
			}
		}
		if !hasTree {
			keepTree = 0 // nothing to load: the tree is rebuilt
		}
		sort.Strings(idx)
		for _, p := range idx {
			drop := false
			switch mode {
			case 0: // keep everything
			case 1: // drop everything
				drop = true
			case 2: // random subset
				drop = r.Chance(40)
			case 3: // drop only the tree dump
				drop = strings.HasSuffix(p, ".hash")
			case 4: // drop only hint files
				drop = !strings.HasSuffix(p, ".hash")
			case 5: // drop the tree dump and, per data file, the LAST hint split only
				drop = strings.HasSuffix(p, ".hash") || isLastSplit(p, idx)
			case 6: // drop the tree dump and, per data file, the FIRST hint split only
				drop = strings.HasSuffix(p, ".hash") || strings.HasSuffix(p, ".000.idx.s")
			}
			if drop {
				os.Remove(p)
				dropped++
				if strings.HasSuffix(p, ".hash") {
					keepTree = 0
				}
			}
		}
	}
	if len(s.cfg.served) > 1 && keepTree == 0 {
		// per-bucket tree survival differs across buckets only in mode 2; keep it simple: in a
		// multi-bucket case drop every tree dump when any is dropped
		for _, b := range s.cfg.served {
			dir := bucketDirOf(s.cfg.home, s.cfg.nb, b)
			hs, _ := filepath.Glob(filepath.Join(dir, "*.idx.hash"))
			for _, p := range hs {
				os.Remove(p)
			}
		}
	}
	err := s.open()
	if err != nil {
		c.line("restart keeptree=%d dropped=%d => REFUSED", keepTree, dropped)
		return false
	}
	c.line("restart keeptree=%d dropped=%d => OK", keepTree, dropped)
	return true
}

func genSeqCfg(r *RNG, home string) seqCfg {
	c := seqCfg{home: home}
	c.nb = []int{1, 1, 16, 16, 256}[r.Intn(5)]
	depth := map[int]int{1: 0, 16: 1, 256: 2}[c.nb]
	c.height = 2 + r.Intn(8-depth-1) // 2..(8-depth)
	if c.height > 4 {
		c.height = 2 + r.Intn(3) // tall trees allocate 16^(h-1) leaves per bucket: keep most cases small
	}
	switch r.Intn(4) {
	case 0: // one bucket served
		c.served = []int{r.Intn(c.nb)}
	case 1: // some
		n := 1 + r.Intn(3)
		seen := map[int]bool{}
		for i := 0; i < n; i++ {
			b := r.Intn(c.nb)
			if !seen[b] {
				seen[b] = true
				c.served = append(c.served, b)
			}
		}
	default: // all (rarely for 16, capped for 256: opening a bucket costs ~25 ms of directory scans)
		if c.nb <= 16 && (c.nb == 1 || r.Chance(15)) {
			for b := 0; b < c.nb; b++ {
				c.served = append(c.served, b)
			}
		} else {
			for b := r.Intn(c.nb/4 + 1); b < c.nb; b += 1 + c.nb/4 + r.Intn(c.nb/2+1) {
				c.served = append(c.served, b)
			}
		}
	}
	if r.Chance(4) {
		// the deepest tree the store supports (bucket digits + height = 8: the leaf stores the fewest hash bytes): one bucket served
		c.nb, c.height = 256, 6
		c.served = []int{r.Intn(256)}
	}
	sort.Ints(c.served)
	c.checkVHash = r.Chance(30)
	c.dfmax = []int64{256 * 3, 256 * 5, 256 * 8, 256 * 40, 4000 << 20}[r.Intn(5)]
	c.splitCap = []int64{2, 4, 64, 1 << 20}[r.Intn(4)]
	c.idxInt = []int64{300, 1024, 4096}[r.Intn(3)]
	c.bodyInC = []int64{64, 4096}[r.Intn(2)]
	c.bodyMax = 1 << 20
	c.listKey = []uint32{1, 2, 4, 8, 256}[r.Intn(5)]
	return c
}

func cfgLine(c seqCfg) string {
	var sv []string
	for _, b := range c.served {
		sv = append(sv, strconv.Itoa(b))
	}
	cv := 0
	if c.checkVHash {
		cv = 1
	}
	return fmt.Sprintf("nb=%d served=%s height=%d checkvhash=%d dfmax=%d splitcap=%d idxint=%d bodyinc=%d bodymax=%d listkey=%d",
		c.nb, strings.Join(sv, ","), c.height, cv, c.dfmax, c.splitCap, c.idxInt, c.bodyInC, c.bodyMax, c.listKey)
}

func engineSeq(c *Ctx) {
	store.VerifHook = seqHook
	root := NewRNG(c.seed)
	base := c.work
	if base == "" {
		base, _ = os.MkdirTemp("", "hxseq")
		defer os.RemoveAll(base)
	}
	if c.replay != "" {
		seqReplay(c, base)
		return
	}
	collide := c.mix == "collide" || c.mix == "collide-safe"
	safe := c.mix == "collide-safe"
	if collide {
		c.mix = "full"
	}
	for ci := 0; ci < c.n; ci++ {
		r := root.Fork(uint64(ci))
		home := filepath.Join(base, fmt.Sprintf("case%d", ci))
		os.RemoveAll(home)
		os.MkdirAll(home, 0o755)
		cfg := genSeqCfg(r, home)
		if collide {
			cfg.collide = true
			cfg.safe = safe
			cfg.nb, cfg.served = 1, []int{0}
			if cfg.height > 3 {
				cfg.height = 3
			}
			cfg.checkVHash = false
		}
		if c.mix == "full" && r.Chance(65) {
			// GC-oriented layout: a data file is "not full" for GC's destination test when it is smaller than
			// DataFileMax - BodyMax, so use a small body limit (as the store's own GC tests do) and files of 6-16 blocks
			cfg.bodyMax = []int64{256, 512}[r.Intn(2)]
			cfg.dfmax = []int64{256 * 6, 256 * 8, 256 * 16}[r.Intn(3)]
			if len(cfg.served) > 2 {
				cfg.served = cfg.served[:2]
			}
			cfg.phased = r.Chance(60)
			if cfg.phased {
				cfg.nb, cfg.served = 1, []int{0}
				if cfg.height > 3 {
					cfg.height = 3
				}
			}
		}
		seqCase(c, r, fmt.Sprintf("%d-%d", c.seed, ci), cfg)
		os.RemoveAll(home)
	}
}

// installGroups overrides the key hash: every key of a group gets the default hash of the group's first key
func installGroups(groups [][]string) {
	if len(groups) == 0 {
		store.VerifSetKeyHash(nil)
		return
	}
	m := map[string]uint64{}
	for _, g := range groups {
		h := store.VerifKeyHash([]byte(g[0]))
		for _, k := range g {
			m[k] = h
		}
	}
	store.VerifSetKeyHash(func(key []byte) uint64 {
		if h, ok := m[string(key)]; ok {
			return h
		}
		return store.VerifKeyHash(key)
	})
}

func seqCase(c *Ctx, r *RNG, id string, cfg seqCfg) {
	s := &seqStore{cfg: cfg}
	curStore = s
	defer func() { curStore = nil }()
	c.line("case %s %s", id, cfgLine(cfg))
	c.count(fmt.Sprintf("cfg.nb=%d", cfg.nb))
	if cfg.checkVHash {
		c.count("cfg.checkvhash")
	}
	c.count(fmt.Sprintf("cfg.dfmax=%d", cfg.dfmax))
	if err := s.open(); err != nil {
		c.line("open => REFUSED %v", err)
		c.line("end")
		return
	}
	// key pool: valid keys, small so that overwrites / deletes of the same key are frequent
	var keys []string
	nk := 4 + r.Intn(20)
	servedSet := map[int]bool{}
	for _, b := range cfg.served {
		servedSet[b] = true
	}
	depth := map[int]uint{1: 0, 16: 1, 256: 2}[cfg.nb]
	for tries := 0; len(keys) < nk && tries < 200000; tries++ {
		k := genKey(r)
		if !store.IsValidKeyString(k) {
			continue
		}
		if int64(len(k)+24+256) > cfg.dfmax/2 {
			continue
		}
		bkt := 0
		if depth > 0 {
			bkt = int(store.VerifKeyHash([]byte(k)) >> (64 - 4*depth))
		}
		// most keys in served buckets, a few (about 1 in 8) in unserved ones
		if servedSet[bkt] || (len(keys)%8 == 7 && len(cfg.served) < cfg.nb) {
			keys = append(keys, k)
			if !servedSet[bkt] {
				c.count("key.unserved-bucket")
			}
		}
	}
	if cfg.collide {
		// 1..3 groups of 2..4 pool keys share one key hash (the default hash of the group's first key)
		gr := r.Fork(4242)
		perm := gr.Intn(len(keys))
		ng := 1 + gr.Intn(3)
		idx := 0
		for g := 0; g < ng && idx+1 < len(keys); g++ {
			n := 2 + gr.Intn(3)
			var grp []string
			for j := 0; j < n && idx < len(keys); j++ {
				grp = append(grp, keys[(perm+idx)%len(keys)])
				idx++
			}
			if len(grp) >= 2 {
				cfg.groups = append(cfg.groups, grp)
			}
		}
		installGroups(cfg.groups)
		defer store.VerifSetKeyHash(nil)
		var gs []string
		for _, g := range cfg.groups {
			var ks []string
			for _, k := range g {
				ks = append(ks, hx([]byte(k)))
			}
			gs = append(gs, strings.Join(ks, ","))
		}
		if cfg.safe {
			c.line("groups %s safe", strings.Join(gs, ";"))
		} else {
			c.line("groups %s", strings.Join(gs, ";"))
		}
		c.count("case.collide")
		if cfg.safe {
			// every colliding key is written and then read once: from then on the collision table knows all of them
			for _, g := range cfg.groups {
				for _, k := range g {
					_, v := genValue(r, len(k), 200)
					s.doSet(c, k, v, 0, 0, 1500000000)
				}
			}
			for _, g := range cfg.groups {
				for _, k := range g {
					s.doGet(c, k)
				}
			}
		}
	}
	inGroup := map[string]bool{}
	for _, g := range cfg.groups {
		for _, k := range g {
			inGroup[k] = true
		}
	}
	nops := 30 + r.Intn(90)
	if c.tier == "thorough" {
		nops = 60 + r.Intn(300)
	}
	ts := uint32(1500000000 + r.Intn(1000))
	nrestart := 0
	if cfg.phased {
		// phased layout: a few writes per process life.  A new process always starts a new data file, so the files
		// stay far from full, deletes and overwrites land in later files than the records they supersede, and a GC
		// range that starts after file 0 has an earlier, never collected, non-full file as its destination.
		c.count("case.phased")
		hot := keys
		if len(hot) > 6 {
			hot = hot[:6]
		}
		nph := 2 + r.Intn(4)
		for ph := 0; ph < nph; ph++ {
			nw := 1 + r.Intn(7)
			for i := 0; i < nw; i++ {
				k := hot[r.Intn(len(hot))]
				ts += uint32(r.Intn(3))
				switch p := r.Intn(100); {
				case p < 55:
					_, v := genValue(r, len(k), 180)
					s.doSet(c, k, v, []uint32{0, 1, 0x204}[r.Intn(3)], 0, ts)
					c.count("op.set")
				case p < 85:
					s.doDelete(c, k)
					c.count("op.delete")
				case p < 92:
					s.doIncr(c, k, r.Intn(9)-2)
					c.count("op.incr")
				default:
					s.doGet(c, k)
					c.count("op.get")
				}
			}
			mode := 0
			if r.Chance(50) {
				mode = 1
			}
			if !s.restart(c, r, mode) {
				c.line("end")
				return
			}
			c.count("op.restart")
		}
		npass := 1 + r.Intn(3)
		lastEnd := -1
		for pass := 0; pass < npass; pass++ {
			bkt := cfg.served[r.Intn(len(cfg.served))]
			head := s.hs.VerifHead(bkt)
			begin, end := 0, 0
			if head > 1 {
				begin = 1 + r.Intn(head-1)
				if lastEnd >= 0 && lastEnd+1 < head && r.Chance(60) {
					begin = lastEnd + 1 // continue behind the previous pass
				}
				end = begin + r.Intn(head-begin)
			}
			if pass == 0 && r.Chance(30) {
				begin = 0
				if head > 0 {
					end = r.Intn(head)
				}
			}
			s.doGC(c, bkt, begin, end, 0, r.Chance(40), false)
			c.count("op.gc")
			lastEnd = end
			if theHub.fatal != "" {
				break
			}
			if r.Chance(30) {
				if !s.restart(c, r, r.Intn(2)) {
					c.line("end")
					return
				}
				c.count("op.restart")
			}
		}
		nops = r.Intn(12)
	}
	unloadAt := -1
	if ur := r.Fork(991); cfg.nb >= 16 && len(cfg.served) >= 2 && !cfg.collide && !cfg.phased && ur.Chance(10) {
		unloadAt = ur.Intn(nops + 1)
	}
	for i := 0; i < nops; i++ {
		if f := theHub.takeFatal(); f != "" {
			c.line("fatal => %s", strings.ReplaceAll(f, "\n", " "))
			c.line("end")
			return
		}
		if i == unloadAt && len(s.cfg.served) >= 2 {
			// a served bucket is hot-unloaded (ChangeRoute waits 10 s before it closes the bucket): listings above
			// bucket level before and after, and reads of its keys after
			ur := r.Fork(992)
			bkt := s.cfg.served[ur.Intn(len(s.cfg.served))]
			for _, pfx := range []string{"", fmt.Sprintf("%x", bkt>>4&15), fmt.Sprintf("%x", bkt&15)} {
				s.doList(c, pfx)
			}
			s.doUnload(c, bkt)
			cfg.served = s.cfg.served // later choices (GC requests…) go to buckets that are still served
			c.count("op.unload")
			for _, pfx := range []string{"", fmt.Sprintf("%x", bkt>>4&15), fmt.Sprintf("%x", bkt&15)} {
				s.doList(c, pfx)
			}
			for j := 0; j < 6 && j < len(keys); j++ {
				s.doGet(c, keys[ur.Intn(len(keys))])
			}
		}
		k := keys[r.Intn(len(keys))]
		ts += uint32(r.Intn(3))
		p := r.Intn(100)
		if cfg.safe && inGroup[k] && p >= 42 && p < 60 {
			p = 70 // no delete / incr of a colliding key in the safe mix: a read instead
		}
		switch {
		case p < 42:
			// a record must fit a data file with room to spare ("limits from a few records"): a record
			// larger than DataFileMax gets a file of its own and GC then pushes its destination past the
			// source file (observed; outside the configurations the properties quantify over)
			maxLen := 4000
			if lim := int(cfg.dfmax)/2 - 280 - len(k); lim < maxLen {
				maxLen = lim
			}
			if int64(maxLen) > cfg.bodyMax-8 {
				maxLen = int(cfg.bodyMax - 8)
			}
			if maxLen < 0 {
				maxLen = 0
			}
			cls, v := genValue(r, len(k), maxLen)
			if r.Chance(3) && cfg.dfmax > 1<<20 && cfg.bodyMax >= 1<<20 {
				cls, v = genValue(r, len(k), 120000)
			}
			flag := []uint32{0, 1, 0x10, 0x204, uint32(r.Next()) & 0xFFFEFFFF}[r.Intn(5)]
			rev := 0
			if r.Chance(30) && !(cfg.safe && inGroup[k]) {
				rev = []int{1, 2, 3, 5, 10, 1000, 1000000}[r.Intn(7)]
			}
			tsv := ts
			if r.Chance(4) {
				// clock skew: a record stamped in the future (the age test of GC must not wrap)
				tsv = uint32(time.Now().Unix()) + uint32(3600*(1+r.Intn(48)))
				c.count("op.set.future-ts")
			}
			s.doSet(c, k, v, flag, rev, tsv)
			c.count("op.set")
			c.count("value." + cls)
			if rev != 0 {
				c.count("op.set.explicit-rev")
			}
		case p < 54:
			s.doDelete(c, k)
			c.count("op.delete")
		case p < 60:
			if r.Chance(50) {
				// make it a counter first so that incr exercises the numeric path
				s.doSet(c, k, []byte(strconv.Itoa(r.Intn(1000)-100)), 0x204, 0, ts)
			}
			s.doIncr(c, k, r.Intn(20)-5)
			c.count("op.incr")
		case p < 75:
			s.doGet(c, k)
			c.count("op.get")
		case p < 80:
			for j := 0; j < 3; j++ {
				s.doGet(c, keys[r.Intn(len(keys))])
			}
			c.count("op.multiget")
		case p < 87:
			s.doMeta(c, k)
			c.count("op.meta")
		case p < 93:
			s.flushAll()
			c.line("flush")
			c.count("op.flush")
		case p < 89:
			s.doGet(c, k)
			c.count("op.get")
		case p < 91:
			pr := s.listProbes(r, keys)
			for j := 0; j < 4 && j < len(pr); j++ {
				s.doList(c, pr[r.Intn(len(pr))])
			}
			c.count("op.list")
		case p < 93 && c.mix != "full":
			s.doMeta(c, k)
			c.count("op.meta")
		case p < 93:
			s.doMeta(c, k)
			c.count("op.meta")
		case p < 97:
			bkt := cfg.served[r.Intn(len(cfg.served))]
			head := s.hs.VerifHead(bkt)
			begin := r.Intn(head+4) - 2
			end := r.Intn(head+4) - 2
			if r.Chance(30) {
				begin, end = -1, -1
			}
			if r.Chance(30) {
				begin = 0
			}
			days := []int{-1, 0, 0, 0, 1, 30, 5000}[r.Intn(7)]
			if r.Chance(25) {
				// a tree rebuilt from hints right before the pass: tombstones are unknown to the tree
				if !s.restart(c, r, 1) {
					c.line("end")
					return
				}
				c.count("op.restart")
			}
			if r.Chance(15) {
				atomic.StoreInt64(&s.gcCancel, int64(1+r.Intn(3)))
				c.count("op.gc.cancel")
			}
			s.doGC(c, bkt, begin, end, days, r.Chance(40), r.Chance(10))
			c.count("op.gc")
			if theHub.fatal == "" && r.Chance(45) {
				// a second pass in the same process, continuing where the first one stopped (or over the same range)
				b2, e2 := -1, -1
				if r.Chance(30) {
					b2, e2 = begin, end
				}
				s.doGC(c, bkt, b2, e2, 0, r.Chance(40), false)
				c.count("op.gc.second")
			}
		case c.mix == "client":
			s.flushAll()
			c.line("flush")
			c.count("op.flush")
		case c.mix == "full" && p < 99:
			s.doGet(c, k)
			c.count("op.get")
		default:
			if !s.restart(c, r, r.Intn(7)) {
				c.line("end")
				return
			}
			nrestart++
			c.count("op.restart")
		}
	}
	// read everything back
	if f := theHub.takeFatal(); f != "" {
		c.line("fatal => %s", strings.ReplaceAll(f, "\n", " "))
		c.line("end")
		return
	}
	if c.mix != "client" {
		// end every history with a restart that rebuilds all indexes from the data files: nothing older may resurface
		if !s.restart(c, r, 1) {
			c.line("end")
			return
		}
	}
	for _, k := range keys {
		s.doGet(c, k)
		s.doMeta(c, k)
	}
	for _, p := range s.listProbes(r, keys) {
		s.doList(c, p)
		c.count("op.list")
	}
	s.flushAll()
	if f := theHub.takeFatal(); f != "" {
		c.line("fatal => %s", strings.ReplaceAll(f, "\n", " "))
		c.line("end")
		return
	}
	c.line("flush")
	c.line("files =>%s", s.filesLine())
	if st := s.strayFiles(); len(st) > 0 {
		c.line("stray => %s", strings.Join(st, ","))
	} else {
		c.line("stray => -")
	}
	s.hs.Close()
	c.line("end")
}

// seqReplay re-executes the cases of a replay/corpus file on the implementation.
func seqReplay(c *Ctx, base string) {
	var s *seqStore
	n := 0
	r := NewRNG(c.seed)
	// -mix probe: the search for a failing input after a tie broke — every replayed case is extended by a
	// restart that rebuilds the tree from the data files and a get of every key the case touched
	var probeKeys []string
	seenKey := map[string]bool{}
	for _, l := range replayLines(c.replay) {
		switch l.op {
		case "set", "del", "incr", "get", "meta":
			k := string(unhx(l.args[0]))
			if !seenKey[k] {
				seenKey[k] = true
				probeKeys = append(probeKeys, k)
			}
		}
		switch l.op {
		case "case":
			probeKeys, seenKey = nil, map[string]bool{}
			n++
			home := filepath.Join(base, fmt.Sprintf("replay%d", n))
			os.RemoveAll(home)
			os.MkdirAll(home, 0o755)
			cfg := seqCfg{home: home}
			for _, a := range l.args[1:] {
				kv := strings.SplitN(a, "=", 2)
				if len(kv) != 2 {
					continue
				}
				v, _ := strconv.ParseInt(kv[1], 10, 64)
				switch kv[0] {
				case "nb":
					cfg.nb = int(v)
				case "served":
					for _, x := range strings.Split(kv[1], ",") {
						if x != "" {
							b, _ := strconv.Atoi(x)
							cfg.served = append(cfg.served, b)
						}
					}
				case "height":
					cfg.height = int(v)
				case "checkvhash":
					cfg.checkVHash = v == 1
				case "dfmax":
					cfg.dfmax = v
				case "splitcap":
					cfg.splitCap = v
				case "idxint":
					cfg.idxInt = v
				case "bodyinc":
					cfg.bodyInC = v
				case "bodymax":
					cfg.bodyMax = v
				case "listkey":
					cfg.listKey = uint32(v)
				}
			}
			if cfg.bodyMax == 0 {
				cfg.bodyMax = 1 << 20
			}
			if cfg.listKey == 0 {
				cfg.listKey = 256
			}
			s = &seqStore{cfg: cfg}
			curStore = s
			store.VerifSetKeyHash(nil)
			c.line("case %s %s", l.args[0], cfgLine(cfg))
			if err := s.open(); err != nil {
				c.line("open => REFUSED %v", err)
			}
		case "groups":
			var groups [][]string
			for _, g := range strings.Split(l.args[0], ";") {
				var grp []string
				for _, k := range strings.Split(g, ",") {
					if k != "" {
						grp = append(grp, string(unhx(k)))
					}
				}
				if len(grp) >= 2 {
					groups = append(groups, grp)
				}
			}
			installGroups(groups)
			if s != nil {
				s.cfg.collide = true
				s.cfg.safe = len(l.args) > 1 && l.args[1] == "safe"
			}
			c.line("%s", l.raw)
		case "set":
			flag, _ := strconv.ParseUint(l.args[2], 10, 32)
			rev, _ := strconv.Atoi(l.args[3])
			ts, _ := strconv.ParseUint(l.args[4], 10, 32)
			s.doSet(c, string(unhx(l.args[0])), unhx(l.args[1]), uint32(flag), rev, uint32(ts))
		case "del":
			s.doDelete(c, string(unhx(l.args[0])))
		case "incr":
			d, _ := strconv.Atoi(l.args[1])
			s.doIncr(c, string(unhx(l.args[0])), d)
		case "get":
			s.doGet(c, string(unhx(l.args[0])))
		case "meta":
			s.doMeta(c, string(unhx(l.args[0])))
		case "list":
			pp := l.args[0]
			if pp == "-" {
				pp = ""
			}
			s.doList(c, pp)
		case "unload":
			b, _ := strconv.Atoi(l.args[0])
			s.doUnload(c, b)
		case "flush":
			s.flushAll()
			if f := theHub.takeFatal(); f != "" {
				c.line("fatal => %s", strings.ReplaceAll(f, "\n", " "))
			} else {
				c.line("flush")
			}
		case "gc":
			get := func(name string) int {
				for _, a := range l.args {
					if strings.HasPrefix(a, name+"=") {
						v, _ := strconv.Atoi(a[len(name)+1:])
						return v
					}
				}
				return 0
			}
			atomic.StoreInt64(&s.gcCancel, int64(get("cancel")))
			s.doGC(c, get("bkt"), get("begin"), get("end"), get("nogcdays"), get("merge") == 1, get("pretend") == 1)
		case "restart":
			mode := 0
			for _, a := range l.args {
				if a == "keeptree=0" {
					mode = 1
				}
			}
			s.restart(c, r, mode)
		case "files":
			if !strings.Contains(l.raw, "=>") || true {
				// files lines are emitted by restart/end themselves
			}
		case "end":
			if c.mix == "probe" {
				s.flushAll()
				c.line("flush")
				s.restart(c, r, 1)
				for _, k := range probeKeys {
					s.doGet(c, k)
				}
			}
			s.flushAll()
			if f := theHub.takeFatal(); f != "" {
				c.line("fatal => %s", strings.ReplaceAll(f, "\n", " "))
			}
			c.line("flush")
			c.line("files =>%s", s.filesLine())
			s.hs.Close()
			c.line("end")
			os.RemoveAll(s.cfg.home)
			curStore = nil
		}
	}
}
