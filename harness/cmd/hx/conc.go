package main

import (
	"fmt"
	"math/rand"
	"os"
	"path/filepath"
	"runtime"
	"sort"
	"strconv"
	"strings"
	"sync"
	"sync/atomic"
	"time"

	"github.com/douban/gobeansdb/cmem"
	mc "github.com/douban/gobeansdb/memcache"
	"github.com/douban/gobeansdb/store"
)

// engine conc (C04, C05, single pass of C17): real goroutines on a real HStore.
//   -mix c04 : 2..8 clients set / delete / read a few shared keys while a flusher, a hint dumper and data-file
//              rotation run; yields are injected at the store's synchronisation boundaries (hook points)
//   -mix c05 : the same beside one GC pass; plus targeted orderings: the pass is parked between its newest-check
//              and its tree repoint (and after the copy) while a client writes the very key being relocated
//   -mix c17 : two GC requests for one bucket at (nearly) the same time, the second also while the first prepares
// Every operation is recorded with invocation and response ticks of one logical clock; writes with the version the
// store gave them (hook at the linearisation point), reads with value and version.  The Lean driver checks the
// per-key conditions of the property on the recorded history (Conc.checkA / checkB).

func init() { engines["conc"] = engineConc }

type concEv struct {
	key   string
	cl    int
	op    byte // 'w', 'd', 'r'
	val   int  // write: id of the value; read: id found (0 = miss)
	inv   int64
	resp  int64
	ver   int32 // write/delete: version assigned (0 = not accepted); read: version found
	state string // "", "rej", "err"
	errc  string // a failed get: "nofile" (the data file is gone), "decode" (what lies at the position is not a record), "other"
}

type concRun struct {
	fileEvs []string // c05: data files removed / truncated by the running pass, with the tick
	cancelAt, boundaries, cancelled int32 // c05: CancelGC at the cancelAt-th file boundary of the pass (1 = before the first file)
	clock   int64
	mu      sync.Mutex
	evs     []concEv
	byGID   sync.Map // gid -> *int32 (version slot of the write in progress)
	yieldP  int32    // percent
	// targeted parking of the GC pass
	parkKey   string
	parkPoint string
	parked    chan struct{}
	release   chan struct{}
	parkOnce  sync.Once
	// GC pass accounting
	passes    int32
	maxPasses int32
	started   int32
	// storm variant of mix c17: a started pass waits here until every request of the round has returned
	stormGate atomic.Value // chan struct{}
}

var curConc *concRun

func (cr *concRun) tick() int64 { return atomic.AddInt64(&cr.clock, 1) }

func (cr *concRun) add(e concEv) {
	cr.mu.Lock()
	cr.evs = append(cr.evs, e)
	cr.mu.Unlock()
}

func concHook(point string, args ...interface{}) {
	cr := curConc
	if cr == nil {
		return
	}
	switch point {
	case "bucket.cas.done":
		if slot, ok := cr.byGID.Load(curGID()); ok {
			atomic.StoreInt32(slot.(*int32), args[1].(int32))
		}
	case "gc.begin":
		n := atomic.AddInt32(&cr.passes, 1)
		atomic.AddInt32(&cr.started, 1)
		for {
			m := atomic.LoadInt32(&cr.maxPasses)
			if n <= m || atomic.CompareAndSwapInt32(&cr.maxPasses, m, n) {
				break
			}
		}
		if g, ok := cr.stormGate.Load().(chan struct{}); ok && g != nil {
			select {
			case <-g:
			case <-time.After(5 * time.Second):
			}
		}
	case "gc.end":
		atomic.AddInt32(&cr.passes, -1)
	case "fs.remove", "fs.truncate":
		// a data file removed (Clear) or cut (dropStaleTail, endGCWriting) while a pass runs: positions into it that a
		// reader took before are reused by whatever the pass writes there next
		if atomic.LoadInt32(&cr.passes) > 0 && len(args) > 0 {
			if path, ok := args[0].(string); ok && strings.HasSuffix(path, ".data") {
				t := cr.tick()
				cr.mu.Lock()
				cr.fileEvs = append(cr.fileEvs, fmt.Sprintf("gcfile tick=%d kind=%s file=%s", t, point[3:], filepath.Base(path)))
				cr.mu.Unlock()
			}
		}
	case "gc.prepared", "gc.file.done":
		// c05: the pass is cancelled at a chosen file boundary (CancelGC, as the admin command does)
		if ca := atomic.LoadInt32(&cr.cancelAt); ca > 0 {
			if atomic.AddInt32(&cr.boundaries, 1) == ca {
				if st := curStore; st != nil {
					st.hs.CancelGC(0)
					atomic.AddInt32(&cr.cancelled, 1)
				}
			}
		}
	}
	if point == cr.parkPoint && cr.parkKey != "" && len(args) > 0 {
		if k, ok := args[0].(string); ok && k == cr.parkKey {
			cr.parkOnce.Do(func() {
				close(cr.parked)
				select {
				case <-cr.release:
				case <-time.After(3 * time.Second):
				}
			})
		}
	}
	// yield injection at every synchronisation boundary
	switch point {
	case "bucket.set.appended", "bucket.cas.done", "chunk.flush.written", "data.flush.enter", "data.rotate",
		"gc.checked", "gc.copied", "gc.file.done", "gc.prepared", "hstore.gc.accepted":
		if p := atomic.LoadInt32(&cr.yieldP); p > 0 && rand.Int31n(100) < p {
			if rand.Int31n(4) == 0 {
				time.Sleep(time.Duration(rand.Int31n(200)) * time.Microsecond)
			} else {
				runtime.Gosched()
			}
		}
	}
}

func concValue(id int, r *rand.Rand) []byte {
	// unique, self-describing, of varying length (some span several blocks)
	pad := []int{0, 10, 200, 300, 700}[r.Intn(5)]
	return []byte(fmt.Sprintf("v%d-%s", id, strings.Repeat("x", pad)))
}

func concValID(b []byte) int {
	s := string(b)
	if !strings.HasPrefix(s, "v") {
		return -1
	}
	i := strings.IndexByte(s, '-')
	if i < 0 {
		return -1
	}
	n, err := strconv.Atoi(s[1:i])
	if err != nil {
		return -1
	}
	return n
}

func (cr *concRun) doRead(hs *store.HStore, cl int, key string) {
	e := concEv{key: key, cl: cl, op: 'r'}
	e.inv = cr.tick()
	ki := store.NewKeyInfoFromBytes([]byte(key), 0, false)
	payload, _, err := hs.Get(ki, false)
	switch {
	case err != nil:
		e.state = "err"
		msg := err.Error()
		switch {
		case strings.Contains(msg, "no such file"):
			e.errc = "nofile"
		case strings.Contains(msg, "bad key size"), strings.Contains(msg, "bad value size"), strings.Contains(msg, "crc"),
			strings.Contains(msg, "EOF"), strings.Contains(msg, "fail to read"), strings.Contains(msg, "fail to  read"):
			e.errc = "decode"
		case strings.Contains(msg, "bad htree item want"):
			e.errc = "foreign" // another key's record lies at the position (and the hints do not know the wanted key)
		default:
			e.errc = "other"
		}
		if len(msg) > 120 {
			msg = msg[:120]
		}
		e.errc += " errmsg=" + strings.Map(func(r rune) rune {
			if r == ' ' || r == '\n' || r == '=' {
				return '_'
			}
			return r
		}, msg)
	case payload == nil:
	default:
		e.ver = payload.Ver
		if payload.Ver > 0 {
			e.val = concValID(payload.Body)
		}
		cmem.DBRL.GetData.SubSizeAndCount(payload.CArray.Cap)
		payload.CArray.Free()
	}
	e.resp = cr.tick()
	cr.add(e)
}

func (cr *concRun) doWrite(s *seqStore, cl int, key string, id int, body []byte, slot *int32) {
	e := concEv{key: key, cl: cl, op: 'w', val: id}
	atomic.StoreInt32(slot, 0)
	e.inv = cr.tick()
	ok, err := concSet(s, key, body)
	e.resp = cr.tick()
	e.ver = atomic.LoadInt32(slot)
	if err != nil {
		e.state = "err"
	} else if !ok {
		e.state = "rej"
	}
	cr.add(e)
}

func (cr *concRun) doDelete(s *seqStore, cl int, key string, slot *int32) {
	e := concEv{key: key, cl: cl, op: 'd'}
	atomic.StoreInt32(slot, 0)
	e.inv = cr.tick()
	ok, err := s.cl.Delete(key)
	e.resp = cr.tick()
	e.ver = atomic.LoadInt32(slot)
	if err != nil {
		e.state = "err"
	} else if !ok {
		e.state = "rej"
	}
	cr.add(e)
}

// sameValueRevSet: read the key and store the SAME bytes again with an explicit revision three above the current one
// (with check_vhash on this takes the shortcut of checkAndSet: the tree item is updated, no record is appended)
func (cr *concRun) sameValueRevSet(s *seqStore, cl int, key string) {
	ki := store.NewKeyInfoFromBytes([]byte(key), 0, false)
	payload, _, err := s.hs.Get(ki, false)
	if err != nil || payload == nil || payload.Ver <= 0 {
		return
	}
	body := append([]byte{}, payload.Body...)
	id, rev := concValID(payload.Body), payload.Ver+3
	cmem.DBRL.GetData.SubSizeAndCount(payload.CArray.Cap)
	payload.CArray.Free()
	e := concEv{key: key, cl: cl, op: 'w', val: id}
	e.inv = cr.tick()
	item := &mc.Item{Exptime: int(rev), ReceiveTime: time.Unix(1500000000, 0)}
	if !item.Alloc(len(body)) {
		panic("alloc")
	}
	copy(item.Body, body)
	cmem.DBRL.SetData.AddSizeAndCount(item.CArray.Cap)
	ok, err := s.cl.Set(key, item, false)
	e.resp = cr.tick()
	e.ver = rev
	if err != nil {
		e.state = "err"
	} else if !ok {
		e.state = "rej"
	}
	cr.add(e)
}

func concSet(s *seqStore, key string, body []byte) (bool, error) {
	item := &mc.Item{ReceiveTime: time.Unix(1500000000, 0)} // old enough for the age test of GC
	if !item.Alloc(len(body)) {
		panic("alloc")
	}
	copy(item.Body, body)
	cmem.DBRL.SetData.AddSizeAndCount(item.CArray.Cap)
	return s.cl.Set(key, item, false)
}

func engineConc(c *Ctx) {
	store.VerifHook = func(point string, args ...interface{}) {
		seqHookConc(point, args...)
		concHook(point, args...)
	}
	base := c.work
	if base == "" {
		base, _ = os.MkdirTemp("", "hxconc")
		defer os.RemoveAll(base)
	}
	if c.replay != "" {
		// a recorded history is re-checked as recorded (real interleavings are not reproducible)
		for _, l := range replayLines(c.replay) {
			c.line("%s", l.raw)
		}
		return
	}
	root := NewRNG(c.seed)
	mix := c.mix
	if mix == "" {
		mix = "c04"
	}
	for ci := 0; ci < c.n; ci++ {
		r := root.Fork(uint64(ci))
		concCase(c, r, fmt.Sprintf("%d-%d", c.seed, ci), filepath.Join(base, "home"), mix)
	}
}

// seqHookConc keeps the rotation bookkeeping of seqStore without the single-client parking
func seqHookConc(point string, args ...interface{}) {
	s := curStore
	if s == nil {
		return
	}
	switch point {
	case "data.rotate":
		atomic.AddInt64(&s.rot, 1)
	case "data.flush.exit":
		if args[1].(int) >= 0 && curGID() != mainGID { // the goroutine spawned by a rotation (not close flushing what is left)
			atomic.AddInt64(&s.rot, -1)
		}
	case "bucket.open.bgcheck.done":
		atomic.AddInt64(&s.bgdone, 1)
	}
}

func concCase(c *Ctx, r *RNG, id, home, mix string) {
	os.RemoveAll(home)
	os.MkdirAll(home, 0o755)
	defer os.RemoveAll(home)
	cfg := seqCfg{home: home, nb: 1, served: []int{0}, height: 3}
	cfg.dfmax = []int64{256 * 8, 256 * 16, 256 * 64}[r.Intn(3)]
	cfg.splitCap = []int64{2, 4, 64}[r.Intn(3)]
	cfg.idxInt = 4096
	cfg.bodyInC = []int64{64, 4096}[r.Intn(2)]
	cfg.bodyMax = 1024
	cfg.listKey = 256
	// c05 variant "vhrace" (check_vhash on): a same-value set with an explicit revision takes the shortcut of checkAndSet
	// (tree item rewritten at the position read before, no record appended); it is held inside that shortcut while a
	// whole pass relocates the key's record and removes the source file
	vhRace := mix == "c05" && r.Fork(77).Chance(25)
	// variant "vhset": check_vhash on and the pass is held on a key (between newest-check and repoint) while the client's
	// write of that key is a same-value set with an explicit revision (tree item updated, nothing appended)
	vhSet := mix == "c05" && !vhRace && r.Fork(78).Chance(25)
	cfg.checkVHash = vhRace || vhSet
	s := &seqStore{cfg: cfg}
	curStore = s
	cr := &concRun{parked: make(chan struct{}), release: make(chan struct{})}
	cr.yieldP = int32([]int{0, 20, 50, 80}[r.Intn(4)])
	curConc = cr
	defer func() { curStore = nil; curConc = nil }()
	nclients := 2 + r.Intn(7)
	nkeys := 1 + r.Intn(4)
	c.line("case %s %s mix=%s clients=%d keys=%d yield=%d", id, cfgLine(cfg), mix, nclients, nkeys, cr.yieldP)
	c.count("case." + mix)
	if err := s.open(); err != nil {
		c.line("open => REFUSED %v", err)
		c.line("end")
		return
	}
	var keys []string
	for len(keys) < nkeys {
		k := genKey(r)
		dup := false
		for _, x := range keys {
			if x == k {
				dup = true
			}
		}
		if store.IsValidKeyString(k) && len(k) < 40 && !dup {
			keys = append(keys, k)
		}
	}
	var nextVal int64
	newVal := func() int { return int(atomic.AddInt64(&nextVal, 1)) }
	// c05: "cold" keys are written while the files are laid out and afterwards only read by the clients, so their
	// current records are still inside the collected range when the pass comes by (and can be written by the
	// controller exactly then); the clients hammer the "hot" keys
	hot := keys
	var cold []string
	if mix == "c05" {
		for len(cold) < 2+r.Intn(4) {
			k := genKey(r)
			dup := false
			for _, x := range append(append([]string{}, hot...), cold...) {
				if x == k {
					dup = true
				}
			}
			if store.IsValidKeyString(k) && len(k) < 40 && !dup {
				cold = append(cold, k)
			}
		}
		keys = append(append([]string{}, hot...), cold...)
	}

	if mix == "c17" {
		concDoubleGC(c, r, s, cr, keys, newVal)
		return
	}

	// for c05: lay out a few files first so that a pass has something to relocate
	if mix == "c05" {
		lr := rand.New(rand.NewSource(int64(r.Next())))
		slot := new(int32)
		cr.byGID.Store(curGID(), slot)
		rebuildTree := r.Fork(5).Chance(50)
		if rebuildTree {
			c.count("c05.rebuilt-tree")
		}
		for ph := 0; ph < 2+r.Intn(3); ph++ {
			for i := 0; i < 2+r.Intn(6); i++ {
				k := keys[r.Intn(len(keys))]
				if ph == 0 && i < len(cold) {
					k = cold[i]
				}
				if ph == 1 && i < len(cold) && i%2 == 1 {
					// every second cold key is deleted in the second file: its delete marker is what a pass over that file relocates
					cr.doDelete(s, 0, cold[i], slot)
					continue
				}
				if r.Chance(75) || (ph == 0 && i < len(cold)) {
					v := newVal()
					cr.doWrite(s, 0, k, v, concValue(v, lr), slot)
				} else {
					cr.doDelete(s, 0, k, slot)
				}
			}
			s.flushAll()
			guard(func() { s.hs.Close() })
			s.quiesce()
			if rebuildTree {
				// the tree dump is lost: the next start rebuilds the tree from the hints, delete markers are then unknown to it
				hs, _ := filepath.Glob(filepath.Join(home, "*.idx.hash"))
				for _, p := range hs {
					os.Remove(p)
				}
			}
			if err := s.open(); err != nil {
				c.line("open => REFUSED %v", err)
				c.line("end")
				return
			}
		}
		s.flushAll()
		// the history that is checked starts here: what the layout left is the initial state, represented by one
		// synthetic accepted write (or delete) per key carrying the value and version the key holds now
		// (versions start again after a restart that rebuilt the tree; they are compared within one process life)
		cr.mu.Lock()
		cr.evs = nil
		cr.mu.Unlock()
		for _, k := range keys {
			cr.doRead(s.hs, 0, k)
		}
		cr.mu.Lock()
		base := cr.evs
		cr.evs = nil
		for _, e := range base {
			switch {
			case e.ver > 0:
				cr.evs = append(cr.evs, concEv{key: e.key, cl: 0, op: 'w', val: e.val, inv: e.inv, resp: e.resp, ver: e.ver})
			case e.ver < 0:
				cr.evs = append(cr.evs, concEv{key: e.key, cl: 0, op: 'd', inv: e.inv, resp: e.resp, ver: e.ver})
			}
		}
		cr.mu.Unlock()
	}

	stop := int32(0)
	var bg sync.WaitGroup
	// the background flusher and hint dumper of a running server
	bg.Add(2)
	go func() {
		defer bg.Done()
		for atomic.LoadInt32(&stop) == 0 {
			guard2(func() { s.hs.VerifFlush() })
			time.Sleep(time.Duration(50+rand.Intn(400)) * time.Microsecond)
		}
	}()
	go func() {
		defer bg.Done()
		for atomic.LoadInt32(&stop) == 0 {
			guard2(func() { s.hs.VerifDumpHints(0) })
			time.Sleep(time.Duration(200+rand.Intn(800)) * time.Microsecond)
		}
	}()

	var gcDone chan struct{}
	var vhDone chan struct{}
	if mix == "c05" {
		head := s.hs.VerifHead(0)
		begin, end := 0, 0
		if head > 1 {
			begin = r.Intn(head)
			end = begin + r.Intn(head-begin)
		}
		if r.Chance(60) {
			// targeted ordering: park the pass at a chosen step on a chosen key; a client writes that key meanwhile
			cr.parkKey = cold[r.Intn(len(cold))]
			cr.parkPoint = []string{"gc.checked", "gc.copied"}[r.Intn(2)]
			// the cold keys were written into the first file, half of them deleted in the second
			begin = r.Fork(6).Intn(2)
			if begin >= head {
				begin = 0
			}
			end = begin
			if head-1 > begin {
				end = begin + r.Intn(head-1-begin)
			}
			c.count("c05.targeted." + cr.parkPoint)
		}
		vhDone = make(chan struct{})
		if vhRace && len(cold) > 0 {
			c.count("c05.vhrace")
			cr.parkKey, cr.parkPoint = cold[0], "bucket.cas.samevhash"
			begin, end = 0, head-1
			nclients = 0
			go func() {
				defer close(vhDone)
				cr.sameValueRevSet(s, 98, cold[0])
			}()
			select {
			case <-cr.parked:
				c.count("c05.vhrace.client-held-in-shortcut")
			case <-vhDone:
			case <-time.After(3 * time.Second):
			}
		} else {
			close(vhDone)
		}
		gcDone = make(chan struct{})
		merge := r.Chance(30)
		if vhRace {
			merge = false
		}
		if !vhRace && r.Fork(79).Chance(25) {
			// "(or is cancelled)": CancelGC at a file boundary: before the first file, or after the first / second one
			atomic.StoreInt32(&cr.cancelAt, int32(1+r.Fork(80).Intn(3)))
			c.count(fmt.Sprintf("c05.cancel-at-boundary-%d", cr.cancelAt-1))
		}
		c.line("gcstart begin=%d end=%d merge=%v park=%s at=%s", begin, end, merge, hx([]byte(cr.parkKey)), cr.parkPoint)
		go func() {
			defer close(gcDone)
			guard2(func() {
				b, e, err := s.hs.VerifGCCheckRange(0, begin, end, 0)
				if err == nil {
					s.hs.VerifGCRun(0, b, e, merge)
					c.count("c05.pass.ran")
				} else {
					c.count("c05.pass.refused")
				}
			})
		}()
		if vhRace {
			// the pass runs to its end while the client is held; then the client goes on
			go func() {
				<-gcDone
				close(cr.release)
				<-vhDone
			}()
		} else if cr.parkKey != "" {
			// the controller: once the pass is parked on the key, write it, then let the pass go on
			go func() {
				select {
				case <-cr.parked:
					lr := rand.New(rand.NewSource(1))
					slot := new(int32)
					cr.byGID.Store(curGID(), slot)
					if vhSet {
						cr.sameValueRevSet(s, 99, cr.parkKey)
						c.count("c05.vhset")
					} else {
						v := newVal()
						cr.doWrite(s, 99, cr.parkKey, v, concValue(v, lr), slot)
					}
					close(cr.release)
				case <-gcDone:
				}
			}()
		}
	}

	var wg sync.WaitGroup
	nops := 15 + r.Intn(40)
	for cl := 0; cl < nclients; cl++ {
		wg.Add(1)
		seed := int64(r.Next())
		go func(cl int) {
			defer wg.Done()
			lr := rand.New(rand.NewSource(seed))
			slot := new(int32)
			cr.byGID.Store(curGID(), slot)
			for i := 0; i < nops; i++ {
				k := hot[lr.Intn(len(hot))]
				p := lr.Intn(100)
				if p >= 55 {
					k = keys[lr.Intn(len(keys))] // reads also go to the cold keys
				}
				switch {
				case p < 40:
					v := newVal()
					cr.doWrite(s, cl+1, k, v, concValue(v, lr), slot)
				case p < 55:
					cr.doDelete(s, cl+1, k, slot)
				default:
					cr.doRead(s.hs, cl+1, k)
				}
				if lr.Intn(5) == 0 {
					runtime.Gosched()
				}
			}
		}(cl)
	}
	wg.Wait()
	if gcDone != nil {
		select {
		case <-gcDone:
		case <-time.After(20 * time.Second):
			c.line("fatal => gc pass did not finish")
		}
	}
	if vhDone != nil {
		select {
		case <-vhDone:
		case <-time.After(10 * time.Second):
			c.line("fatal => the held client did not return")
		}
	}
	atomic.StoreInt32(&stop, 1)
	bg.Wait()
	s.quiesce()
	// everything has stopped: the final reads
	for _, k := range keys {
		cr.doRead(s.hs, 0, k)
	}
	if f := theHub.takeFatal(); f != "" {
		c.line("fatal => %s", strings.ReplaceAll(f, "\n", " "))
	}
	concEmit(c, cr)
	if mix == "c05" {
		// … and again after a restart
		guard(func() { s.hs.Close() })
		s.quiesce()
		if err := s.open(); err != nil {
			c.line("reopen => REFUSED")
		} else {
			cr.mu.Lock()
			cr.evs = nil
			cr.mu.Unlock()
			for _, k := range keys {
				cr.doRead(s.hs, 0, k)
			}
			cr.mu.Lock()
			for _, e := range cr.evs {
				c.line("after-restart key=%s val=%d ver=%d state=%s", hx([]byte(e.key)), e.val, e.ver, e.state)
			}
			cr.mu.Unlock()
		}
	}
	guard(func() { s.hs.Close() })
	s.quiesce()
	theHub.takeFatal()
	c.line("end")
}

func guard2(f func()) {
	defer func() { recover() }()
	f()
}

func concEmit(c *Ctx, cr *concRun) {
	cr.mu.Lock()
	evs := append([]concEv{}, cr.evs...)
	cr.mu.Unlock()
	sort.Slice(evs, func(i, j int) bool { return evs[i].inv < evs[j].inv })
	cr.mu.Lock()
	fevs := append([]string{}, cr.fileEvs...)
	cr.mu.Unlock()
	for _, l := range fevs {
		c.line("%s", l)
	}
	for _, e := range evs {
		st := e.state
		if st == "" {
			st = "ok"
		}
		if e.errc != "" {
			st += " errclass=" + e.errc
		}
		c.line("ev key=%s cl=%d op=%c val=%d inv=%d resp=%d ver=%d state=%s", hx([]byte(e.key)), e.cl, e.op, e.val, e.inv, e.resp, e.ver, st)
		c.count("ev." + string(e.op))
	}
}

// two GC requests on one bucket: together, and the second while the first is preparing / running
func maxI32(a, b int32) int32 {
	if a > b {
		return a
	}
	return b
}

func concDoubleGC(c *Ctx, r *RNG, s *seqStore, cr *concRun, keys []string, newVal func() int) {
	lr := rand.New(rand.NewSource(int64(r.Next())))
	slot := new(int32)
	cr.byGID.Store(curGID(), slot)
	for ph := 0; ph < 3; ph++ {
		for i := 0; i < 4; i++ {
			v := newVal()
			cr.doWrite(s, 0, keys[r.Intn(len(keys))], v, concValue(v, lr), slot)
		}
		s.flushAll()
		guard(func() { s.hs.Close() })
		s.quiesce()
		if err := s.open(); err != nil {
			c.line("open => REFUSED %v", err)
			c.line("end")
			return
		}
	}
	s.flushAll()
	if r.Chance(40) {
		// storm: many requests for the bucket released together, round after round; a pass that starts is held at its
		// first step until every request of the round has returned, so whatever was accepted besides it shows up as a
		// second accepted request / a second simultaneous pass (the window between "is a pass registered" and
		// "register it" is a few hundred nanoseconds wide when the two are separate critical sections)
		rounds := 30 + r.Intn(40)
		nreq := 8 + r.Intn(25)
		c.count("c17.storm")
		worst := int32(0)
		done := 0
		for rd := 0; rd < rounds && worst <= 1; rd++ {
			gate := make(chan struct{})
			cr.stormGate.Store(gate)
			accepted := int32(0)
			ready := int32(0)
			var wg sync.WaitGroup
			for i := 0; i < nreq; i++ {
				wg.Add(1)
				go func() {
					defer wg.Done()
					atomic.AddInt32(&ready, 1)
					for atomic.LoadInt32(&ready) < int32(nreq) {
						runtime.Gosched()
					}
					guard2(func() {
						_, _, err := s.hs.GC(0, 0, -1, 0, false, false)
						if err == nil {
							atomic.AddInt32(&accepted, 1)
						}
					})
				}()
			}
			wg.Wait()
			if a := atomic.LoadInt32(&accepted); a > worst {
				worst = a
			}
			close(gate)
			if atomic.LoadInt32(&accepted) == 0 {
				// every request was refused (nothing left to collect): further rounds would show nothing
				c.count("c17.storm.refused-round")
				break
			}
			for i := 0; i < 20000; i++ {
				if atomic.LoadInt32(&cr.passes) == 0 && atomic.LoadInt32(&cr.started) >= 1 {
					break
				}
				time.Sleep(200 * time.Microsecond)
			}
			atomic.StoreInt32(&cr.started, 0)
			// something to collect for the next round: a few writes, then a restart (the file written to becomes a
			// file below the head)
			for i := 0; i < 3; i++ {
				v := newVal()
				cr.doWrite(s, 0, keys[r.Intn(len(keys))], v, concValue(v, lr), slot)
			}
			s.flushAll()
			guard(func() { s.hs.Close() })
			s.quiesce()
			if err := s.open(); err != nil {
				c.line("open => REFUSED %v", err)
				break
			}
			done++
		}
		c.count(fmt.Sprintf("c17.storm.rounds-with-a-pass-%d", done/10*10))
		var nilGate chan struct{}
		cr.stormGate.Store(nilGate)
		c.line("gcreq n=%d storm=%d accepted=%d started=- maxconcurrent=%d", nreq, rounds, worst, maxI32(worst, atomic.LoadInt32(&cr.maxPasses)))
		for _, k := range keys {
			cr.doRead(s.hs, 0, k)
		}
		concEmit(c, cr)
		guard(func() { s.hs.Close() })
		s.quiesce()
		theHub.takeFatal()
		c.line("end")
		return
	}
	merge := r.Chance(50)
	delay := []int{0, 0, 50, 500, 3000}[r.Intn(5)] // microseconds between the two requests
	accepted := int32(0)
	var wg sync.WaitGroup
	for i := 0; i < 2; i++ {
		wg.Add(1)
		go func(i int) {
			defer wg.Done()
			if i == 1 && delay > 0 {
				time.Sleep(time.Duration(delay) * time.Microsecond)
			}
			guard2(func() {
				_, _, err := s.hs.GC(0, 0, -1, 0, merge && i == 0, false)
				if err == nil {
					atomic.AddInt32(&accepted, 1)
				}
			})
		}(i)
	}
	wg.Wait()
	// wait for the pass(es) to end
	for i := 0; i < 20000; i++ {
		if atomic.LoadInt32(&cr.passes) == 0 && atomic.LoadInt32(&cr.started) >= atomic.LoadInt32(&accepted) {
			break
		}
		time.Sleep(500 * time.Microsecond)
	}
	c.line("gcreq n=2 merge=%v delay=%d accepted=%d started=%d maxconcurrent=%d", merge, delay, atomic.LoadInt32(&accepted),
		atomic.LoadInt32(&cr.started), atomic.LoadInt32(&cr.maxPasses))
	for _, k := range keys {
		cr.doRead(s.hs, 0, k)
	}
	concEmit(c, cr)
	guard(func() { s.hs.Close() })
	s.quiesce()
	theHub.takeFatal()
	c.line("end")
}
