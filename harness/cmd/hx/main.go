package main

// hx — the correspondence harness.  It links the real code of /repo (built with
// -tags verif) and, per engine, writes a trace: the inputs it generated from
// VERIF_SEED and what the implementation did with them.  The Lean driver replays
// the same trace on the model and on the property oracle; ./check diffs.
//
//   hx <engine> -seed N -n CASES [-tier quick|thorough] -out trace.txt [-replay file]

import (
	"bufio"
	"encoding/hex"
	"flag"
	"fmt"
	"os"
	"strings"
)

type Ctx struct {
	seed   uint64
	n      int
	tier   string
	out    *bufio.Writer
	replay string
	work   string
	mix    string
	stats  map[string]int
}

func (c *Ctx) line(format string, a ...interface{}) {
	fmt.Fprintf(c.out, format, a...)
	c.out.WriteByte('\n')
	if syncOut {
		c.out.Flush()
	}
}

// HX_SYNC=1: flush after every line (so that the trace survives a crash of the process)
var syncOut = os.Getenv("HX_SYNC") != ""

func (c *Ctx) count(k string) { c.stats[k]++ }

func hx(b []byte) string {
	if len(b) == 0 {
		return "-"
	}
	return hex.EncodeToString(b)
}

func unhx(s string) []byte {
	if s == "-" {
		return []byte{}
	}
	b, err := hex.DecodeString(s)
	if err != nil {
		panic(err)
	}
	return b
}

var engines = map[string]func(*Ctx){}

type rline struct {
	op   string
	args []string
	obs  string
	raw  string
}

// replayLines reads the non-comment lines of a replay/corpus file: "op args... [=> observed]".
func replayLines(path string) []rline {
	data, err := os.ReadFile(path)
	if err != nil {
		fmt.Fprintln(os.Stderr, err)
		os.Exit(2)
	}
	var out []rline
	for _, l := range strings.Split(string(data), "\n") {
		if l == "" || strings.HasPrefix(l, "#") {
			continue
		}
		lhs, obs := l, ""
		if i := strings.Index(l, " => "); i >= 0 {
			lhs, obs = l[:i], l[i+4:]
		}
		ws := strings.Fields(lhs)
		if len(ws) == 0 {
			continue
		}
		out = append(out, rline{ws[0], ws[1:], obs, l})
	}
	return out
}

func main() {
	if len(os.Args) < 2 {
		fmt.Fprintln(os.Stderr, "usage: hx <engine> [flags]")
		os.Exit(2)
	}
	eng := os.Args[1]
	fs := flag.NewFlagSet(eng, flag.ExitOnError)
	seed := fs.Uint64("seed", 1, "")
	n := fs.Int("n", 100, "")
	tier := fs.String("tier", "quick", "")
	out := fs.String("out", "", "")
	replay := fs.String("replay", "", "")
	work := fs.String("work", "", "scratch directory")
	mix := fs.String("mix", "full", "seq engine: client (set/delete/incr/get/meta/flush), restart (+ restarts), full (+ GC)")
	fs.Parse(os.Args[2:])
	f, ok := engines[eng]
	if !ok {
		fmt.Fprintln(os.Stderr, "unknown engine", eng)
		os.Exit(2)
	}
	w := os.Stdout
	if *out != "" {
		var err error
		w, err = os.Create(*out)
		if err != nil {
			fmt.Fprintln(os.Stderr, err)
			os.Exit(2)
		}
		defer w.Close()
	}
	ctx := &Ctx{seed: *seed, n: *n, tier: *tier, out: bufio.NewWriterSize(w, 1<<20), replay: *replay, work: *work, mix: *mix, stats: map[string]int{}}
	f(ctx)
	// input distribution: printed into the trace so that it ends up in the evidence
	for k, v := range ctx.stats {
		ctx.line("#stat %s %d", k, v)
	}
	ctx.out.Flush()
}
