package main

import (
	"bytes"
	"os"
	"fmt"
	"io"
	"runtime"
	"strconv"
	"sync"

	"github.com/douban/gobeansdb/loghub"
)

// quietHub replaces the store's error logger: nothing is printed, FATAL becomes a panic
// carrying the message (the real hub calls os.Exit(1)), so "refuses to start" is observable
// in-process through recover().
type quietHub struct {
	mu   sync.Mutex
	last  string
	errs  int
	fatal string
}

type fatalError struct{ msg string }

func (f fatalError) Error() string { return "FATAL: " + f.msg }

var debugLog = os.Getenv("HX_DEBUG") != ""

func (h *quietHub) Log(name string, level int, file string, line int, msg string) {
	if debugLog {
		fmt.Fprintf(os.Stderr, "LOG %d %s:%d %s\n", level, file, line, msg)
	}
	if level >= loghub.ERROR {
		h.mu.Lock()
		h.last = fmt.Sprintf("%s:%d %s", file, line, msg)
		h.errs++
		h.mu.Unlock()
	}
	if level == loghub.FATAL {
		m := fmt.Sprintf("%s:%d %s", file, line, msg)
		if curGID() == mainGID {
			panic(fatalError{m}) // recovered by guard(): the command's observed result is FATAL
		}
		// a goroutine of the store (post-rotation flush, background hint check, GC) hit a fatal
		// error: the real process would exit here.  Record it and end that goroutine (deferred
		// calls run), the harness reports it after the current command.
		h.mu.Lock()
		if h.fatal == "" {
			h.fatal = m
		}
		h.mu.Unlock()
		runtime.Goexit()
	}
}

func (h *quietHub) takeFatal() string {
	h.mu.Lock()
	defer h.mu.Unlock()
	f := h.fatal
	h.fatal = ""
	return f
}

func curGID() int64 {
	var buf [64]byte
	n := runtime.Stack(buf[:], false)
	f := bytes.Fields(buf[:n])
	if len(f) < 2 {
		return -1
	}
	id, _ := strconv.ParseInt(string(f[1]), 10, 64)
	return id
}

var mainGID = curGID()
func (h *quietHub) Reopen(path string) error           { return nil }
func (h *quietHub) GetLastLog() []byte                 { return nil }
func (h *quietHub) DumpBuffer(all bool, out io.Writer) {}

var theHub = &quietHub{}

func init() {
	loghub.ErrorLogger.Hub = theHub
	loghub.ErrorLogger.SetLevel(loghub.ERROR)
	if debugLog {
		loghub.ErrorLogger.SetLevel(loghub.DEBUG)
	}
}
