package main

import (
	"fmt"
	"io"
	"sync"

	"github.com/douban/gobeansdb/loghub"
)

// quietHub replaces the store's error logger: nothing is printed, FATAL becomes a panic
// carrying the message (the real hub calls os.Exit(1)), so "refuses to start" is observable
// in-process through recover().
type quietHub struct {
	mu   sync.Mutex
	last string
	errs int
}

type fatalError struct{ msg string }

func (f fatalError) Error() string { return "FATAL: " + f.msg }

func (h *quietHub) Log(name string, level int, file string, line int, msg string) {
	if level >= loghub.ERROR {
		h.mu.Lock()
		h.last = fmt.Sprintf("%s:%d %s", file, line, msg)
		h.errs++
		h.mu.Unlock()
	}
	if level == loghub.FATAL {
		panic(fatalError{fmt.Sprintf("%s:%d %s", file, line, msg)})
	}
}
func (h *quietHub) Reopen(path string) error           { return nil }
func (h *quietHub) GetLastLog() []byte                 { return nil }
func (h *quietHub) DumpBuffer(all bool, out io.Writer) {}

var theHub = &quietHub{}

func init() {
	loghub.ErrorLogger.Hub = theHub
	loghub.ErrorLogger.SetLevel(loghub.ERROR)
}
