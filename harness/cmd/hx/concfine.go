package main

import (
	"fmt"
	"os"
	"path/filepath"
	"runtime"
	"sort"
	"strconv"
	"strings"
	"sync"
	"sync/atomic"
	"time"

	"github.com/douban/gobeansdb/cmem"
	"github.com/douban/gobeansdb/store"
)

// engine concfine (C04): CONTROLLED-SCHEDULE correspondence for Model/ConcFine.lean.
//
// Writers (set / delete), readers (get) and flushers (dataStore.flush) are real goroutines calling the real
// HStore / StorageClient API of ONE bucket.  Every hook point that is a micro-step boundary of the model PARKS the
// goroutine that reaches it (it blocks on its own channel); the scheduler — this file, all choices from VERIF_SEED —
// releases exactly one parked goroutine per decision and waits until it is parked again (or has returned), so
// between two decisions exactly one goroutine runs exactly one micro-step.  After every decision one trace line
//
//   sched <tid> <act> => en=<0|1> lab=<label> loc=<locals> clk=<n> head= wbs= ch= pend= it= lk= thr= fatal= rerr= resp=
//
// records what the real store looks like; Driver/ConcFineE.lean replays the same decisions through ConcFine.step and
// compares every field.
//
// hook point (store/*.go)                       label the goroutine is parked at (ConcFine.pcLabel)
//   cf.w.lock      before bkt.writeLock.Lock()      w.lock      (passes &bkt.writeLock)
//   cf.w.get       after  bkt.writeLock.Lock()      w.get
//   cf.w.slot      before ds.Lock() (AppendRecord)  w.slot      (passes &ds.Mutex, RecSize, Ver)
//   cf.w.append    before dataChunk.AppendRecord    w.append    (passes pos)
//   cf.w.dsunlock  after  dataChunk.AppendRecord    w.dsunlock
//   bucket.set.appended  before htree.set           w.treeset   (passes pos)
//   cf.w.unlock    in the deferred function, before bkt.writeLock.Unlock()   w.unlock
//   cf.get.enter   first line of Bucket.get (memOnly=false only)             r.get
//   cf.r.ret       the `!found` return of Bucket.get (memOnly=false only)    r.ret
//   cf.r.buf       before datas.GetRecordByPos      r.buf       (passes pos)
//   cf.r.file      before readRecordAtPath          r.file      (passes chunk, offset)
//   data.flush.enter  first line of dataStore.flush f.pre
//   cf.f.lock      before ds.flushLock.Lock()       f.lock      (passes &ds.flushLock)
//   cf.f.ds1       before the first ds.Lock()       f.ds1       (passes &ds.Mutex)
//   cf.f.open      before GetStreamWriter           f.open      (passes chunk)
//   cf.f.check     before getDiskFileSize()         f.check     (passes chunk, the stream writer)
//   cf.f.count     first line of dataChunk.flush    f.count
//   cf.f.fetch     top of the loop body / before w.wbuf.Flush() (i = n)      f.fetch (passes chunk, i, n)
//   cf.f.write     before w.append(wrec)            f.write     (passes chunk, i, n, offset, RecSize, Ver of wrec)
//   chunk.flush.written  after w.wbuf.Flush()       f.detach
//   cf.f.ds2       before the second ds.Lock()      f.ds2       (passes &ds.Mutex)
//   cf.f.unlock    before `return nil` of the two early exits under flushLock / before w.Close()   f.unlock
// not parking: bucket.cas.done (version of the accepted write), data.rotate (a flush goroutine is about to be spawned:
// it is adopted as a new thread when it reaches data.flush.enter), data.flush.exit (end of a spawned flusher).

func init() { engines["concfine"] = engineConcFine }

const (
	cfPark = iota
	cfDone
	cfRotate
	cfReady
)

type cfMsg struct {
	kind  int
	t     *cfThread
	chunk int
	out   string
	fatal string
}

type cfOp struct {
	kind  byte // 'w' set, 'd' delete, 'r' get, 'f' flush
	key   int
	val   int
	blen  int // length of the random tail of the body
	sz    int // RecSize/256 - 1
	chunk int
	force bool
	late  bool
	body  []byte
}

type cfThread struct {
	tid     int
	kind    byte // 'w', 'r', 'f'
	spawned bool
	isNew   bool
	gid     int64
	resume  chan struct{}
	cmd     chan *cfOp
	ops     int
	// written by the goroutine itself before it sends a message, read by the scheduler after receiving it
	label  string
	loc    string
	mu     *sync.Mutex
	ver    int32
	fw     interface{}
	fchunk int
	// scheduler side
	cur *cfOp
	inv int
}

type cfRun struct {
	c        *Ctx
	hs       *store.HStore
	s        *seqStore
	keys     []string
	msgs     chan cfMsg
	gids     sync.Map
	threads  []*cfThread
	free     int32
	clk      int
	locks    [3]*sync.Mutex // writeLock, ds.Mutex, flushLock
	own      [3]int         // the scheduler's own bookkeeping of the owners, from the points passed
	rerr     bool
	fatal    bool
	evs      []concEv
	nextTid  int32
	nSpawn   int
	disagree int
}

var curCF *cfRun

func cfBlk(x uint32) string {
	if x%256 == 0 {
		return strconv.Itoa(int(x / 256))
	}
	return fmt.Sprintf("%db", x)
}

func cfPos(p store.Position) string { return fmt.Sprintf("%d:%s", p.ChunkID, cfBlk(p.Offset)) }

// the lock a goroutine parked at this label takes first in its next micro-step (index into cfRun.locks; -1: none)
func cfNeed(label string) int {
	switch label {
	case "w.lock":
		return 0
	case "w.slot", "f.ds1", "f.ds2":
		return 1
	case "f.lock":
		return 2
	}
	return -1
}

func (run *cfRun) lookup() *cfThread {
	if v, ok := run.gids.Load(curGID()); ok {
		return v.(*cfThread)
	}
	return nil
}

func (run *cfRun) park(t *cfThread, label, loc string, mu *sync.Mutex) {
	t.label, t.loc, t.mu = label, loc, mu
	run.msgs <- cfMsg{kind: cfPark, t: t}
	<-t.resume
}

func (t *cfThread) woff() string {
	if t.fw == nil {
		return "?"
	}
	off, _ := store.VerifWriterState(t.fw)
	return cfBlk(off)
}

func cfHook(point string, args ...interface{}) {
	if point == "bucket.open.bgcheck.done" {
		if s := curStore; s != nil {
			atomic.AddInt64(&s.bgdone, 1)
		}
		return
	}
	run := curCF
	if run == nil || atomic.LoadInt32(&run.free) != 0 {
		return
	}
	t := run.lookup()
	if t == nil {
		if point == "data.flush.enter" && atomic.LoadInt32(&run.free) == 0 {
			// the goroutine a rotation spawned (`go ds.flush(newHead-1, true)`): adopted as a new flusher thread
			t = &cfThread{tid: int(atomic.AddInt32(&run.nextTid, 1)), kind: 'f', spawned: true, isNew: true, resume: make(chan struct{})}
			t.fchunk = args[1].(int)
			t.gid = curGID()
			run.gids.Store(t.gid, t)
			run.park(t, "f.pre", "", nil)
		}
		return
	}
	mu := func(i int) *sync.Mutex { return args[i].(*sync.Mutex) }
	switch point {
	case "bucket.cas.done":
		t.ver = args[1].(int32)
	case "data.rotate":
		run.msgs <- cfMsg{kind: cfRotate, chunk: args[1].(int)}
	case "data.flush.exit":
		if t.spawned {
			t.label, t.loc, t.mu, t.fw = "idle", "", nil, nil
			run.gids.Delete(curGID())
			run.msgs <- cfMsg{kind: cfDone, t: t, out: "fl"}
		}
	case "cf.w.lock":
		run.park(t, "w.lock", "", mu(0))
	case "cf.w.get":
		run.park(t, "w.get", "", nil)
	case "cf.w.slot":
		run.park(t, "w.slot", fmt.Sprintf("%d:%s", args[2].(int32), cfBlk(args[1].(uint32))), mu(0))
	case "cf.w.append":
		run.park(t, "w.append", cfPos(args[0].(store.Position)), nil)
	case "cf.w.dsunlock":
		run.park(t, "w.dsunlock", "", nil)
	case "bucket.set.appended":
		run.park(t, "w.treeset", cfPos(args[1].(store.Position)), nil)
	case "cf.w.unlock":
		run.park(t, "w.unlock", "", nil)
	case "cf.get.enter":
		if !args[0].(bool) {
			run.park(t, "r.get", "", nil)
		}
	case "cf.r.ret":
		if !args[0].(bool) {
			run.park(t, "r.ret", "", nil)
		}
	case "cf.r.buf":
		run.park(t, "r.buf", cfPos(args[0].(store.Position)), nil)
	case "cf.r.file":
		run.park(t, "r.file", fmt.Sprintf("%d:%s", args[0].(int), cfBlk(args[1].(uint32))), nil)
	case "data.flush.enter":
		run.park(t, "f.pre", "", nil)
	case "cf.f.lock":
		run.park(t, "f.lock", "", mu(0))
	case "cf.f.ds1":
		run.park(t, "f.ds1", "", mu(0))
	case "cf.f.unlock":
		run.park(t, "f.unlock", "", nil)
	case "cf.f.open":
		run.park(t, "f.open", strconv.Itoa(args[0].(int)), nil)
	case "cf.f.check":
		t.fw, t.fchunk = args[1], args[0].(int)
		run.park(t, "f.check", fmt.Sprintf("%d:%s", t.fchunk, t.woff()), nil)
	case "cf.f.count":
		if !args[1].(bool) {
			run.park(t, "f.count", fmt.Sprintf("%d:%s", args[0].(int), t.woff()), nil)
		}
	case "cf.f.fetch":
		run.park(t, "f.fetch", fmt.Sprintf("%d:%s:%d:%d", args[0].(int), t.woff(), args[2].(int), args[1].(int)), nil)
	case "cf.f.write":
		run.park(t, "f.write", fmt.Sprintf("%d:%s:%d:%d:%s:%s:%d", args[0].(int), t.woff(), args[2].(int), args[1].(int),
			cfBlk(args[3].(uint32)), cfBlk(args[4].(uint32)), args[5].(int32)), nil)
	case "chunk.flush.written":
		run.park(t, "f.detach", strconv.Itoa(args[0].(int)), nil)
	case "cf.f.ds2":
		run.park(t, "f.ds2", "", mu(0))
	}
}

// ---- the goroutines ----

func (run *cfRun) threadMain(t *cfThread) {
	t.gid = curGID()
	run.gids.Store(t.gid, t)
	run.msgs <- cfMsg{kind: cfReady, t: t}
	for op := range t.cmd {
		run.doOp(t, op)
	}
}

func (run *cfRun) doOp(t *cfThread, op *cfOp) {
	finished := false
	out := ""
	defer func() {
		// a Go panic, or runtime.Goexit after logger.Fatalf (log.go): the real process would be gone
		if !finished {
			msg := "goexit"
			if r := recover(); r != nil {
				msg = fmt.Sprint(r)
			}
			t.label, t.mu = "dead", nil
			run.msgs <- cfMsg{kind: cfDone, t: t, fatal: msg}
		}
	}()
	switch op.kind {
	case 'w':
		t.ver = 0
		ok, err := concSet(run.s, run.keys[op.key], op.body)
		switch {
		case err != nil:
			out = "err:" + strings.ReplaceAll(err.Error(), " ", "_")
		case !ok:
			out = "rej"
		default:
			out = fmt.Sprintf("acc:%d", cfAbs(t.ver))
		}
	case 'd':
		t.ver = 0
		ok, err := run.s.cl.Delete(run.keys[op.key])
		switch {
		case err != nil:
			out = "err:" + strings.ReplaceAll(err.Error(), " ", "_")
		case !ok:
			out = "rej"
		default:
			out = fmt.Sprintf("acc:%d", cfAbs(t.ver))
		}
	case 'r':
		ki := store.NewKeyInfoFromBytes([]byte(run.keys[op.key]), 0, false)
		payload, _, err := run.hs.Get(ki, false)
		switch {
		case err != nil:
			out = "err:" + strings.ReplaceAll(err.Error(), " ", "_")
		case payload == nil:
			out = "got:0,0"
		default:
			val := 0
			if payload.Ver > 0 {
				val = concValID(payload.Body)
			}
			out = fmt.Sprintf("got:%d,%d", val, cfAbs(payload.Ver))
			cmem.DBRL.GetData.SubSizeAndCount(payload.CArray.Cap)
			payload.CArray.Free()
		}
	case 'f':
		run.hs.VerifFlushChunk(0, op.chunk, op.force)
		out = "fl"
	}
	finished = true
	t.label, t.loc, t.mu, t.fw = "idle", "", nil, nil
	run.msgs <- cfMsg{kind: cfDone, t: t, out: out}
}

func cfAbs(v int32) int32 {
	if v < 0 {
		return -v
	}
	return v
}

// ---- the scheduler ----

// cfGoState: the scheduler state of a goroutine as the Go runtime reports it ("sync.Mutex.Lock", "runnable",
// "chan receive", …) and its innermost frames.
func cfGoState(gid int64) (state, frames string) {
	buf := make([]byte, 1<<20)
	buf = buf[:runtime.Stack(buf, true)]
	for _, g := range strings.Split(string(buf), "\n\n") {
		pre := fmt.Sprintf("goroutine %d [", gid)
		if strings.HasPrefix(g, pre) {
			ls := strings.Split(g, "\n")
			state = strings.TrimSuffix(strings.TrimPrefix(ls[0], pre), "]:")
			if i := strings.IndexAny(state, ",]"); i >= 0 {
				state = state[:i]
			}
			var fs []string
			for i := 1; i < len(ls) && len(fs) < 5; i += 2 {
				fs = append(fs, strings.TrimSpace(ls[i]))
			}
			return state, strings.Join(fs, " < ")
		}
	}
	return "gone", ""
}

// is that goroutine waiting for something another goroutine has to do (as opposed to merely being slow)?
func cfWaiting(state string) bool {
	return strings.HasPrefix(state, "sync.") || strings.HasPrefix(state, "sema") || strings.HasPrefix(state, "chan") || strings.HasPrefix(state, "select")
}

// overdue: thread t has not arrived 5 s after its release.  Only a goroutine that WAITS is a disagreement about
// enabledness; one that is running or runnable is given more time (the machine may be busy).
func (run *cfRun) overdue(t *cfThread, round int) (giveUp bool) {
	st, fr := cfGoState(t.gid)
	if cfWaiting(st) || round >= 12 {
		run.note("thread %d did not reach its next hook point %d s after its release: goroutine state [%s] at %s", t.tid, 5*(round+1), st, strings.ReplaceAll(fr, " ", "_"))
		return true
	}
	run.c.count("cf.slow-step")
	return false
}

// await waits until thread t is parked again (or has returned) and every goroutine spawned meanwhile is parked.
func (run *cfRun) await(t *cfThread) (resp string, spawned []*cfThread, ok bool) {
	got := false
	pending := 0
	round := 0
	for !got || pending > 0 {
		select {
		case m := <-run.msgs:
			switch m.kind {
			case cfRotate:
				pending++
			case cfPark:
				if m.t.isNew {
					m.t.isNew = false
					pending--
					spawned = append(spawned, m.t)
				} else if m.t == t {
					got = true
				} else {
					run.note("thread %d moved to %s although thread %d was released", m.t.tid, m.t.label, t.tid)
				}
			case cfDone:
				if m.fatal != "" {
					run.fatal = true
					run.c.line("#fatal thread %d: %s", m.t.tid, strings.ReplaceAll(m.fatal, "\n", " "))
				}
				if m.t == t {
					got = true
					resp = m.out
				} else {
					run.note("thread %d returned although thread %d was released", m.t.tid, t.tid)
				}
			}
		case <-time.After(5 * time.Second):
			if run.overdue(t, round) {
				return "", spawned, false
			}
			round++
		}
	}
	return resp, spawned, true
}

// a disagreement found by the harness itself (the driver turns every such line into a DIFF kind=model)
func (run *cfRun) note(format string, a ...interface{}) {
	run.disagree++
	run.c.line("cfdisagree "+format, a...)
}

// is the real mutex free?  (every goroutine is parked: TryLock + Unlock is a pure probe)
func cfFree(m *sync.Mutex) bool {
	if m.TryLock() {
		m.Unlock()
		return true
	}
	return false
}

// enabledness of a parked thread: by the scheduler's bookkeeping and by the real mutex the goroutine is about to lock
func (run *cfRun) enabled(t *cfThread) bool {
	need := cfNeed(t.label)
	tracked := need < 0 || run.own[need] == 0
	real := t.mu == nil || cfFree(t.mu)
	if (need >= 0) != (t.mu != nil) || (need >= 0 && t.mu != run.locks[need]) {
		run.note("thread %d at %s: the hook point passes a mutex other than the one the label stands for", t.tid, t.label)
	}
	if tracked != real {
		run.note("enabledness of thread %d at %s: bookkeeping says %v, the real mutex says %v", t.tid, t.label, tracked, real)
	}
	return real
}

func b01(b bool) string {
	if b {
		return "1"
	}
	return "0"
}

func (run *cfRun) observe() string {
	var sb strings.Builder
	head, wbs, chunks := run.hs.VerifDataObs(0)
	fmt.Fprintf(&sb, "head=%d wbs=%s ch=", head, cfBlk(wbs))
	var pend []string
	for i, ch := range chunks {
		flen := int64(0)
		if st, err := os.Stat(ch.Path); err == nil {
			flen = st.Size()
		}
		p := 0
		for _, t := range run.threads {
			if t.fw != nil && t.fchunk == i && t.label != "idle" {
				_, b := store.VerifWriterState(t.fw)
				p += b
			}
		}
		// the model's `fsize` = what the file will hold once the flusher's bufio layer is written out
		// (the only readers of the length — GetStreamWriter of the next flush, a get of a DETACHED record —
		// come after w.wbuf.Flush()); the bytes still in bufio are reported beside it
		if i > 0 {
			sb.WriteString(";")
		}
		fmt.Fprintf(&sb, "%s,%d,%s,%s,%s", cfBlk(uint32(flen+int64(p))), ch.BufLen, cfBlk(ch.DiskSize), cfBlk(ch.WritingHead), cfBlk(ch.Size))
		pend = append(pend, strconv.Itoa(p))
	}
	fmt.Fprintf(&sb, " pend=%s it=", strings.Join(pend, ","))
	for i, k := range run.keys {
		if i > 0 {
			sb.WriteString("|")
		}
		ver, chunk, off, found := run.hs.VerifTreeItem(0, k)
		if found {
			fmt.Fprintf(&sb, "%d:%d,%d,%s", i, ver, chunk, cfBlk(off))
		} else {
			fmt.Fprintf(&sb, "%d:-", i)
		}
	}
	sb.WriteString(" lk=")
	for i := 0; i < 3; i++ {
		held := !cfFree(run.locks[i])
		sb.WriteString(b01(held))
		if held != (run.own[i] != 0) {
			run.note("lock %d: bookkeeping owner %d, the real mutex is held=%v", i, run.own[i], held)
		}
	}
	sb.WriteString(" thr=")
	ts := append([]*cfThread{}, run.threads...)
	sort.Slice(ts, func(i, j int) bool { return ts[i].tid < ts[j].tid })
	first := true
	for _, t := range ts {
		if t.label == "idle" {
			continue
		}
		if !first {
			sb.WriteString(",")
		}
		first = false
		fmt.Fprintf(&sb, "%d:%s:%s", t.tid, t.label, b01(run.enabled(t)))
	}
	if first {
		sb.WriteString("-")
	}
	if f := theHub.takeFatal(); f != "" {
		run.fatal = true
		run.c.line("#fatal %s", strings.ReplaceAll(f, "\n", " "))
	}
	fmt.Fprintf(&sb, " fatal=%s rerr=%s", b01(run.fatal), b01(run.rerr))
	return sb.String()
}

// the bookkeeping of lock owners "from the points passed, as the model's step does"
func (run *cfRun) passed(t *cfThread, from string) {
	switch from {
	case "w.lock":
		run.own[0] = t.tid
	case "w.unlock":
		run.own[0] = 0
	case "w.slot":
		run.own[1] = t.tid
	case "w.dsunlock":
		run.own[1] = 0
	case "f.lock":
		run.own[2] = t.tid
	case "f.unlock":
		run.own[2] = 0
	}
}

func (op *cfOp) String() string {
	switch op.kind {
	case 'w':
		return fmt.Sprintf("call write %d %d %d blen=%d", op.key, op.val, op.sz, op.blen)
	case 'd':
		return fmt.Sprintf("call delete %d %d", op.key, op.sz)
	case 'r':
		return fmt.Sprintf("call read %d", op.key)
	}
	return fmt.Sprintf("call flush %d %s %s", op.chunk, b01(op.force), b01(op.late))
}

// one enabled decision: `act` describes it, t is released (or invoked with op), the line is written
func (run *cfRun) decide(t *cfThread, op *cfOp) bool {
	now := run.clk
	from := t.label
	act := "go"
	if op != nil {
		act = op.String()
		t.cur, t.inv = op, now
		t.cmd <- op
	} else {
		if from == "f.ds1" && t.cur != nil {
			run.hs.VerifSetLastFlush(0, t.cur.late) // the flusher's clock test is a choice of the scheduler
		}
		t.resume <- struct{}{}
	}
	resp, spawned, ok := run.await(t)
	if !ok {
		run.note("thread %d released at %s (%s) is held for enabled by the model and by the scheduler but did not arrive (see the line before)", t.tid, from, act)
		return false
	}
	run.clk++
	run.passed(t, from)
	resp = run.finish(t, resp, now)
	run.c.line("sched %d %s => en=1 lab=%s loc=%s clk=%d %s resp=%s", t.tid, act, t.label, cfLoc(t.loc), run.clk, run.observe(), resp)
	run.c.count("cf.step." + from)
	// goroutines the step spawned: each is one more decision of the model (an invocation of flush(chunk, true))
	for _, n := range spawned {
		run.threads = append(run.threads, n) // it exists for the model from its invocation on
		n.cur = &cfOp{kind: 'f', chunk: n.fchunk, force: true}
		n.inv = run.clk
		run.clk++
		run.nSpawn++
		run.c.line("sched %d spawn flush %d 1 0 => en=1 lab=%s loc=- clk=%d %s resp=-", n.tid, n.fchunk, n.label, run.clk, run.observe())
		run.c.count("cf.spawn")
	}
	return !run.fatal
}

// finish: the bookkeeping of a response (thread t returned at clock value now with resp); gives what the line shows
func (run *cfRun) finish(t *cfThread, resp string, now int) string {
	if t.label == "idle" {
		if t.cur != nil && t.cur.kind != 'f' {
			e := concEv{key: strconv.Itoa(t.cur.key), cl: t.tid, op: t.cur.kind, inv: int64(t.inv), resp: int64(now)}
			switch {
			case strings.HasPrefix(resp, "acc:"):
				v, _ := strconv.Atoi(resp[4:])
				e.ver, e.val = int32(v), t.cur.val
			case resp == "rej":
				e.state, e.val = "rej", t.cur.val
			case strings.HasPrefix(resp, "got:"):
				p := strings.Split(resp[4:], ",")
				e.val, _ = strconv.Atoi(p[0])
				v, _ := strconv.Atoi(p[1])
				e.ver = int32(v)
			default:
				e.state = "err"
				e.val = t.cur.val
				if t.cur.kind == 'r' {
					run.rerr = true
					run.c.line("#readerr thread %d key %d: %s", t.tid, t.cur.key, resp)
					e.val = 0
				}
			}
			run.evs = append(run.evs, e)
		}
		t.cur = nil
	}
	if resp == "" {
		resp = "-"
	}
	if strings.HasPrefix(resp, "err:") && t.kind == 'r' {
		resp = "got:0,0"
	}
	return resp
}

// the label at which the owner of lock i gives it back in its next micro-step
var cfUnlockAt = [3]string{"w.unlock", "w.dsunlock", "f.unlock"}

// blocked: the experiment behind "not enabled".  Thread t is parked in front of a mutex the scheduler holds for
// taken, and the owner o is one micro-step away from giving it back.  t is REALLY released: it must not reach its
// next hook point (it sits in the mutex queue) — line 1, `sched t block => en=0`, the observation is taken before the
// release (a goroutine blocked in Lock() changes nothing).  Then o is released: its step unlocks, t gets the mutex and
// runs ITS micro-step; both must arrive.  The two steps overlap in real time (what o does after Unlock() touches no
// shared state: return, deferred frees, the response), so there is no observation in between: line 2,
// `sched o go then=t`, carries the observation after both and is compared with the model after the two decisions.
func (run *cfRun) blocked(t, o *cfThread) bool {
	fromT, fromO := t.label, o.label
	run.c.line("sched %d block => en=0 lab=%s loc=%s clk=%d %s resp=-", t.tid, t.label, cfLoc(t.loc), run.clk, run.observe())
	run.c.count("cf.block." + fromT)
	if fromT == "f.ds1" && t.cur != nil {
		run.hs.VerifSetLastFlush(0, t.cur.late)
	}
	t.resume <- struct{}{}
	// it must end up in the queue of the mutex: the runtime reports the goroutine as waiting in sync.Mutex.Lock
	for i := 0; ; i++ {
		select {
		case m := <-run.msgs:
			run.note("thread %d released at %s although thread %d holds the lock: it did not block, it moved (message kind %d of thread %d)", t.tid, fromT, o.tid, m.kind, m.t.tid)
			return false
		case <-time.After(time.Millisecond):
		}
		st, fr := cfGoState(t.gid)
		if strings.HasPrefix(st, "sync.Mutex.Lock") || strings.HasPrefix(st, "sema") {
			break
		}
		if i > 20000 || (cfWaiting(st) && i > 50) {
			run.note("thread %d released at %s in front of a held mutex: goroutine state [%s] at %s, not a mutex wait", t.tid, fromT, st, strings.ReplaceAll(fr, " ", "_"))
			return false
		}
	}
	now := run.clk
	o.resume <- struct{}{}
	gotO, gotT := false, false
	resp := ""
	round := 0
	for !gotO || !gotT {
		select {
		case m := <-run.msgs:
			if m.fatal != "" {
				run.fatal = true
				run.c.line("#fatal thread %d: %s", m.t.tid, strings.ReplaceAll(m.fatal, "\n", " "))
			}
			switch {
			case m.kind == cfRotate:
				run.note("a rotation inside an unlocking step")
			case m.t == o:
				gotO = true
				resp = m.out
			case m.t == t:
				gotT = true
			default:
				run.note("thread %d moved although threads %d and %d were released", m.t.tid, o.tid, t.tid)
			}
		case <-time.After(5 * time.Second):
			late := t
			if !gotO {
				late = o
			}
			if run.overdue(late, round) {
				run.note("after thread %d was released at %s: it or thread %d (waiting at %s for its lock) did not arrive (owner %v, waiter %v)", o.tid, fromO, t.tid, fromT, gotO, gotT)
				return false
			}
			round++
		}
	}
	run.clk += 2
	run.passed(o, fromO)
	run.passed(t, fromT)
	resp = run.finish(o, resp, now)
	run.finish(t, "", now+1)
	run.c.line("sched %d go then=%d => en=1 lab=%s loc=%s clk=%d %s resp=%s", o.tid, t.tid, t.label, cfLoc(t.loc), run.clk, run.observe(), resp)
	run.c.count("cf.step." + fromO)
	run.c.count("cf.step." + fromT)
	return !run.fatal
}

func cfLoc(s string) string {
	if s == "" {
		return "-"
	}
	return s
}

// a decision for a thread whose next micro-step is NOT enabled: the goroutine stays parked (releasing it would
// commit it to the mutex queue); what is checked is that the mutex it is about to lock is really held
func (run *cfRun) probe(t *cfThread) {
	if t.mu == nil || cfFree(t.mu) {
		run.note("probe of thread %d at %s: the scheduler holds it for disabled but the mutex it is about to lock is free", t.tid, t.label)
	}
	run.c.line("sched %d go => en=0 lab=%s loc=%s clk=%d %s resp=-", t.tid, t.label, cfLoc(t.loc), run.clk, run.observe())
	run.c.count("cf.probe." + t.label)
}

func engineConcFine(c *Ctx) {
	store.VerifHook = cfHook
	base := c.work
	if base == "" {
		base, _ = os.MkdirTemp("", "hxcf")
		defer os.RemoveAll(base)
	}
	if c.replay != "" {
		cfReplay(c, filepath.Join(base, "home"))
		return
	}
	root := NewRNG(c.seed)
	for ci := 0; ci < c.n; ci++ {
		r := root.Fork(uint64(ci))
		p := cfParams{id: fmt.Sprintf("%d-%d", c.seed, ci)}
		p.dfmax = []int{3, 4, 6, 8, 16}[r.Intn(5)]
		p.nw = 2 + r.Intn(3)
		p.nr = 1 + r.Intn(3)
		p.nf = 1 + r.Intn(2)
		nkeys := 1 + r.Intn(3)
		for len(p.keys) < nkeys {
			k := genKey(r)
			dup := false
			for _, x := range p.keys {
				if x == k {
					dup = true
				}
			}
			if store.IsValidKeyString(k) && len(k) < 40 && !dup {
				p.keys = append(p.keys, k)
			}
		}
		p.bufio = []int{1 << 20, 4096, 300}[r.Intn(3)]
		p.stick = []int{0, 30, 60, 85}[r.Intn(4)]
		p.probe = []int{0, 10, 25}[r.Intn(3)]
		if r.Chance(35) {
			p.pct = []int{8, 20, 50}[r.Intn(3)]
		}
		p.block = []int{0, 30, 60}[r.Intn(3)]
		p.wops = 2 + r.Intn(4)
		p.rops = 2 + r.Intn(6)
		p.fops = 1 + r.Intn(4)
		cfCase(c, r, p, filepath.Join(base, "home"), nil)
	}
}

type cfParams struct {
	id               string
	dfmax            int // blocks
	nw, nr, nf       int
	keys             []string
	bufio            int
	stick, probe     int
	block            int // percent: when a thread waits for a lock whose owner is about to unlock, really release it (see blocked)
	pct              int // > 0: priority schedule (the enabled thread of highest priority runs; on average every pct-th decision the running thread drops to the lowest priority)
	wops, rops, fops int
}

type cfDecision struct {
	tid   int
	probe bool
	owner int   // > 0: the blocked-release experiment: thread tid is released while thread owner holds its lock
	op    *cfOp // nil: go
}

func (run *cfRun) thread(tid int) *cfThread {
	for _, t := range run.threads {
		if t.tid == tid {
			return t
		}
	}
	return nil
}

// the bytes of value #val: a self-describing prefix and blen incompressible bytes (so that TryCompress leaves the
// record size alone and `sz` can be told to the model at the invocation)
func cfBody(val, blen int) []byte {
	return append([]byte(fmt.Sprintf("v%d-", val)), NewRNG(uint64(val)*7919+1).Bytes(blen)...)
}

func cfCase(c *Ctx, r *RNG, p cfParams, home string, script []cfDecision) {
	os.RemoveAll(home)
	os.MkdirAll(home, 0o755)
	defer os.RemoveAll(home)
	cfg := seqCfg{home: home, nb: 1, served: []int{0}, height: 3}
	cfg.dfmax = int64(p.dfmax) * 256
	cfg.splitCap = 4096 // no hint-split rotation inside hints.set (hint files are not part of this model); 1<<20 costs 8 MB per data file
	cfg.idxInt = 4096
	cfg.bodyInC = 4096
	cfg.bodyMax = 4096
	cfg.listKey = 256
	s := &seqStore{cfg: cfg}
	curStore = s
	defer func() { curStore = nil }()
	var hk []string
	for _, k := range p.keys {
		hk = append(hk, hx([]byte(k)))
	}
	c.line("case %s dfmax=%d keys=%s nw=%d nr=%d nf=%d bufio=%d stick=%d probe=%d pct=%d block=%d", p.id, p.dfmax, strings.Join(hk, ","), p.nw, p.nr, p.nf, p.bufio, p.stick, p.probe, p.pct, p.block)
	c.count("case.concfine")
	curCF = nil
	if err := s.open(); err != nil {
		c.line("open => REFUSED %v", err)
		c.line("end")
		return
	}
	store.Conf.BufIOCap = p.bufio
	run := &cfRun{c: c, hs: s.hs, s: s, keys: p.keys, msgs: make(chan cfMsg, 64), clk: 1}
	run.locks[0], run.locks[1], run.locks[2] = s.hs.VerifLocks(0)
	curCF = run
	defer func() { curCF = nil }()
	mk := func(kind byte, ops int) {
		t := &cfThread{tid: int(atomic.AddInt32(&run.nextTid, 1)), kind: kind, resume: make(chan struct{}), cmd: make(chan *cfOp), ops: ops, label: "idle"}
		run.threads = append(run.threads, t)
		go run.threadMain(t)
		<-run.msgs // ready
	}
	for i := 0; i < p.nw; i++ {
		mk('w', p.wops)
	}
	for i := 0; i < p.nr; i++ {
		mk('r', p.rops)
	}
	for i := 0; i < p.nf; i++ {
		mk('f', p.fops)
	}
	nextVal := 0
	genOp := func(t *cfThread) *cfOp {
		switch t.kind {
		case 'w':
			k := r.Intn(len(p.keys))
			if r.Chance(30) {
				op := &cfOp{kind: 'd', key: k}
				op.sz = len(store.VerifEncodeRecord([]byte(p.keys[k]), nil, 0, -1, 0))/256 - 1
				return op
			}
			nextVal++
			op := &cfOp{kind: 'w', key: k, val: nextVal, blen: []int{0, 0, 100, 300, 600}[r.Intn(5)]}
			op.body = cfBody(op.val, op.blen)
			op.sz = len(store.VerifEncodeRecord([]byte(p.keys[k]), op.body, 0, 1, 0))/256 - 1
			return op
		case 'r':
			return &cfOp{kind: 'r', key: r.Intn(len(p.keys))}
		}
		op := &cfOp{kind: 'f', chunk: -1, force: r.Chance(70), late: r.Chance(50)}
		if r.Chance(35) {
			head, _, _ := s.hs.VerifDataObs(0)
			op.chunk = r.Intn(head + 1) // what flushPending / the post-rotation flush call
			op.force = true
		}
		return op
	}
	ok := true
	var last *cfThread
	prio := map[int]int{}
	low := 0
	if script != nil {
		for _, d := range script {
			t := run.thread(d.tid)
			if t == nil {
				run.note("replay: unknown thread %d", d.tid)
				ok = false
				break
			}
			if d.probe {
				run.probe(t)
				continue
			}
			if d.owner > 0 {
				o := run.thread(d.owner)
				if o == nil || !run.blocked(t, o) {
					ok = false
					break
				}
				continue
			}
			if d.op == nil && (t.label == "idle" || t.label == "dead" || !run.enabled(t)) {
				run.note("replay: the decision `%d go` is not possible here (thread at %s): not executed", d.tid, t.label)
				ok = false
				break
			}
			if d.op != nil && d.op.kind == 'w' {
				d.op.body = cfBody(d.op.val, d.op.blen)
			}
			if !run.decide(t, d.op) {
				ok = false
				break
			}
		}
	} else {
		for ok {
			// candidates
			var en, dis []*cfThread
			for _, t := range run.threads {
				switch {
				case t.label == "idle":
					if !t.spawned && t.ops > 0 {
						en = append(en, t)
					}
				case t.label == "dead":
				case run.enabled(t):
					en = append(en, t)
				default:
					dis = append(dis, t)
				}
			}
			if len(en) == 0 {
				if len(dis) > 0 {
					run.note("deadlock: %d threads parked, none enabled", len(dis))
					ok = false
				}
				break
			}
			if len(dis) > 0 && r.Chance(p.block) {
				var pairs [][2]*cfThread
				for _, t := range dis {
					i := cfNeed(t.label)
					if o := run.thread(run.own[i]); o != nil && o.label == cfUnlockAt[i] {
						pairs = append(pairs, [2]*cfThread{t, o})
					}
				}
				if len(pairs) > 0 {
					pr := pairs[r.Intn(len(pairs))]
					ok = run.blocked(pr[0], pr[1])
					last = pr[0]
					continue
				}
			}
			if len(dis) > 0 && r.Chance(p.probe) {
				run.probe(dis[r.Intn(len(dis))])
				continue
			}
			t := en[r.Intn(len(en))]
			if p.pct > 0 {
				for _, x := range en {
					if _, seen := prio[x.tid]; !seen {
						prio[x.tid] = 1 + r.Intn(1000)
					}
					if prio[x.tid] > prio[t.tid] {
						t = x
					}
				}
				if r.Intn(p.pct) == 0 {
					low--
					prio[t.tid] = low
				}
			} else if last != nil && last.label != "idle" && r.Chance(p.stick) {
				for _, x := range en {
					if x == last {
						t = last
					}
				}
			}
			last = t
			var op *cfOp
			if t.label == "idle" {
				op = genOp(t)
				t.ops--
			}
			ok = run.decide(t, op)
		}
		// everything has stopped: one more get per key (condition (C) of the property), scheduled like any other
		if ok {
			rd := run.threads[p.nw]
			for k := range p.keys {
				if !run.decide(rd, &cfOp{kind: 'r', key: k}) {
					ok = false
					break
				}
				for ok && rd.label != "idle" {
					ok = run.decide(rd, nil)
				}
			}
		}
	}
	// end of the case: let whatever is still parked run free, close the store
	atomic.StoreInt32(&run.free, 1)
	for _, t := range run.threads {
		if t.label != "idle" && t.label != "dead" {
			close(t.resume)
		}
		if t.cmd != nil {
			close(t.cmd)
		}
	}
	if !ok {
		time.Sleep(50 * time.Millisecond)
		c.count("case.aborted")
	}
	for _, e := range run.evs {
		st := e.state
		if st == "" {
			st = "ok"
		}
		c.line("ev key=%s cl=%d op=%c val=%d inv=%d resp=%d ver=%d state=%s", e.key, e.cl, e.op, e.val, e.inv, e.resp, e.ver, st)
		c.count("ev." + string(e.op))
	}
	c.count(fmt.Sprintf("cf.rotations.%d", func() int { h, _, _ := s.hs.VerifDataObs(0); return h }()))
	if run.disagree > 0 {
		c.count("case.harness-disagreement")
	}
	curCF = nil
	guard(func() { s.hs.Close() })
	theHub.takeFatal()
	c.line("end ok=%s decisions=%d", b01(ok), run.clk-1)
}

// -replay: the decisions of a recorded trace are executed again on the real code (the schedule is the input)
func cfReplay(c *Ctx, home string) {
	var p cfParams
	var script []cfDecision
	have := false
	kv := func(ws []string, name string) string {
		for _, w := range ws {
			if strings.HasPrefix(w, name+"=") {
				return w[len(name)+1:]
			}
		}
		return ""
	}
	atoi := func(s string) int { n, _ := strconv.Atoi(s); return n }
	for _, l := range replayLines(c.replay) {
		switch l.op {
		case "case":
			p = cfParams{id: l.args[0]}
			p.dfmax, p.nw, p.nr, p.nf = atoi(kv(l.args, "dfmax")), atoi(kv(l.args, "nw")), atoi(kv(l.args, "nr")), atoi(kv(l.args, "nf"))
			p.bufio, p.stick, p.probe, p.pct, p.block = atoi(kv(l.args, "bufio")), atoi(kv(l.args, "stick")), atoi(kv(l.args, "probe")), atoi(kv(l.args, "pct")), atoi(kv(l.args, "block"))
			for _, k := range strings.Split(kv(l.args, "keys"), ",") {
				p.keys = append(p.keys, string(unhx(k)))
			}
			script, have = nil, true
		case "sched":
			a := l.args
			d := cfDecision{tid: atoi(a[0])}
			switch {
			case a[1] == "spawn":
				continue // happens by itself
			case a[1] == "block":
				continue // the pair follows in the `go then=` line
			case a[1] == "go" && len(a) > 2 && strings.HasPrefix(a[2], "then="):
				d = cfDecision{tid: atoi(a[2][5:]), owner: atoi(a[0])}
			case a[1] == "go":
				d.probe = strings.HasPrefix(l.obs, "en=0")
			case a[2] == "write":
				d.op = &cfOp{kind: 'w', key: atoi(a[3]), val: atoi(a[4]), sz: atoi(a[5]), blen: atoi(kv(a, "blen"))}
			case a[2] == "delete":
				d.op = &cfOp{kind: 'd', key: atoi(a[3]), sz: atoi(a[4])}
			case a[2] == "read":
				d.op = &cfOp{kind: 'r', key: atoi(a[3])}
			case a[2] == "flush":
				d.op = &cfOp{kind: 'f', chunk: atoi(a[3]), force: a[4] == "1", late: a[5] == "1"}
			}
			script = append(script, d)
		case "end":
			if have {
				cfCase(c, nil, p, home, script)
				have = false
			}
		}
	}
}
