package main

import (
	"bytes"
	"fmt"
)

// Value classes shared by the engines (DESIGN.md §4 "common generator vocabulary").
var valueClassNames = []string{"empty", "one", "block-edge", "const-run", "periodic", "random", "riff", "id3", "mixed", "10k", "100k", "high-bytes"}

func genValue(r *RNG, keyLen int, maxLen int) (class string, v []byte) {
	c := r.Intn(len(valueClassNames))
	class = valueClassNames[c]
	switch class {
	case "empty":
		v = []byte{}
	case "one":
		v = []byte{byte(r.Intn(256))}
	case "block-edge":
		// 24+ksz+vsz in {255,256,257,511,512,513}
		tgt := []int{255, 256, 257, 511, 512, 513}[r.Intn(6)]
		n := tgt - 24 - keyLen
		if n < 0 {
			n = 0
		}
		v = r.Bytes(n)
	case "const-run":
		v = bytes.Repeat([]byte{byte(r.Intn(256))}, 1+r.Intn(3000))
	case "periodic":
		v = bytes.Repeat([]byte(fmt.Sprintf("line %d of some text\n", r.Intn(10))), 1+r.Intn(200))
	case "random":
		v = r.Bytes(r.Intn(2000))
	case "riff":
		v = append([]byte("RIFF\x24\x08\x00\x00WAVEfmt "), bytes.Repeat([]byte{0}, 300+r.Intn(3000))...)
	case "id3":
		v = append([]byte("ID3\x03\x00\x00\x00\x00\x00\x00"), bytes.Repeat([]byte{1}, 300+r.Intn(3000))...)
	case "mixed":
		v = append(bytes.Repeat([]byte("abcdefgh"), 100+r.Intn(1500)), r.Bytes(r.Intn(4000))...)
	case "10k":
		n := 10240 - 1 + r.Intn(3)
		if r.Bool() {
			v = bytes.Repeat([]byte("0123456789abcdef"), n/16+1)[:n]
		} else {
			v = r.Bytes(n)
		}
	case "100k":
		v = bytes.Repeat([]byte("the quick brown fox "), 5000)
	case "high-bytes":
		v = r.Bytes(r.Intn(300))
		for i := range v {
			v[i] |= 0x80
		}
	}
	if maxLen >= 0 && len(v) > maxLen {
		v = v[:maxLen]
	}
	return
}

// genKey returns a valid key (1..250 bytes, no control/space, not starting with @ or ?).
func genKey(r *RNG) string {
	lens := []int{1, 2, 3, 3, 4, 5, 8, 8, 12, 16, 16, 30, 100, 249, 250}
	n := lens[r.Intn(len(lens))]
	b := make([]byte, n)
	for i := range b {
		switch r.Intn(8) {
		case 0:
			b[i] = byte(0x80 + r.Intn(0x80)) // bytes >= 0x80 are legal (non-UTF8 sequences decode to U+FFFD, not control/space)
		default:
			b[i] = byte('a' + r.Intn(26))
		}
	}
	if b[0] >= 0x80 {
		b[0] = 'k'
	}
	return string(b)
}
