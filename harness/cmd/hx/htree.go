package main

// engine htree (C08): the real in-memory Merkle tree (store.HTree through the verif shim) driven directly —
// set / remove / movePos / Update / ListDir in any order, so that every pattern of stale inner nodes occurs —
// and observed COMPLETELY after every call: the reply, the root count as `stats curr_items` would read it, and
// (count, hash, up-to-date flag) of every node of every level.  The Lean driver replays the calls on the
// implementation-level model (Model/HTreeImpl.lean) and compares everything (kind=model), and compares every listing
// with the content-level specification Tree.listBucket of the dictionary the calls built (kind=oracle).

import (
	"fmt"
	"strconv"
	"strings"

	"github.com/douban/gobeansdb/store"
)

type htreeRun struct {
	t     *store.VerifHTree
	depth int
	bid   int
	pos   map[uint64][2]uint32 // khash -> (chunk, off) as the tree holds it
}

func oneLine(b []byte) string {
	if len(b) == 0 {
		return "-"
	}
	return strings.ReplaceAll(strings.TrimRight(string(b), "\n"), "\n", ";")
}

// fnv64 of the snapshot (the snapshot of a deep tree is megabytes long: the digest is compared; the text itself is
// printed only when it is short)
func fnv64(s string) uint64 {
	h := uint64(14695981039346656037)
	for i := 0; i < len(s); i++ {
		h ^= uint64(s[i])
		h *= 1099511628211
	}
	return h
}

func (h *htreeRun) tail() string {
	snap := h.t.Snapshot()
	if len(snap) <= 3000 {
		return fmt.Sprintf("root=%d snap=%d %s", h.t.RootCount(), fnv64(snap), snap)
	}
	return fmt.Sprintf("root=%d snap=%d -", h.t.RootCount(), fnv64(snap))
}

func (h *htreeRun) apply(c *Ctx, op string, args []string) {
	key := func(kh uint64) string { return fmt.Sprintf("k%x", kh) }
	switch op {
	case "tset":
		kh, _ := strconv.ParseUint(args[0], 10, 64)
		ver, _ := strconv.Atoi(args[1])
		vh, _ := strconv.Atoi(args[2])
		ck, _ := strconv.Atoi(args[3])
		off, _ := strconv.ParseUint(args[4], 10, 32)
		p := guard(func() { h.t.Set(kh, key(kh), int32(ver), uint16(vh), ck, uint32(off)) })
		if p != "" {
			c.line("tset %s => PANIC", strings.Join(args, " "))
			return
		}
		h.pos[kh] = [2]uint32{uint32(ck), uint32(off)}
		c.line("tset %s => %s", strings.Join(args, " "), h.tail())
	case "tremove":
		kh, _ := strconv.ParseUint(args[0], 10, 64)
		how := args[1] // any: position -1 (remove whatever is there); same: the stored position; other: a position the item does not have
		ck, off := -1, uint32(0)
		switch how {
		case "same":
			if p, ok := h.pos[kh]; ok {
				ck, off = int(p[0]), p[1]
			}
		case "other":
			ck, off = 0, 7*256*65536
		}
		p := guard(func() { h.t.Remove(kh, key(kh), ck, off) })
		if p != "" {
			c.line("tremove %s => PANIC", strings.Join(args, " "))
			return
		}
		if how != "other" {
			delete(h.pos, kh)
		}
		c.line("tremove %s => %s", strings.Join(args, " "), h.tail())
	case "tmove":
		kh, _ := strconv.ParseUint(args[0], 10, 64)
		eq := args[1] == "eq"
		nck, _ := strconv.Atoi(args[2])
		noff, _ := strconv.ParseUint(args[3], 10, 32)
		ock, ooff := 5, uint32(99*256)
		if p, ok := h.pos[kh]; ok && eq {
			ock, ooff = int(p[0]), p[1]
		}
		moved := false
		p := guard(func() { moved = h.t.MovePos(kh, key(kh), ock, ooff, nck, uint32(noff)) })
		if p != "" {
			c.line("tmove %s => PANIC", strings.Join(args, " "))
			return
		}
		if moved {
			h.pos[kh] = [2]uint32{uint32(nck), uint32(noff)}
		}
		c.line("tmove %s => moved=%v %s", strings.Join(args, " "), moved, h.tail())
	case "tupdate":
		var cnt uint32
		var hash uint16
		p := guard(func() { cnt, hash = h.t.Update() })
		if p != "" {
			c.line("tupdate => PANIC")
			return
		}
		c.line("tupdate => node=%d,%d %s", cnt, hash, h.tail())
	case "tlist":
		path := args[0]
		if path == "-" {
			path = ""
		}
		var data []byte
		var err error
		p := guard(func() { data, err = h.t.ListDir(path) })
		switch {
		case p != "":
			c.line("tlist %s => PANIC", args[0])
		case err != nil:
			c.line("tlist %s => ERR %s", args[0], h.tail())
		default:
			c.line("tlist %s => list=%s %s", args[0], oneLine(data), h.tail())
		}
	}
}

func htreeStart(c *Ctx, nb, bid, height int, thr uint32) *htreeRun {
	store.Conf.InitDefault()
	store.Conf.NumBucket = nb
	store.Conf.TreeHeight = height
	store.Conf.Init()
	store.VerifSetThresholdListKey(thr)
	depth := store.Conf.TreeDepth
	c.line("tree nb=%d depth=%d bucket=%d height=%d thr=%d", nb, depth, bid, height, thr)
	return &htreeRun{t: store.VerifNewHTree(depth, bid, height), depth: depth, bid: bid, pos: map[uint64][2]uint32{}}
}

func engineHTree(c *Ctx) {
	if c.replay != "" {
		var h *htreeRun
		for _, l := range replayLines(c.replay) {
			switch l.op {
			case "case":
				c.line("%s", strings.Join(append([]string{"case"}, l.args...), " "))
			case "tree":
				kv := map[string]int{}
				for _, a := range l.args {
					p := strings.SplitN(a, "=", 2)
					kv[p[0]], _ = strconv.Atoi(p[1])
				}
				h = htreeStart(c, kv["nb"], kv["bucket"], kv["height"], uint32(kv["thr"]))
			case "end":
				c.line("end")
			default:
				if h != nil {
					h.apply(c, l.op, l.args)
				}
			}
		}
		return
	}
	root := NewRNG(c.seed)
	for ci := 0; ci < c.n; ci++ {
		r := root.Fork(uint64(ci))
		nb := []int{1, 16, 256}[r.Intn(3)]
		depth := map[int]int{1: 0, 16: 1, 256: 2}[nb]
		height := 2 + r.Intn(3)
		if r.Chance(15) {
			height = 2 + r.Intn(7-depth) // up to the deepest tree the configuration allows (depth + height <= 8)
		}
		if depth+height > 8 {
			height = 8 - depth
		}
		if height > 4 {
			height = 4 // 16^3 leaves per bucket tree (deeper trees only repeat the same code one level further down)
		}
		bid := r.Intn(nb)
		thr := []uint32{1, 2, 3, 4, 8, 256}[r.Intn(6)]
		c.line("case %d-%d htree", c.seed, ci)
		h := htreeStart(c, nb, bid, height, thr)
		c.count(fmt.Sprintf("tree.nb%d.height%d", nb, height))
		// key pool: the bucket's digits on top, the next two digits from a small set (so that leaves and inner nodes are
		// shared), the rest random; a few keys of OTHER buckets (the tree indexes by the digits below the bucket's)
		nk := 6 + r.Intn(40)
		big := r.Chance(12)
		if big {
			// enough keys for inner nodes to cross ThresholdBigHash (256 live keys: the inner hash switches from the plain
			// sum to the base-97 polynomial) in both directions
			nk = 280 + r.Intn(160)
			c.count("tree.big")
		}
		keys := make([]uint64, nk)
		for i := range keys {
			var kh uint64
			if depth > 0 {
				kh = uint64(bid) << uint(64-4*depth)
			}
			d1 := 3
			if big {
				d1 = 1 + r.Intn(2) // most keys under one or two children of the root: those inner nodes pass 256
			}
			kh |= uint64(r.Intn(d1)) << uint(64-4*depth-4)
			kh |= uint64(r.Intn(4)) << uint(64-4*depth-8)
			kh |= r.Next() & ((uint64(1) << uint(64-4*depth-8)) - 1)
			keys[i] = kh
		}
		nops := 40 + r.Intn(160)
		if c.tier == "thorough" {
			nops = 100 + r.Intn(500)
		}
		if big {
			nops = 2*nk + r.Intn(nk)
		}
		off := uint32(256)
		if big {
			// every key once, live: the inner nodes start ABOVE the threshold; the random calls below (sets, removes,
			// listings in between) then take them across it in both directions
			for _, kh := range keys {
				h.apply(c, "tset", []string{strconv.FormatUint(kh, 10), strconv.Itoa(1 + r.Intn(5)), strconv.Itoa(r.Intn(65536)), "0", strconv.FormatUint(uint64(off), 10)})
				off += 256
				if r.Chance(2) {
					h.apply(c, "tupdate", nil)
				}
			}
			h.apply(c, "tupdate", nil)
			nops = nk + r.Intn(nk)
		}
		for n := 0; n < nops; n++ {
			kh := keys[r.Intn(nk)]
			switch p := r.Intn(100); {
			case p < 40:
				ver := 1 + r.Intn(5)
				if r.Chance(25) {
					ver = -ver
				}
				h.apply(c, "tset", []string{strconv.FormatUint(kh, 10), strconv.Itoa(ver), strconv.Itoa(r.Intn(65536)), strconv.Itoa(r.Intn(3)), strconv.FormatUint(uint64(off), 10)})
				off += 256
				c.count("op.tset")
			case p < 58:
				how := []string{"any", "same", "other"}[r.Intn(3)]
				h.apply(c, "tremove", []string{strconv.FormatUint(kh, 10), how})
				c.count("op.tremove." + how)
			case p < 66:
				eq := []string{"eq", "ne"}[r.Intn(2)]
				h.apply(c, "tmove", []string{strconv.FormatUint(kh, 10), eq, "1", strconv.FormatUint(uint64(off), 10)})
				off += 256
				c.count("op.tmove." + eq)
			case p < 74:
				h.apply(c, "tupdate", nil)
				c.count("op.tupdate")
			default:
				L := r.Intn(depth + height + 2)
				s := fmt.Sprintf("%016x", kh)
				if r.Chance(25) {
					s = fmt.Sprintf("%016x", kh^(uint64(1)<<uint(64-4*depth-4*(1+r.Intn(3)))))
				}
				path := s[:L]
				if L == 0 {
					path = "-"
				}
				h.apply(c, "tlist", []string{path})
				c.count(fmt.Sprintf("op.tlist.len%d", L))
			}
		}
		c.line("end")
	}
}

func init() { engines["htree"] = engineHTree }
