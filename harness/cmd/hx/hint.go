package main

import (
	"fmt"
	"os"
	"path/filepath"
	"sort"
	"strconv"
	"strings"

	"github.com/douban/gobeansdb/store"
)

// engine hint (C14): hint file writer / reader / sparse index / lookup / merge of the real code.

func init() { engines["hint"] = engineHint }

func fmtItem(it store.VerifHintItem) string {
	return fmt.Sprintf("%d:%d:%d:%d:%d:%s", it.Keyhash, it.Chunk, it.Offset, it.Ver, it.Vhash, hx([]byte(it.Key)))
}

func fmtItems(items []store.VerifHintItem) string {
	if len(items) == 0 {
		return "-"
	}
	var sb strings.Builder
	for i, it := range items {
		if i > 0 {
			sb.WriteByte(',')
		}
		sb.WriteString(fmtItem(it))
	}
	return sb.String()
}

func parseItems(s string) []store.VerifHintItem {
	if s == "-" || s == "" {
		return nil
	}
	var out []store.VerifHintItem
	for _, f := range strings.Split(s, ",") {
		p := strings.Split(f, ":")
		kh, _ := strconv.ParseUint(p[0], 10, 64)
		ck, _ := strconv.Atoi(p[1])
		off, _ := strconv.ParseUint(p[2], 10, 32)
		ver, _ := strconv.ParseInt(p[3], 10, 32)
		vh, _ := strconv.ParseUint(p[4], 10, 16)
		out = append(out, store.VerifHintItem{Keyhash: kh, Chunk: ck, Offset: uint32(off), Ver: int32(ver), Vhash: uint16(vh), Key: string(unhx(p[5]))})
	}
	return out
}

func sortHint(items []store.VerifHintItem) {
	sort.SliceStable(items, func(i, j int) bool {
		if items[i].Keyhash != items[j].Keyhash {
			return items[i].Keyhash < items[j].Keyhash
		}
		return items[i].Key < items[j].Key
	})
}

// genHintItems: distinct (hash, key) pairs, sorted by (hash, key) as HintBuffer.Dump writes them.
func genHintItems(r *RNG, n int) []store.VerifHintItem {
	var hashes []uint64
	nh := n/2 + 1
	for i := 0; i < nh; i++ {
		switch r.Intn(20) {
		case 0:
			hashes = append(hashes, 0)
		case 1:
			hashes = append(hashes, ^uint64(0))
		case 2:
			hashes = append(hashes, uint64(r.Intn(4)))
		default:
			hashes = append(hashes, r.Next())
		}
	}
	seen := map[string]bool{}
	var items []store.VerifHintItem
	for len(items) < n {
		h := hashes[r.Intn(len(hashes))]
		k := genKey(r)
		id := fmt.Sprintf("%d/%s", h, k)
		if seen[id] {
			continue
		}
		seen[id] = true
		ver := int32(1 + r.Intn(100))
		if r.Chance(20) {
			ver = -ver
		}
		if r.Chance(3) {
			ver = int32(uint32(r.Next()))
		}
		items = append(items, store.VerifHintItem{Keyhash: h, Chunk: 0, Offset: uint32(r.Intn(1<<20)) << 8, Ver: ver, Vhash: uint16(r.Next()), Key: k})
	}
	sortHint(items)
	return items
}

func hintObserveFile(c *Ctx, path string, items []store.VerifHintItem, ds uint32) {
	if err := store.VerifHintWrite(path, items, ds); err != nil {
		c.line("hwrite ds=%d items=%s => ERR %v", ds, fmtItems(items), err)
		return
	}
	data, _ := os.ReadFile(path)
	c.line("hwrite ds=%d items=%s => %s", ds, fmtItems(items), hx(data))
	got, gds, nk, err := store.VerifHintReadAll(path)
	if err != nil {
		c.line("hread => ERR")
	} else {
		c.line("hread => ds=%d numkey=%d items=%s", gds, nk, fmtItems(got))
	}
	khs, offs, err := store.VerifHintIndex(path)
	if err != nil {
		c.line("hindex => ERR")
	} else {
		var sb strings.Builder
		for i := range khs {
			if i > 0 {
				sb.WriteByte(',')
			}
			fmt.Fprintf(&sb, "%d:%d", khs[i], offs[i])
		}
		if len(khs) == 0 {
			sb.WriteString("-")
		}
		c.line("hindex => %s", sb.String())
	}
}

func hintLookup(c *Ctx, path string, kh uint64, key string) {
	var it *store.VerifHintItem
	var err error
	p := guard(func() { it, err = store.VerifHintLookup(path, kh, key) })
	switch {
	case p != "":
		c.line("hlookup %d %s => PANIC", kh, hx([]byte(key)))
	case err != nil:
		c.line("hlookup %d %s => ERR", kh, hx([]byte(key)))
	case it == nil:
		c.line("hlookup %d %s => NONE", kh, hx([]byte(key)))
	default:
		c.line("hlookup %d %s => %s", kh, hx([]byte(key)), fmtItem(*it))
	}
}

func hintMerge(c *Ctx, dir string, srcs [][]store.VerifHintItem, chunks []int, forGC bool) {
	var paths []string
	var desc []string
	for i, s := range srcs {
		p := filepath.Join(dir, fmt.Sprintf("m%d.idx.s", i))
		store.VerifHintWrite(p, s, uint32(1000*(i+1)))
		paths = append(paths, p)
		desc = append(desc, fmt.Sprintf("%d=%s", chunks[i], fmtItems(s)))
	}
	dst := filepath.Join(dir, "merged.idx.m")
	os.Remove(dst)
	var coll []store.VerifHintItem
	var err error
	p := guard(func() { coll, err = store.VerifHintMergeMode(paths, chunks, dst, forGC) })
	lhs := "hmerge " + strings.Join(desc, " ")
	if forGC {
		// the merge GC runs before a pass: no merged file is written, only the collisions are reported
		lhs = "hmerge gc " + strings.Join(desc, " ")
	}
	if p != "" {
		c.line("%s => PANIC", lhs)
		return
	}
	if err != nil {
		c.line("%s => ERR", lhs)
		return
	}
	var got []store.VerifHintItem
	var ds uint32
	if !forGC {
		got, ds, _, err = store.VerifHintReadAll(dst)
		if err != nil {
			c.line("%s => ERR-READ", lhs)
			return
		}
	}
	sort.Slice(coll, func(i, j int) bool {
		if coll[i].Keyhash != coll[j].Keyhash {
			return coll[i].Keyhash < coll[j].Keyhash
		}
		return coll[i].Key < coll[j].Key
	})
	if forGC {
		c.line("%s => coll=%s", lhs, fmtItems(coll))
	} else {
		c.line("%s => ds=%d merged=%s coll=%s", lhs, ds, fmtItems(got), fmtItems(coll))
	}
	for _, p := range paths {
		os.Remove(p)
	}
	os.Remove(dst)
}

func engineHint(c *Ctx) {
	store.Conf.InitDefault()
	store.Conf.Init()
	dir := c.work
	if dir == "" {
		dir, _ = os.MkdirTemp("", "hxhint")
		defer os.RemoveAll(dir)
	}
	os.MkdirAll(dir, 0o755)
	path := filepath.Join(dir, "000.000.idx.s")
	if c.replay != "" {
		hintReplay(c, dir, path)
		return
	}
	root := NewRNG(c.seed)
	for ci := 0; ci < c.n; ci++ {
		r := root.Fork(uint64(ci))
		interval := []int64{1, 100, 300, 1024, 4096}[r.Intn(5)]
		store.Conf.IndexIntervalSize = interval
		n := r.Intn(40)
		if r.Chance(25) {
			n = 40 + r.Intn(400)
		}
		if c.tier == "thorough" && r.Chance(5) {
			n = 1000 + r.Intn(4000)
		}
		if r.Chance(5) {
			n = 0
		}
		items := genHintItems(r, n)
		c.line("case %d-%d interval=%d", c.seed, ci, interval)
		c.count(fmt.Sprintf("interval=%d", interval))
		hintObserveFile(c, path, items, uint32(r.Next()))
		c.count("files")
		// lookups: every present pair (sampled when large), and absent ones
		step := 1
		if len(items) > 60 {
			step = len(items) / 60
		}
		for i := 0; i < len(items); i += step {
			hintLookup(c, path, items[i].Keyhash, items[i].Key)
			c.count("lookup.present")
		}
		var probes []uint64
		probes = append(probes, 0, ^uint64(0), 1, r.Next())
		if len(items) > 0 {
			lo, hi := items[0].Keyhash, items[len(items)-1].Keyhash
			probes = append(probes, lo-1, lo+1, hi-1, hi+1, lo/2+hi/2)
			probes = append(probes, items[r.Intn(len(items))].Keyhash+1)
		}
		for _, kh := range probes {
			hintLookup(c, path, kh, "absent-key")
			c.count("lookup.absent-hash")
		}
		for i := 0; i < 4 && len(items) > 0; i++ { // equal hash, different key
			it := items[r.Intn(len(items))]
			hintLookup(c, path, it.Keyhash, it.Key+"x")
			hintLookup(c, path, it.Keyhash, "\x01")
			c.count("lookup.same-hash-other-key")
		}
		os.Remove(path)
		// merge of 1..8 sources with duplicates across files and same-hash groups
		if ci%2 == 0 {
			ns := 1 + r.Intn(8)
			pool := genHintItems(r, 3+r.Intn(40))
			var srcs [][]store.VerifHintItem
			var chunks []int
			// one case in five: sources may repeat a chunk id and offsets come from a tiny range, so that the same key
			// occurs with the SAME position in two sources (a tie: which copy survives depends on the heap; only the
			// step-by-step model is compared there, the specification is stated for tie-free inputs)
			tieCase := r.Chance(20)
			offRange := 1000
			if tieCase {
				offRange = 3
				c.count("merges-with-repeated-chunk-ids")
			}
			for s := 0; s < ns; s++ {
				var src []store.VerifHintItem
				emptySrc := r.Chance(6) // a hint file without items among the sources
				for _, it := range pool {
					if r.Chance(55) && !emptySrc {
						it.Offset = uint32(r.Intn(offRange)) << 8
						it.Ver = int32(1 + r.Intn(50))
						src = append(src, it)
					}
				}
				if len(src) == 0 && !r.Chance(50) {
					src = append(src, pool[0])
				}
				if len(src) == 0 {
					c.count("merge-source-without-items")
				}
				srcs = append(srcs, src)
				if tieCase && s > 0 && r.Chance(50) {
					chunks = append(chunks, chunks[s-1])
				} else {
					chunks = append(chunks, s*2+r.Intn(2))
				}
			}
			forGC := r.Chance(30)
			if forGC {
				c.count("merges-for-gc")
			}
			hintMerge(c, dir, srcs, chunks, forGC)
			c.count("merges")
		}
		c.line("end")
	}
}

func hintReplay(c *Ctx, dir, path string) {
	var items []store.VerifHintItem
	for _, l := range replayLines(c.replay) {
		switch l.op {
		case "case":
			for _, a := range l.args {
				if strings.HasPrefix(a, "interval=") {
					v, _ := strconv.ParseInt(a[9:], 10, 64)
					store.Conf.IndexIntervalSize = v
				}
			}
			c.line("%s", l.raw)
		case "hwrite":
			var ds uint64
			for _, a := range l.args {
				if strings.HasPrefix(a, "ds=") {
					ds, _ = strconv.ParseUint(a[3:], 10, 32)
				}
				if strings.HasPrefix(a, "items=") {
					items = parseItems(a[6:])
				}
			}
			hintObserveFile(c, path, items, uint32(ds))
		case "hlookup":
			kh, _ := strconv.ParseUint(l.args[0], 10, 64)
			hintLookup(c, path, kh, string(unhx(l.args[1])))
		case "hmerge":
			var srcs [][]store.VerifHintItem
			var chunks []int
			forGC := len(l.args) > 0 && l.args[0] == "gc"
			if forGC {
				l.args = l.args[1:]
			}
			for _, a := range l.args {
				kv := strings.SplitN(a, "=", 2)
				ck, _ := strconv.Atoi(kv[0])
				chunks = append(chunks, ck)
				srcs = append(srcs, parseItems(kv[1]))
			}
			hintMerge(c, dir, srcs, chunks, forGC)
		case "end":
			c.line("end")
		}
	}
}
