package main

import (
	"fmt"
	"os"
	"path/filepath"
	"strconv"
	"strings"
	"sync/atomic"
	"time"

	"github.com/douban/gobeansdb/cmem"
	"github.com/douban/gobeansdb/store"
)

// engine concgc (C05): CONTROLLED-SCHEDULE confirmation of the counterexamples of Model/ConcGC.lean on the REAL store.
//
// Client goroutines (set / get / dataStore.flush) are the threads of engine concfine (same hook points, same parking:
// see concfine.go); in addition ONE real GC pass runs in its own goroutine — `HStore.VerifGCRun` (= GCMgr.gc, what
// HStore.GC starts with `go`), or, for `gcstart b e api`, the real request path HStore.GC whose spawned goroutine is
// adopted at its first hook point — and is parked at one hook point per micro-step of the model (`ConcGC.GPC`):
//
//   hook point (store/gc.go, datachunk.go)                                   label (ConcGC.gpcLabel) = the step taken NEXT
//   cg.begin     before dstchunk.beginGCWriting(gc.Begin)                     gc.begin
//   cg.file      first line of the per-file loop body / after the loop        gc.file
//   cg.open      before datas.GetStreamReader(gc.Src)                         gc.open
//   cg.next      before r.Next()                                              gc.next
//   cg.check     before htree.get (newest-check)                              gc.check
//   cg.endw      before endGCWriting of a full destination (+ gc.Dst++)       gc.endw
//   cg.beginw    before beginGCWriting(gc.Src) of the next destination        gc.beginw
//   cg.head      AppendRecordGC, before dc.Lock()                             gc.head
//   cg.buf       AppendRecordGC, after dc.Unlock(), before gcWriter.append    gc.buf
//   cg.flush     AppendRecordGC, before gcWriter.wbuf.Flush()                 gc.flush
//   cg.move      before UpdateHtreePos (only `if found`)                      gc.move
//   cg.clearmem  before chunks[gc.Src].Clear()                                gc.clearmem
//   cg.remove    in Clear, before utils.Remove(path)                          gc.remove
//   cg.tail      first line of dropStaleTail                                  gc.tail
//   gc.file.done (existing) after Clear / dropStaleTail, NextGCChunk          gc.filedone
//   cg.final     first line of the deferred endGCWriting closure              gc.final
//   (pass returned)                                                           gc.done
//
// A schedule is a list of decisions `sched <tid> <act>`; the GC thread is thread 0:
//   sched <t> call write <key#> <val#> <sz> blen=<n> | call delete <key#> <sz> | call read <key#> | call flush <chunk> <force> <late>
//   sched <t> go                       thread t takes its next micro-step (en=0: not enabled / nothing to do, nothing happens)
//   sched 0 gcstart <b> <e> [api]      the pass gc(bkt, b, e) is started and runs to gc.begin
//   sched 0 gcgo                       the GC goroutine takes its next micro-step
//   sched 0 gccancel                   HStore.CancelGC
// After every decision one line records what the real store looks like (fields of concfine + `g=` the GC goroutine:
// label, gc.Src, gc.Dst, gcWriter open, its file position, bytes in its bufio layer, rewriting; `fails=` gets that
// ended in an error so far; `resp=` the reply of an operation that returned at this step).  The trace is replayable
// (-replay file: the decisions are executed again, the observations regenerated).
//
// Without -replay the built-in schedules are run (-mix all | <name>): they are the schedules of `ConcGC.Ex`
// (Lemmas/ConcGC.lean) with record sizes adapted to a configuration the real store accepts (see cgPrograms).

func init() { engines["concgc"] = engineConcGC }

type cgRun struct {
	*cfRun
	gcT      *cfThread
	expectGC int32 // a goroutine spawned by HStore.GC is expected: adopt it at "gc.begin"
	started  bool
	fails    int
	chk      string
	used     map[int]bool
	deleted  bool
}

var curCG *cgRun

// the GC goroutine?
func (g *cgRun) isGC() bool { return g.gcT != nil && atomic.LoadInt64(&g.gcT.gid) == curGID() }

func cgHook(point string, args ...interface{}) {
	g := curCG
	if g == nil || atomic.LoadInt32(&g.free) != 0 {
		cfHook(point, args...)
		return
	}
	if point == "gc.begin" && atomic.CompareAndSwapInt32(&g.expectGC, 1, 0) {
		// the goroutine `go store.gcMgr.gc(...)` of HStore.GC: it becomes the GC thread
		atomic.StoreInt64(&g.gcT.gid, curGID())
		return
	}
	if !g.isGC() {
		cfHook(point, args...)
		return
	}
	t := g.gcT
	i := func(n int) int { return args[n].(int) }
	pos := func(n int) string { return cfPos(args[n].(store.Position)) }
	switch point {
	case "cg.begin":
		g.park(t, "gc.begin", fmt.Sprintf("dst=%d", i(0)), nil)
	case "cg.file":
		g.park(t, "gc.file", fmt.Sprintf("src=%d", i(0)), nil)
	case "cg.open":
		g.park(t, "gc.open", fmt.Sprintf("src=%d", i(0)), nil)
	case "cg.next":
		g.park(t, "gc.next", fmt.Sprintf("src=%d", i(0)), nil)
	case "cg.check":
		g.park(t, "gc.check", fmt.Sprintf("%s@%s", g.keyName(args[0].(string)), pos(1)), nil)
	case "cg.endw":
		g.park(t, "gc.endw", fmt.Sprintf("dst=%d", i(0)), nil)
	case "cg.beginw":
		g.park(t, "gc.beginw", fmt.Sprintf("dst=%d,src=%d", i(0), i(1)), nil)
	case "cg.head":
		g.park(t, "gc.head", fmt.Sprintf("dst=%d", i(0)), nil)
	case "cg.buf":
		g.park(t, "gc.buf", fmt.Sprintf("%d:%s", i(0), cfBlk(args[1].(uint32))), nil)
	case "cg.flush":
		g.park(t, "gc.flush", fmt.Sprintf("dst=%d", i(0)), nil)
	case "cg.move":
		g.park(t, "gc.move", fmt.Sprintf("%s@%s->%s", g.keyName(args[0].(string)), pos(1), pos(2)), nil)
	case "cg.clearmem":
		g.park(t, "gc.clearmem", fmt.Sprintf("src=%d", i(0)), nil)
	case "cg.remove":
		g.park(t, "gc.remove", fmt.Sprintf("src=%d", i(0)), nil)
	case "cg.tail":
		g.park(t, "gc.tail", fmt.Sprintf("dst=%d", i(0)), nil)
	case "gc.file.done":
		g.park(t, "gc.filedone", fmt.Sprintf("src=%d", i(0)), nil)
	case "cg.final":
		g.park(t, "gc.final", fmt.Sprintf("dst=%d", i(0)), nil)
	case "gc.end":
		if t.spawned { // started through HStore.GC: nobody waits for the return of GCMgr.gc
			t.label, t.loc = "gc.done", ""
			g.msgs <- cfMsg{kind: cfDone, t: t, out: "gcdone"}
		}
	}
}

// key# of a key string (for the trace)
func (g *cgRun) keyName(k string) string {
	for _, x := range g.keys {
		if x == k {
			return strings.TrimRight(x, "x") // the long keys are padded with x
		}
	}
	return "key?"
}

// ---- client goroutines: concfine's, except that a get also reports the body it found and what
// StorageClient.Get (gobeansdb/store.go) makes of the payload: a payload with Ver < 0 is a miss, any other an item ----

func (g *cgRun) threadMain(t *cfThread) {
	t.gid = curGID()
	g.gids.Store(t.gid, t)
	g.msgs <- cfMsg{kind: cfReady, t: t}
	for op := range t.cmd {
		if op.kind == 'r' {
			g.doRead(t, op)
		} else {
			g.doOp(t, op)
		}
	}
}

func (g *cgRun) doRead(t *cfThread, op *cfOp) {
	finished := false
	defer func() {
		if !finished {
			msg := "goexit"
			if r := recover(); r != nil {
				msg = fmt.Sprint(r)
			}
			t.label, t.mu = "dead", nil
			g.msgs <- cfMsg{kind: cfDone, t: t, fatal: msg}
		}
	}()
	out, info := "", ""
	ki := store.NewKeyInfoFromBytes([]byte(g.keys[op.key]), 0, false)
	payload, _, err := g.hs.Get(ki, false)
	switch {
	case err != nil:
		out = "err:" + strings.ReplaceAll(g.san(err.Error()), " ", "_")
	case payload == nil:
		out, info = "got:0,0", "client=miss"
	default:
		val := 0 // 0: no body
		if len(payload.Body) > 0 {
			val = concValID(payload.Body)
		}
		cl := "item"
		if payload.Ver < 0 {
			cl = "miss"
		}
		out = fmt.Sprintf("got:%d,%d", val, cfAbs(payload.Ver))
		info = fmt.Sprintf("ver=%d,body=%dB,client=%s", payload.Ver, len(payload.Body), cl)
		cmem.DBRL.GetData.SubSizeAndCount(payload.CArray.Cap)
		payload.CArray.Free()
	}
	finished = true
	t.label, t.loc, t.mu, t.fw = "idle", info, nil, nil
	g.msgs <- cfMsg{kind: cfDone, t: t, out: out}
}

// the scratch directory does not belong into a replayable trace
func (g *cgRun) san(s string) string { return strings.ReplaceAll(s, g.s.cfg.home, "HOME") }

// ---- the GC goroutine (VerifGCRun mode) ----

func (g *cgRun) gcMain(t *cfThread) {
	atomic.StoreInt64(&t.gid, curGID())
	g.msgs <- cfMsg{kind: cfReady, t: t}
	for op := range t.cmd {
		g.doGC(t, op)
	}
}

func (g *cgRun) doGC(t *cfThread, op *cfOp) {
	finished := false
	defer func() {
		if !finished { // a Go panic, or runtime.Goexit after logger.Fatalf: the real process would be gone
			msg := "goexit"
			if r := recover(); r != nil {
				msg = fmt.Sprint(r)
			}
			t.label, t.mu = "dead", nil
			g.msgs <- cfMsg{kind: cfDone, t: t, fatal: msg}
		}
	}()
	st := g.hs.VerifGCRun(0, op.key, op.val, false)
	out := "gcdone:ok"
	if st.Err != nil {
		out = "gcdone:err:" + strings.ReplaceAll(g.san(st.Err.Error()), " ", "_")
	}
	finished = true
	t.label, t.loc = "gc.done", ""
	g.msgs <- cfMsg{kind: cfDone, t: t, out: out}
}

// ---- observation ----

func (g *cgRun) gobs() string {
	o := g.hs.VerifGCObs(0)
	lab, loc := "gc.idle", "-"
	if g.gcT != nil {
		lab, loc = g.gcT.label, cfLoc(g.gcT.loc)
	}
	if o.Passes == 0 {
		return fmt.Sprintf("g=%s gloc=%s gsrc=- gdst=- gw=0 gpos=0 gbuf=0 grw=0 gcancel=0 fails=%d", lab, loc, g.fails)
	}
	return fmt.Sprintf("g=%s gloc=%s gsrc=%d gdst=%d gw=%s gpos=%s gbuf=%s grw=%s gcancel=%s fails=%d", lab, loc, o.Src, o.Dst,
		b01(o.WOpen), cfBlk(uint32(o.WPos)), cfBlk(uint32(o.Buffered)), b01(o.Rewriting), b01(o.Cancel), g.fails)
}

func (g *cgRun) obsLine(t *cfThread, act string, en int, resp string) {
	lab, loc := "-", "-"
	if t != nil && t != g.gcT {
		lab, loc = t.label, cfLoc(t.loc)
	}
	tid := 0
	if t != nil {
		tid = t.tid
	}
	if resp == "" {
		resp = "-"
	}
	if f := theHub.takeFatal(); f != "" {
		g.fatal = true
		g.c.line("#fatal %s", strings.ReplaceAll(g.san(f), "\n", " "))
	}
	g.c.line("sched %d %s => en=%d lab=%s loc=%s clk=%d %s %s resp=%s", tid, act, en, lab, loc, g.clk, g.observe(), g.gobs(), resp)
}

// ---- decisions ----

// a response of a client operation: history bookkeeping (concfine's), count of failed gets
func (g *cgRun) respond(t *cfThread, resp string, now int) string {
	if t.label == "idle" && t.cur != nil && t.cur.kind == 'r' && strings.HasPrefix(resp, "err:") {
		g.fails++
	}
	return g.finish(t, resp, now)
}

// client decision: op != nil: invocation; else the next micro-step
func (g *cgRun) client(t *cfThread, op *cfOp) bool {
	if op == nil && (t.label == "idle" || t.label == "dead") {
		g.obsLine(t, "go", 0, "")
		return true
	}
	if op == nil && !g.enabled(t) {
		if t.mu == nil || cfFree(t.mu) {
			g.note("thread %d at %s: held for disabled but the mutex it is about to lock is free", t.tid, t.label)
		}
		g.obsLine(t, "go", 0, "")
		return true
	}
	if op != nil && t.label != "idle" {
		g.note("thread %d is invoked while it is at %s: not executed", t.tid, t.label)
		return false
	}
	now, from, act := g.clk, t.label, "go"
	if op != nil {
		act = op.String()
		t.cur, t.inv = op, now
		t.cmd <- op
	} else {
		if from == "f.ds1" && t.cur != nil {
			g.hs.VerifSetLastFlush(0, t.cur.late)
		}
		t.resume <- struct{}{}
	}
	resp, spawned, ok := g.await(t)
	if !ok {
		g.note("thread %d released at %s (%s) did not arrive", t.tid, from, act)
		return false
	}
	g.clk++
	g.passed(t, from)
	theHub.mu.Lock()
	died := theHub.fatal != ""
	theHub.mu.Unlock()
	if died || t.label == "dead" { // logger.Fatalf in this step: Goexit ran the deferred unlocks; the real process is gone
		for i := range g.own {
			if g.own[i] == t.tid {
				g.own[i] = 0
			}
		}
	}
	resp = g.respond(t, resp, now)
	g.obsLine(t, act, 1, resp)
	g.c.count("cg.step." + from)
	for _, n := range spawned { // the goroutine of `go ds.flush(newHead-1, true)`: a new thread, parked at f.pre
		g.threads = append(g.threads, n)
		n.cur = &cfOp{kind: 'f', chunk: n.fchunk, force: true}
		n.inv = g.clk
		g.clk++
		g.nSpawn++
		g.obsLine(n, fmt.Sprintf("spawn flush %d 1 0", n.fchunk), 1, "")
	}
	return true
}

// gcstart: the pass gc(bkt, b, e).  `chk=` is what the request path's range check (gcCheckRange with noGCDays = 0,
// the values are old enough) says about the request.  api: through HStore.GC (refused requests: en=0).
func (g *cgRun) gcStart(b, e int, api bool) bool {
	act := fmt.Sprintf("gcstart %d %d", b, e)
	if api {
		act += " api"
	}
	head, _, _ := g.hs.VerifDataObs(0)
	var cb, ce int
	var cerr error
	if g.deleted { // a delete marker carries the wall clock as its timestamp: old enough for noGCDays = 0 one second later
		time.Sleep(1100 * time.Millisecond)
	}
	guard(func() { cb, ce, cerr = g.hs.VerifGCCheckRange(0, b, e, 0) })
	if cerr != nil {
		g.chk = "REFUSED:" + strings.ReplaceAll(cerr.Error(), " ", "_")
	} else {
		g.chk = fmt.Sprintf("%d,%d", cb, ce)
	}
	if g.started || !(b <= e && e < head) { // one pass per case; ranges the model refuses as well
		g.obsLine(g.gcT, act+" chk="+g.chk, 0, "")
		return true
	}
	t := g.gcT
	if api {
		t.spawned = true
		atomic.StoreInt32(&g.expectGC, 1)
		var err error
		p := guard(func() { _, _, err = g.hs.GC(0, b, e, 0, false, false) })
		if p != "" || err != nil {
			atomic.StoreInt32(&g.expectGC, 0)
			g.obsLine(t, act+" chk="+g.chk, 0, "refused:"+strings.ReplaceAll(fmt.Sprint(p, err), " ", "_"))
			return true
		}
	} else {
		t.cmd <- &cfOp{kind: 'g', key: b, val: e}
	}
	g.started = true
	resp, _, ok := g.await(t)
	if !ok {
		g.note("the GC goroutine did not reach gc.begin")
		return false
	}
	g.clk++
	g.obsLine(t, act+" chk="+g.chk, 1, resp)
	return true
}

func (g *cgRun) gcGo() bool {
	t := g.gcT
	if !g.started || t.label == "gc.done" || t.label == "dead" || t.label == "gc.idle" {
		g.obsLine(t, "gcgo", 0, "")
		return true
	}
	from := t.label
	t.resume <- struct{}{}
	resp, _, ok := g.await(t)
	if !ok {
		g.note("the GC goroutine released at %s did not arrive", from)
		return false
	}
	g.clk++
	g.obsLine(t, "gcgo", 1, resp)
	g.c.count("cg.step." + from)
	return true
}

func (g *cgRun) gcCancel() bool {
	src, dst := -1, -1
	guard(func() { src, dst = g.hs.CancelGC(0) })
	g.clk++
	g.obsLine(g.gcT, "gccancel", 1, fmt.Sprintf("cancel:%d,%d", src, dst))
	return true
}

type cgDecision struct {
	tid  int
	act  string // call, go, gcstart, gcgo, gccancel
	op   *cfOp
	b, e int
	api  bool
}

type cgParams struct {
	id      string
	dfmax   int // blocks
	bodymax int // bytes
	nt      int
	bufio   int
	keys    []string
	note    string
}

// a direct get (no scheduling): after the schedule, when everything has stopped
func (g *cgRun) plainGet(key string) string {
	var out string
	p := guard(func() {
		ki := store.NewKeyInfoFromBytes([]byte(key), 0, false)
		payload, _, err := g.s.hs.Get(ki, false)
		switch {
		case err != nil:
			out = "err:" + strings.ReplaceAll(g.san(err.Error()), " ", "_")
		case payload == nil:
			out = "got:0,0"
		default:
			val := 0
			if payload.Ver > 0 {
				val = concValID(payload.Body)
			}
			out = fmt.Sprintf("got:%d,%d", val, cfAbs(payload.Ver))
			cmem.DBRL.GetData.SubSizeAndCount(payload.CArray.Cap)
			payload.CArray.Free()
		}
	})
	if p != "" {
		out = "panic:" + strings.ReplaceAll(p, " ", "_")
	}
	return out
}

func cgCase(c *Ctx, p cgParams, home string, script []cgDecision) {
	os.RemoveAll(home)
	os.MkdirAll(home, 0o755)
	defer os.RemoveAll(home)
	cfg := seqCfg{home: home, nb: 1, served: []int{0}, height: 3}
	cfg.dfmax = int64(p.dfmax) * 256
	cfg.splitCap = 4096
	cfg.idxInt = 4096
	cfg.bodyInC = 4096
	cfg.bodyMax = int64(p.bodymax)
	cfg.listKey = 256
	s := &seqStore{cfg: cfg}
	curStore = s
	defer func() { curStore = nil }()
	var hk []string
	for _, k := range p.keys {
		hk = append(hk, hx([]byte(k)))
	}
	if p.note != "" {
		c.line("note %s", p.note)
	}
	c.line("case %s dfmax=%d bodymax=%d keys=%s nt=%d bufio=%d", p.id, p.dfmax, p.bodymax, strings.Join(hk, ","), p.nt, p.bufio)
	c.count("case.concgc")
	curCF, curCG = nil, nil
	theHub.takeFatal()
	if err := s.open(); err != nil {
		c.line("open => REFUSED %v", err)
		c.line("end ok=0 decisions=0")
		return
	}
	store.Conf.BufIOCap = p.bufio
	run := &cfRun{c: c, hs: s.hs, s: s, keys: p.keys, msgs: make(chan cfMsg, 64), clk: 1}
	run.locks[0], run.locks[1], run.locks[2] = s.hs.VerifLocks(0)
	g := &cgRun{cfRun: run, used: map[int]bool{}}
	curCF, curCG = run, g
	defer func() { curCF, curCG = nil, nil }()
	for i := 0; i < p.nt; i++ {
		t := &cfThread{tid: int(atomic.AddInt32(&run.nextTid, 1)), kind: '*', resume: make(chan struct{}), cmd: make(chan *cfOp), label: "idle"}
		run.threads = append(run.threads, t)
		go g.threadMain(t)
		<-run.msgs // ready
	}
	g.gcT = &cfThread{tid: 0, kind: 'g', resume: make(chan struct{}), cmd: make(chan *cfOp), label: "gc.idle"}
	go g.gcMain(g.gcT)
	<-run.msgs
	ok := true
	for _, d := range script {
		switch d.act {
		case "gcstart":
			ok = g.gcStart(d.b, d.e, d.api)
		case "gcgo":
			ok = g.gcGo()
		case "gccancel":
			ok = g.gcCancel()
		case "gcfinish": // built-in schedules only: the pass runs to its end (written out as single gcgo decisions)
			for ok && !run.fatal && g.started && g.gcT.label != "gc.done" && g.gcT.label != "dead" {
				ok = g.gcGo()
			}
		case "finish": // built-in schedules only: thread tid runs until its operation has returned
			t := run.thread(d.tid)
			for ok && !run.fatal && t != nil && t.label != "idle" && t.label != "dead" && g.enabled(t) {
				ok = g.client(t, nil)
			}
		default:
			t := run.thread(d.tid)
			if t == nil {
				run.note("unknown thread %d", d.tid)
				ok = false
				break
			}
			if d.op != nil {
				if d.op.kind == 'w' {
					d.op.body = cfBody(d.op.val, d.op.blen)
					d.op.sz = len(store.VerifEncodeRecord([]byte(p.keys[d.op.key]), d.op.body, 0, 1, 0))/256 - 1
				}
				if d.op.kind != 'f' {
					g.used[d.op.key] = true
				}
				if d.op.kind == 'd' {
					g.deleted = true
				}
			}
			ok = g.client(t, d.op)
		}
		if !ok || run.fatal {
			break
		}
	}
	// end of the schedule: whatever is still parked is scheduled to its end, one goroutine at a time (the GC pass first,
	// then the threads by number): these decisions are part of the trace like any other
	for ok && !run.fatal && g.started && g.gcT.label != "gc.done" && g.gcT.label != "dead" {
		ok = g.gcGo()
	}
	for progress := true; ok && !run.fatal && progress; {
		progress = false
		for _, t := range append([]*cfThread{}, run.threads...) {
			for ok && !run.fatal && t.label != "idle" && t.label != "dead" && g.enabled(t) {
				ok = g.client(t, nil)
				progress = true
			}
		}
	}
	atomic.StoreInt32(&run.free, 1)
	if run.fatal { // the process has exited: the parked goroutines stay where they are (they are abandoned with the store)
		c.line("drain => fatal=1 (process exit: nothing runs any more) %s", g.gobs())
		for _, e := range run.evs {
			c.line("ev key=%s cl=%d op=%c val=%d inv=%d resp=%d ver=%d state=%s", e.key, e.cl, e.op, e.val, e.inv, e.resp, e.ver, cgState(e.state))
		}
		c.line("final => skipped (fatal exit)")
		for _, t := range run.threads {
			if t.label == "idle" && t.cmd != nil {
				close(t.cmd)
			}
		}
		curCF, curCG = nil, nil
		c.line("end ok=%s decisions=%d fatal=1 fails=%d disagree=%d", b01(ok), run.clk-1, g.fails, run.disagree)
		return
	}
	stuck := 0
	for _, t := range append([]*cfThread{g.gcT}, run.threads...) {
		if t.label != "idle" && t.label != "dead" && t.label != "gc.idle" && t.label != "gc.done" {
			stuck++
			close(t.resume)
		}
		if t.cmd != nil {
			close(t.cmd)
		}
	}
	if stuck > 0 {
		run.note("%d goroutines were still parked when the case ended", stuck)
		time.Sleep(100 * time.Millisecond)
	}
	if f := theHub.takeFatal(); f != "" {
		run.fatal = true
		c.line("#fatal %s", strings.ReplaceAll(g.san(f), "\n", " "))
	}
	c.line("drain => fatal=%s %s", b01(run.fatal), g.gobs())
	for _, e := range run.evs {
		c.line("ev key=%s cl=%d op=%c val=%d inv=%d resp=%d ver=%d state=%s", e.key, e.cl, e.op, e.val, e.inv, e.resp, e.ver, cgState(e.state))
	}
	if run.fatal {
		c.line("final => skipped (fatal exit in the free run)")
	} else {
		g.finals(p)
	}
	curCF, curCG = nil, nil
	c.line("end ok=%s decisions=%d fatal=%s fails=%d disagree=%d", b01(ok), run.clk-1, b01(run.fatal), g.fails, run.disagree)
}

// what every key holds when everything has stopped, and after a restart (not after a Fatalf: the process is gone)
func (g *cgRun) finals(p cgParams) {
	c := g.c
	for i, k := range p.keys {
		if g.used[i] {
			c.line("final key=%d => %s", i, g.plainGet(k))
		}
	}
	c.line("files =>%s", g.files())
	guard(func() { g.s.hs.Close() })
	if f := theHub.takeFatal(); f != "" {
		c.line("#fatal at close: %s", strings.ReplaceAll(f, "\n", " "))
	}
	if err := g.s.open(); err != nil {
		c.line("restart => REFUSED %v", err)
		return
	}
	for i, k := range p.keys {
		if g.used[i] {
			c.line("restart key=%d => %s", i, g.plainGet(k))
		}
	}
	guard(func() { g.s.hs.Close() })
	theHub.takeFatal()
}

func cgState(st string) string {
	if st == "" {
		return "ok"
	}
	return st
}

// the data files as an independent scan sees them: chunk:blocks:[offset:key#:version,...]
func (g *cgRun) files() string {
	var sb strings.Builder
	paths, _ := filepath.Glob(filepath.Join(g.s.cfg.home, "[0-9][0-9][0-9].data"))
	for _, p := range paths {
		items, size, ok := indepScan(p)
		if !ok {
			continue
		}
		ck, _ := strconv.Atoi(filepath.Base(p)[:3])
		fmt.Fprintf(&sb, " %d:%s:[", ck, cfBlk(uint32(size)))
		for i, it := range items {
			if i > 0 {
				sb.WriteByte(',')
			}
			fmt.Fprintf(&sb, "%s:%s:%d", cfBlk(it.off), g.keyName(string(it.key)), it.ver)
		}
		sb.WriteByte(']')
	}
	return sb.String()
}

// -replay: the decisions of a recorded trace (or of a hand-written schedule) are executed on the real code
func cgReplay(c *Ctx, home string) {
	var p cgParams
	var script []cgDecision
	have, note := false, ""
	kv := func(ws []string, name string) string {
		for _, w := range ws {
			if strings.HasPrefix(w, name+"=") {
				return w[len(name)+1:]
			}
		}
		return ""
	}
	atoi := func(s string) int { n, _ := strconv.Atoi(s); return n }
	for _, l := range replayLines(c.replay) {
		switch l.op {
		case "note":
			note = strings.TrimPrefix(l.raw, "note ")
		case "case":
			p = cgParams{note: note, id: l.args[0], dfmax: atoi(kv(l.args, "dfmax")), bodymax: atoi(kv(l.args, "bodymax")), nt: atoi(kv(l.args, "nt")), bufio: atoi(kv(l.args, "bufio"))}
			for _, k := range strings.Split(kv(l.args, "keys"), ",") {
				p.keys = append(p.keys, string(unhx(k)))
			}
			script, have, note = nil, true, ""
		case "sched":
			a := l.args
			d := cgDecision{tid: atoi(a[0]), act: a[1]}
			switch a[1] {
			case "spawn":
				continue // happens by itself
			case "gcstart":
				d.b, d.e = atoi(a[2]), atoi(a[3])
				d.api = len(a) > 4 && a[4] == "api"
			case "call":
				switch a[2] {
				case "write":
					d.op = &cfOp{kind: 'w', key: atoi(a[3]), val: atoi(a[4]), sz: atoi(a[5]), blen: atoi(kv(a, "blen"))}
				case "delete":
					d.op = &cfOp{kind: 'd', key: atoi(a[3]), sz: atoi(a[4])}
				case "read":
					d.op = &cfOp{kind: 'r', key: atoi(a[3])}
				case "flush":
					d.op = &cfOp{kind: 'f', chunk: atoi(a[3]), force: a[4] == "1", late: a[5] == "1"}
				}
			}
			script = append(script, d)
		case "end":
			if have {
				cgCase(c, p, home, script)
				have = false
			}
		}
	}
}

func engineConcGC(c *Ctx) {
	store.VerifHook = cgHook
	base := c.work
	if base == "" {
		base, _ = os.MkdirTemp("", "hxcg")
		defer os.RemoveAll(base)
	}
	home := filepath.Join(base, "home")
	if c.replay != "" {
		cgReplay(c, home)
		return
	}
	for _, pr := range cgPrograms() {
		if c.mix == "full" || c.mix == "all" || c.mix == pr.p.id {
			cgCase(c, pr.p, home, pr.script)
		}
	}
}

// ---- built-in schedules: `ConcGC.Ex` of Lemmas/ConcGC.lean on a configuration the real store accepts ----
//
// The Lean examples use DataFileMax = 6 blocks and BodyMax = 0.  The real store needs BodyMax >= every body
// (config.IsValidValueSize in DataStreamReader.Next), and GC's "is the file before the range full" test is
// size < DataFileMax - BodyMax (gc.go:226).  Here: DataFileMax = 6 blocks, BodyMax = 768 bytes = 3 blocks.  A file of 2
// blocks is then "not full" for GC, and a client still rotates away from it when it writes a 5-block record (768-byte
// body under a 240-byte key: 24 + 240 + 768 = 1032 bytes).  The keys called keyNL below are such long keys.  The
// order of the micro-steps is that of the Lean schedules; thread numbers as there (1, 4 writers; 2, 5 readers;
// 3 flusher); the goroutines `go ds.flush(newHead-1, true)` of the rotations become threads 6, 7, ... parked at f.pre.

type cgProg struct {
	p      cgParams
	script []cgDecision
}

type cgB struct{ ds []cgDecision }

func (b *cgB) gos(t, n int) {
	for i := 0; i < n; i++ {
		b.ds = append(b.ds, cgDecision{tid: t, act: "go"})
	}
}
func (b *cgB) call(t int, op *cfOp) { b.ds = append(b.ds, cgDecision{tid: t, act: "call", op: op}) }

// a whole set: invocation + w.lock w.get w.slot w.append w.dsunlock w.treeset w.unlock
func (b *cgB) wr(t, k, v, blen int) {
	b.call(t, &cfOp{kind: 'w', key: k, val: v, blen: blen})
	b.gos(t, 7)
}

// a whole get: invocation + r.get r.buf (+ r.file if the record is not buffered)
func (b *cgB) rd(t, k int) {
	b.call(t, &cfOp{kind: 'r', key: k})
	b.ds = append(b.ds, cgDecision{tid: t, act: "finish"})
}

// thread t (a goroutine spawned by a rotation, parked at f.pre) runs its flush to the end
func (b *cgB) finish(ts ...int) {
	for _, t := range ts {
		b.ds = append(b.ds, cgDecision{tid: t, act: "finish"})
	}
}
func (b *cgB) gcfinish() { b.ds = append(b.ds, cgDecision{act: "gcfinish"}) }

// a whole flush(chunk, true) of a chunk with n buffered records
func (b *cgB) fl(t, chunk, n int) {
	b.call(t, &cfOp{kind: 'f', chunk: chunk, force: true})
	b.gos(t, 10+2*n)
}
func (b *cgB) gcstart(bg, e int, api bool) {
	b.ds = append(b.ds, cgDecision{act: "gcstart", b: bg, e: e, api: api})
}
func (b *cgB) ggo(n int) {
	for i := 0; i < n; i++ {
		b.ds = append(b.ds, cgDecision{act: "gcgo"})
	}
}

func cgLongKey(name string) string { return name + strings.Repeat("x", 240-len(name)) }

func cgPrograms() []cgProg {
	var out []cgProg
	add := func(id, note string, keys []string, b *cgB) {
		out = append(out, cgProg{cgParams{id: id, dfmax: 6, bodymax: 768, nt: 5, bufio: 1 << 20, keys: keys, note: note}, b.ds})
	}
	keysN := []string{"key1", cgLongKey("key2L"), "key3", "key4"}
	// Ex.setup: file 0 = [key1 (2 blocks)], file 1 = [key2 v1 (5 blocks, superseded), key3 (1 block)], head file 2 = [key2 v2];
	// files 0 and 1 flushed by thread 3.  api: the head file is flushed too and gets one more buffered record, so that
	// the range check of the request path (gcCheckEnd: the file after the range must have bytes on disk) accepts gc(1,1).
	// The post-rotation flushers (threads 6: file 0, 7: file 1) find nothing left to do and return before the pass
	// starts, except the one named by `keep`, which stays parked at f.pre.
	setupN := func(api bool, flush1 bool, keep int) *cgB {
		b := &cgB{}
		b.wr(1, 0, 11, 300)
		b.wr(1, 1, 12, 764)
		b.wr(1, 2, 13, 0)
		b.wr(1, 1, 22, 0)
		b.fl(3, 0, 1)
		if flush1 {
			b.fl(3, 1, 2)
		}
		if api {
			b.fl(3, 2, 1)
			b.wr(1, 3, 14, 0)
		}
		for _, t := range []int{6, 7} {
			if t != keep {
				b.finish(t)
			}
		}
		return b
	}
	for _, api := range []bool{false, true} {
		sfx := ""
		if api {
			sfx = "-api"
		}
		// positive control: a write inside the window between newest-check and repoint, nobody parked across the pass
		b := setupN(api, true, 0)
		b.gcstart(1, 1, api)
		b.ggo(7)
		b.wr(4, 2, 33, 0)
		b.ggo(10)
		b.rd(5, 2)
		b.rd(5, 0)
		b.rd(5, 1)
		add("control"+sfx, "positive control (Ex.schedN without the parked reader): gc(1,1) into file 0, key3 rewritten between newest-check and repoint", keysN, b)
		// Ex.schedN / ce_stale_reader_fails
		b = setupN(api, true, 0)
		b.gcstart(1, 1, api)
		b.ggo(7)
		b.call(2, &cfOp{kind: 'r', key: 2})
		b.gos(2, 1)
		b.wr(4, 2, 33, 0)
		b.ggo(10)
		b.gos(2, 2)
		b.rd(5, 2)
		add("stale-reader"+sfx, "Ex.schedN (ce_stale_reader_fails): reader 2 takes key3's position before the repoint and reads after Clear removed file 1", keysN, b)
		// ce_coldflush_fatal: the flusher is the goroutine spawned by the rotation 0 -> 1 (thread 6, parked at f.pre since then)
		b = setupN(api, true, 6)
		b.gcstart(1, 1, api)
		b.ggo(7)
		b.gos(6, 4)
		b.ggo(1)
		b.gos(6, 1)
		add("coldflush"+sfx, "ce_coldflush_fatal: the delayed `go ds.flush(0, true)` of the rotation (thread 6) opens file 0, GC bumps size (gc.head), the flusher compares", keysN, b)
		// ce_unflushed_lost: file 1 has never been flushed
		b = setupN(api, false, 7)
		b.gcstart(1, 1, api)
		b.gcfinish()
		b.rd(5, 2)
		add("unflushed"+sfx, "ce_unflushed_lost: gc(1,1) while the records of file 1 are still in its write buffer (its post-rotation flush, thread 7, has not run)", keysN, b)
	}
	out = append(out, cgProgramsMore()...)
	return out
}

func cgProgramsMore() []cgProg {
	var out []cgProg
	add := func(id, note string, keys []string, b *cgB) {
		out = append(out, cgProg{cgParams{id: id, dfmax: 6, bodymax: 768, nt: 5, bufio: 1 << 20, keys: keys, note: note}, b.ds})
	}
	keysN := []string{"key1", cgLongKey("key2L"), "key3", "key4"}
	for _, api := range []bool{false, true} {
		sfx := ""
		if api {
			sfx = "-api"
		}
		// F25 as the real code has it: file 1 was flushed ONCE while it was the head (key2 v1 is on disk), key3 is still
		// in its buffer when the rotation comes, the post-rotation flush (thread 7) has not run
		b := &cgB{}
		b.wr(1, 0, 11, 300)
		b.wr(1, 1, 12, 764)
		b.fl(3, 1, 1) // the periodic flush of the head file (flush(-1) when the head is file 1)
		b.wr(1, 2, 13, 0)
		b.wr(1, 1, 22, 0)
		b.fl(3, 0, 1)
		if api {
			b.fl(3, 2, 1)
			b.wr(1, 3, 14, 0)
		}
		b.finish(6)
		b.gcstart(1, 1, api)
		b.gcfinish()
		b.rd(5, 2)
		add("unflushed-partial"+sfx, "ce_unflushed_lost, variant: file 1 exists (key2 v1 flushed while it was the head), key3 only in its buffer; gc(1,1)", keysN, b)
		// the file exists but is EMPTY: the post-rotation flusher (thread 7) has opened = created it and not written yet
		b = &cgB{}
		b.wr(1, 0, 11, 300)
		b.wr(1, 1, 12, 764)
		b.wr(1, 2, 13, 0)
		b.wr(1, 1, 22, 0)
		b.fl(3, 0, 1)
		if api {
			b.fl(3, 2, 1)
			b.wr(1, 3, 14, 0)
		}
		b.finish(6)
		b.gos(7, 4) // f.pre f.lock f.ds1 f.open: parked at f.check, 001.data created
		b.gcstart(1, 1, api)
		b.gcfinish()
		b.ds = append(b.ds, cgDecision{tid: 7, act: "finish"})
		b.rd(5, 2)
		b.rd(5, 1)
		// not registered any more: since /repo 168eada the pass flushes the files of its range first and therefore WAITS for the
		// flush lock this parked flusher holds - the schedule (GC moving while the flusher stays parked) cannot happen
		_ = b
	}
	// Ex.schedI / ce_inplace_get_fails: file 0 = [key1 v1 (1 block), key2 (3 blocks at offset 1), key1 v2 (1 block)], head = file 1 = [key5]
	keysI := []string{"key1", "key2", "key5", "key4"}
	for _, api := range []bool{false, true} {
		sfx := ""
		if api {
			sfx = "-api"
		}
		b := &cgB{}
		b.wr(1, 0, 11, 0)
		b.wr(1, 1, 12, 600)
		b.wr(1, 0, 21, 0)
		b.wr(1, 2, 15, 300)
		b.fl(3, 0, 3)
		if api {
			b.fl(3, 1, 1)
			b.wr(1, 3, 14, 0)
		}
		b.finish(6)
		b.gcstart(0, 0, api)
		b.ggo(10)
		b.rd(2, 1)
		b.gcfinish()
		b.rd(5, 1)
		b.rd(5, 0)
		add("inplace"+sfx, "Ex.schedI (ce_inplace_get_fails): gc(0,0) rewrites file 0 in place; a get of key2 between the file write (gc.flush) and the repoint (gc.move)", keysI, b)
	}
	// Ex.schedR / ce_reuse_wrong_value: file 0 = [key9 (2 blocks)], file 1 = [key7 v1 (5), key8 v1 (1)], file 2 = [key7 v2 (5), key8 v2 (1)], head 3 = [key6]
	keysR := []string{"key9", cgLongKey("key7L"), "key8", "key6", "key4"}
	for _, api := range []bool{false, true} {
		sfx := ""
		if api {
			sfx = "-api"
		}
		b := &cgB{}
		b.wr(1, 0, 19, 300)
		b.wr(1, 1, 17, 764)
		b.wr(1, 2, 18, 0)
		b.call(2, &cfOp{kind: 'r', key: 1})
		b.gos(2, 1) // r.get: reader 2 holds key7's item (version 1, position 1:0)
		b.wr(1, 1, 27, 764)
		b.wr(1, 2, 28, 0)
		b.wr(1, 3, 16, 0)
		b.fl(3, 0, 1)
		b.fl(3, 1, 2)
		b.fl(3, 2, 2)
		if api {
			b.fl(3, 3, 1)
			b.wr(1, 4, 14, 0)
		}
		b.finish(6, 7, 8)
		b.gcstart(1, 2, api)
		b.ggo(22)
		b.gos(2, 2)
		b.gcfinish()
		b.rd(5, 1)
		add("reuse"+sfx, "Ex.schedR (ce_reuse_wrong_value): reader 2 parked with key7's OLD position (1:0, version 1) across gc(1,2), which empties file 1 and refills it (gc.Dst++) with key7's NEW record at 1:0", keysR, b)
	}
	// beyond the model's examples: the same ABA through the IN-PLACE path, with a DELETE marker landing on the old position.
	// file 0 = [key9 (4 blocks)] is full for GC (4 + 3 >= 6), so gc(1,2) rewrites file 1 in place; file 1 = [key7 v1 (3), key8 v1 (3)],
	// file 2 = [key7 delete marker (1), key8 v2 (3)], head 3 = [key6]; nothing of file 1 is kept, it is truncated to 0, and the
	// first kept record of file 2 - the delete marker of key7 - is written at 1:0
	keysD := []string{"key9", "key7", "key8", "key6", "key4"}
	for _, api := range []bool{false, true} {
		sfx := ""
		if api {
			sfx = "-api"
		}
		b := &cgB{}
		b.wr(1, 0, 19, 764)
		b.wr(1, 1, 17, 600)
		b.wr(1, 2, 18, 600)
		b.call(2, &cfOp{kind: 'r', key: 1})
		b.gos(2, 1) // r.get: reader 2 holds key7's item (version 1, position 1:0)
		b.call(1, &cfOp{kind: 'd', key: 1})
		b.gos(1, 7)
		b.wr(1, 2, 28, 600)
		b.wr(1, 3, 16, 600)
		b.fl(3, 0, 1)
		b.fl(3, 1, 2)
		b.fl(3, 2, 2)
		if api {
			b.fl(3, 3, 1)
			b.wr(1, 4, 14, 0)
		}
		b.finish(6, 7, 8)
		b.gcstart(1, 2, api)
		b.ggo(18)
		b.gos(2, 2)
		b.gcfinish()
		b.rd(5, 1)
		add("reuse-delete"+sfx, "beyond Ex.schedR: the in-place variant of the ABA; reader 2 parked with key7's OLD position (1:0, version 1); key7 is DELETED; gc(1,2) rewrites file 1 in place and puts the delete marker at 1:0", keysD, b)
	}
	return out
}
