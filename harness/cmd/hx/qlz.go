package main

// engine qlz (C10, the codec): the two QuickLZ implementations shipped with the server — the C library the store
// uses (quicklz.c, built at QLZ_COMPRESSION_LEVEL 3, QLZ_STREAMING_BUFFER 0, QLZ_MEMORY_SAFE off) and the Go port
// (quicklz.go, levels 1 and 3) — driven directly.
//
//   per case (one generated value):
//     orig <hex>                       the value
//     comp cc|gc1|gc3 => <hex>         CCompress / Go Compress level 1 / level 3        (PANIC, FAIL, NIL possible)
//     hdr  <stream>   => hl= sizeC= sizeD= level= cbit= len=      header fields as the real Go functions read them
//     dec  G|C|Cg <stream> => OK <len> <fnv64> | ERR <class> | CRASH <signal> | HANG
//                                       G  = DecompressSafe (Go, in this process, watchdog)
//                                       C  = CDecompressSafe in a CHILD process, input in an ordinary Go slice
//                                       Cg = the same with the input placed against an unmapped guard page, so that
//                                            any read of the C code past the end of its input is a fault
//     arb <kind> <hex>                 an arbitrary / mutated stream; followed by
//     raw G arb       => OK <len> <fnv64> alloc=<bytes> | PANIC alloc=<bytes>          Decompress itself (no checks)
//     dec G|Cg|C arb  => as above      (C, unguarded, only when the guarded run crashed)
//     big G|C <hex>   => (thorough tier) a 9-byte header announcing 1 GiB, run in the child
//
// A crash of the C code kills the child, never the harness: the parent sees the pipe close, collects the signal
// from the child's exit, records `CRASH`, and starts a new child.  All randomness comes from the RNG of rng.go.
// The Lean driver (Driver/Qlz.lean) replays every line on Model/Qlz.lean (kind=model) and checks the oracles of C10.

import (
	"bufio"
	"bytes"
	"fmt"
	"io"
	"os"
	"os/exec"
	"runtime"
	"strconv"
	"strings"
	"syscall"
	"time"

	"github.com/douban/gobeansdb/config"
	"github.com/douban/gobeansdb/quicklz"
)

func init() {
	engines["qlz"] = engineQlz
	engines["qlzchild"] = engineQlzChild
}

func fnv64b(b []byte) uint64 {
	h := uint64(14695981039346656037)
	for _, x := range b {
		h ^= uint64(x)
		h *= 1099511628211
	}
	return h
}

func okLine(b []byte) string { return fmt.Sprintf("OK %d %d", len(b), fnv64b(b)) }

func qlzErrClass(err error) string {
	s := err.Error()
	switch {
	case strings.HasPrefix(s, "bad sizeCompressed"):
		return "ERR sizeC"
	case strings.HasPrefix(s, "bad sizeDecompressed"):
		return "ERR sizeD"
	case strings.Contains(s, "size") && strings.Contains(s, "!="):
		return "ERR csize" // qlz_decompress returned a size different from the announced one
	case strings.HasPrefix(s, "fail to alloc"):
		return "ERR alloc"
	default:
		return "ERR panic" // a recovered run-time panic
	}
}

// ---------------------------------------------------------------- child: the C decompressor, isolated

// guarded copies b so that it ends exactly at an unmapped page.
func guarded(b []byte) (view []byte, release func()) {
	ps := os.Getpagesize()
	n := (len(b)+ps-1)/ps*ps + ps
	if len(b) == 0 {
		n = 2 * ps
	}
	m, err := syscall.Mmap(-1, 0, n, syscall.PROT_READ|syscall.PROT_WRITE, syscall.MAP_ANON|syscall.MAP_PRIVATE)
	if err != nil {
		panic(err)
	}
	if err := syscall.Mprotect(m[n-ps:], syscall.PROT_NONE); err != nil {
		panic(err)
	}
	end := n - ps
	view = m[end-len(b) : end : end]
	copy(view, b)
	return view, func() { syscall.Munmap(m) }
}

func childEval(mode string, b []byte) string {
	switch mode {
	case "C", "Cg":
		in := b
		if mode == "Cg" {
			var rel func()
			in, rel = guarded(b)
			defer rel()
		}
		arr, err := quicklz.CDecompressSafe(in)
		if err != nil {
			return qlzErrClass(err)
		}
		res := okLine(arr.Body)
		arr.Free()
		return res
	case "bigG":
		var m1, m2 runtime.MemStats
		runtime.ReadMemStats(&m1)
		out, err := quicklz.DecompressSafe(b)
		runtime.ReadMemStats(&m2)
		if err != nil {
			return qlzErrClass(err)
		}
		nz := 0
		for i := 0; i < len(out); i += 4096 * 1024 { // a sample: touching every page of a gigabyte is not the point
			if out[i] != 0 {
				nz++
			}
		}
		return fmt.Sprintf("OK len=%d nonzero-samples=%d alloc=%d", len(out), nz, m2.TotalAlloc-m1.TotalAlloc)
	case "bigC":
		arr, err := quicklz.CDecompressSafe(b)
		if err != nil {
			return qlzErrClass(err)
		}
		n := len(arr.Body)
		arr.Free()
		return fmt.Sprintf("OK len=%d", n)
	}
	return "ERR mode"
}

// engine qlzchild: one request per line on stdin ("<mode> <hex>"), one answer per line on stdout.
func engineQlzChild(c *Ctx) {
	config.MCConf.BodyInC = 4096 // the shipped default ("4K"): larger bodies live in C memory
	rd := bufio.NewReaderSize(os.Stdin, 1<<20)
	for {
		l, err := rd.ReadString('\n')
		l = strings.TrimRight(l, "\n")
		if l != "" {
			ws := strings.Fields(l)
			if len(ws) == 2 {
				fmt.Fprintf(c.out, "%s\n", childEval(ws[0], unhx(ws[1])))
				c.out.Flush()
			}
		}
		if err != nil {
			return
		}
	}
}

type qlzChild struct {
	cmd     *exec.Cmd
	in      io.WriteCloser
	out     *bufio.Reader
	errFile *os.File // the child's stderr (a file, not a pipe: no copying goroutine in the harness)
	served  int
}

func startQlzChild() *qlzChild {
	cmd := exec.Command(os.Args[0], "qlzchild")
	// MALLOC_PERTURB_: glibc fills fresh and freed blocks with a fixed byte, so that what the C decoder makes of
	// uninitialised output memory does not change from run to run (the trace stays reproducible)
	cmd.Env = append(os.Environ(), "MALLOC_PERTURB_=165", "GOMAXPROCS=2", "GOTRACEBACK=none")
	in, _ := cmd.StdinPipe()
	out, _ := cmd.StdoutPipe()
	ef, err := os.CreateTemp("", "hxqlz-stderr")
	if err != nil {
		fmt.Fprintln(os.Stderr, "cannot create temp file:", err)
		os.Exit(2)
	}
	os.Remove(ef.Name())
	cmd.Stderr = ef
	if err := cmd.Start(); err != nil {
		fmt.Fprintln(os.Stderr, "cannot start child:", err)
		os.Exit(2)
	}
	return &qlzChild{cmd: cmd, in: in, out: bufio.NewReaderSize(out, 1<<16), errFile: ef}
}

// Starting a process costs about half a second here (fork/exec and runtime start-up, all of it inside the new
// process).  `Start` itself returns at once, so a few children are started ahead of need — synchronously, without any
// goroutine of the harness running meanwhile (the allocation counters read around `Decompress` are process-wide) —
// and the replacement after a crash has finished initialising by the time it is used.  Which child serves a request
// has no influence on the result.
var qlzPool []*qlzChild
var qlzPoolSize = 0
var qlzZombies []*qlzChild

func qlzTake() *qlzChild {
	t0 := time.Now()
	defer func() { qlzProf["take"] += time.Since(t0) }()
	for len(qlzPool) < qlzPoolSize+1 {
		qlzPool = append(qlzPool, startQlzChild())
	}
	k := qlzPool[0]
	qlzPool = qlzPool[1:]
	return k
}

func qlzPoolStop() {
	for _, k := range qlzPool {
		k.in.Close()
		qlzZombies = append(qlzZombies, k)
	}
	qlzPool = nil
	for _, k := range qlzZombies {
		k.errFile.Close()
		done := make(chan struct{})
		go func() { k.cmd.Wait(); close(done) }()
		select {
		case <-done:
		case <-time.After(5 * time.Second):
			k.cmd.Process.Kill()
			<-done
		}
	}
	qlzZombies = nil
}

// stop: the child exits when its input closes; it is reaped at the end of the run
func (k *qlzChild) stop() {
	k.in.Close()
	qlzZombies = append(qlzZombies, k)
}

// how the child died, from its exit status and the Go runtime's crash banner
func (k *qlzChild) obituary() string {
	err := k.cmd.Wait()
	buf := make([]byte, 4096)
	n, _ := k.errFile.ReadAt(buf, 0)
	k.errFile.Close()
	msg := string(buf[:n])
	sig := ""
	for _, s := range []string{"SIGSEGV", "SIGBUS", "SIGABRT", "SIGILL", "SIGFPE"} {
		if strings.Contains(msg, s) {
			sig = s
			break
		}
	}
	if sig == "" {
		if ee, ok := err.(*exec.ExitError); ok {
			if ws, ok := ee.Sys().(syscall.WaitStatus); ok && ws.Signaled() {
				sig = "signal=" + ws.Signal().String()
			} else {
				sig = fmt.Sprintf("exit=%d", ee.ExitCode())
			}
		} else {
			sig = "exit=0"
		}
		for _, s := range []string{"out of memory", "malloc", "free()", "corrupted", "double free"} {
			if strings.Contains(msg, s) {
				sig += "/" + strings.ReplaceAll(s, " ", "-")
				break
			}
		}
	}
	return strings.ReplaceAll(sig, " ", "-")
}

// ---------------------------------------------------------------- the run

type qlzRun struct {
	c       *Ctx
	orig    []byte
	streams map[string][]byte
	present map[string]bool
	child   *qlzChild
}

const qlzChildLife = 64 // requests served by one child before it is replaced (limits what a silent corruption can reach)

var qlzProf = map[string]time.Duration{}

func (q *qlzRun) ask(mode string, b []byte, timeout time.Duration) (res string) {
	t0 := time.Now()
	defer func() {
		key := "ask-ok"
		if strings.HasPrefix(res, "CRASH") {
			key = "ask-crash"
		}
		qlzProf[key] += time.Since(t0)
		qlzProf[key+"-n"] += 1
	}()
	if q.child != nil && q.child.served >= qlzChildLife {
		q.child.stop()
		q.child = nil
	}
	if q.child == nil {
		q.child = qlzTake()
	}
	k := q.child
	k.served++
	type ans struct {
		s   string
		err error
	}
	ch := make(chan ans, 1)
	go func() {
		if _, err := fmt.Fprintf(k.in, "%s %s\n", mode, hx(b)); err != nil {
			ch <- ans{"", err}
			return
		}
		s, err := k.out.ReadString('\n')
		ch <- ans{strings.TrimRight(s, "\n"), err}
	}()
	select {
	case a := <-ch:
		if a.err != nil || a.s == "" {
			k.in.Close()
			q.child = nil
			return "CRASH " + k.obituary()
		}
		return a.s
	case <-time.After(timeout):
		k.cmd.Process.Kill()
		k.cmd.Wait()
		q.child = nil
		return "HANG"
	}
}

func (q *qlzRun) goSafe(b []byte) string {
	wd := time.AfterFunc(120*time.Second, func() {
		q.c.line("dec G ? => HANG input=%s", hx(b))
		q.c.out.Flush()
		os.Exit(3)
	})
	defer wd.Stop()
	out, err := quicklz.DecompressSafe(b)
	if err != nil {
		return qlzErrClass(err)
	}
	return okLine(out)
}

func (q *qlzRun) goRaw(b []byte) (res string) {
	wd := time.AfterFunc(120*time.Second, func() {
		q.c.line("raw G ? => HANG input=%s", hx(b))
		q.c.out.Flush()
		os.Exit(3)
	})
	defer wd.Stop()
	var m1, m2 runtime.MemStats
	runtime.ReadMemStats(&m1)
	var out []byte
	panicked := false
	func() {
		defer func() {
			if e := recover(); e != nil {
				panicked = true
			}
		}()
		out = quicklz.Decompress(b)
	}()
	runtime.ReadMemStats(&m2)
	alloc := m2.TotalAlloc - m1.TotalAlloc
	if panicked {
		return fmt.Sprintf("PANIC alloc=%d", alloc)
	}
	return fmt.Sprintf("%s alloc=%d", okLine(out), alloc)
}

func (q *qlzRun) stream(name string) ([]byte, bool) {
	b, ok := q.streams[name]
	return b, ok && q.present[name]
}

func hdrLine(b []byte) string {
	res := ""
	p := guard2s(func() {
		hl := 3
		if b[0]&2 == 2 {
			hl = 9
		}
		res = fmt.Sprintf("hl=%d sizeC=%d sizeD=%d level=%d cbit=%d len=%d", hl, quicklz.SizeCompressed(b), quicklz.SizeDecompressed(b), (b[0]>>2)&3, b[0]&1, len(b))
	})
	if p {
		return "PANIC"
	}
	return res
}

func guard2s(f func()) (panicked bool) {
	defer func() {
		if recover() != nil {
			panicked = true
		}
	}()
	f()
	return false
}

// apply evaluates one trace operation on the real code and prints its line.
func (q *qlzRun) apply(op string, args []string) (result string) {
	c := q.c
	switch op {
	case "case":
		q.streams = map[string][]byte{}
		q.present = map[string]bool{}
		q.orig = nil
		c.line("case %s", strings.Join(args, " "))
	case "orig":
		q.orig = unhx(args[0])
		c.line("orig %s", args[0])
	case "comp":
		which := args[0]
		var out []byte
		status := ""
		switch which {
		case "cc":
			// CCompress indexes src[0]: an empty value panics (the store never calls it with one)
			if guard2s(func() {
				arr, ok := quicklz.CCompress(q.orig)
				if !ok {
					status = "FAIL"
					return
				}
				out = append([]byte{}, arr.Body...)
				arr.Free()
			}) {
				status = "PANIC"
			}
		case "gc1", "gc3":
			lvl := 1
			if which == "gc3" {
				lvl = 3
			}
			if guard2s(func() { out = quicklz.Compress(q.orig, lvl) }) {
				status = "PANIC"
			} else if out == nil {
				status = "NIL"
			}
		}
		if status != "" {
			c.line("comp %s => %s", which, status)
			return status
		}
		q.streams[which] = out
		q.present[which] = true
		c.line("comp %s => %s", which, hx(out))
	case "hdr":
		if b, ok := q.stream(args[0]); ok {
			c.line("hdr %s => %s", args[0], hdrLine(b))
		}
	case "arb":
		b := unhx(args[1])
		q.streams["arb"] = b
		q.present["arb"] = true
		c.line("arb %s %s", args[0], args[1])
	case "raw":
		if b, ok := q.stream(args[1]); ok {
			c.line("raw G %s => %s", args[1], q.goRaw(b))
		}
	case "dec":
		b, ok := q.stream(args[1])
		if !ok {
			return
		}
		switch args[0] {
		case "G":
			result = q.goSafe(b)
		case "C", "Cg":
			result = q.ask(args[0], b, 60*time.Second)
		default:
			return
		}
		c.line("dec %s %s => %s", args[0], args[1], result)
	case "big":
		b := unhx(args[1])
		mode := "big" + args[0]
		res := q.ask(mode, b, 120*time.Second)
		// the child that touched a gigabyte is not reused
		if q.child != nil {
			q.child.stop()
			q.child = nil
		}
		c.line("big %s %s => %s", args[0], args[1], res)
	case "end":
		c.line("end")
	}
	return
}

// ---------------------------------------------------------------- generators

var qlzWords = strings.Fields("the of and a to in is you that it he was for on are as with his they I at be this have from or one had by word but not what all were we when your can said there use an each which she do how their if will up other about out many then them these so some her would make like him into time has look two more write go see number no way could people my than first water been call who oil its now find long down day did get come made may part")

func qlzText(r *RNG, n int) []byte {
	var sb bytes.Buffer
	for sb.Len() < n {
		w := qlzWords[r.Intn(len(qlzWords))]
		if r.Chance(8) {
			w = strings.ToUpper(w[:1]) + w[1:]
		}
		sb.WriteString(w)
		switch r.Intn(12) {
		case 0:
			sb.WriteString(". ")
		case 1:
			sb.WriteString(",\n")
		default:
			sb.WriteByte(' ')
		}
	}
	return sb.Bytes()[:n]
}

var qlzSizesSmall = []int{1, 2, 3, 4, 5, 6, 7, 8, 9, 10, 11, 12, 13, 14, 15, 16, 17, 18, 20, 31, 32, 33, 34, 40, 64, 100}

// sizes around the thresholds the property names: the C header switch (216), a 256-byte record with 24+key bytes
// of overhead, the 10 KiB probe of TryCompress, the 17-bit offset limit of level 3, powers of two
var qlzSizesEdge = []int{214, 215, 216, 217, 218, 222, 231, 232, 233, 254, 255, 256, 257, 258, 300, 511, 512, 513, 1023, 1024, 1025,
	4095, 4096, 4097, 10239, 10240, 10241, 10250, 16383, 16384, 16385, 65535, 65536, 65537, 131070, 131071, 131072, 131073, 140000}

func qlzSize(r *RNG, tier string) int {
	switch r.Intn(10) {
	case 0, 1:
		return qlzSizesSmall[r.Intn(len(qlzSizesSmall))]
	case 2, 3, 4:
		return qlzSizesEdge[r.Intn(len(qlzSizesEdge))]
	case 5, 6:
		return 1 + r.Intn(3000)
	case 7:
		return 1 + r.Intn(40000)
	case 8:
		if tier == "thorough" {
			return 200000 + r.Intn(850000) // up to ~1 MB
		}
		return 10240 + r.Intn(60000)
	default:
		return 10240 - 3 + r.Intn(7)
	}
}

var qlzClasses = []string{"constant", "periodic", "text", "random", "mixed", "ratio", "tailrand", "sparse", "longrep", "lowentropy", "marker"}

func qlzValue(r *RNG, class string, n int) []byte {
	switch class {
	case "constant":
		return bytes.Repeat([]byte{byte(r.Intn(256))}, n)
	case "periodic":
		p := 1 + r.Intn(40)
		if r.Chance(20) {
			p = 250 + r.Intn(20) // period around the 255-byte match limit
		}
		unit := r.Bytes(p)
		return bytes.Repeat(unit, n/p+1)[:n]
	case "text":
		return qlzText(r, n)
	case "random":
		return r.Bytes(n)
	case "mixed": // compressible head, incompressible tail
		k := r.Intn(n + 1)
		return append(qlzText(r, k), r.Bytes(n-k)...)
	case "ratio": // compressed/original near COMPRESS_RATIO_LIMIT = 0.7: ~70% random, the rest constant
		k := n * (66 + r.Intn(9)) / 100
		v := append(r.Bytes(k), bytes.Repeat([]byte{'z'}, n-k)...)
		if r.Bool() { // compressible part first
			v = append(bytes.Repeat([]byte{'z'}, n-k), r.Bytes(k)...)
		}
		return v
	case "tailrand": // QuickLZ's own give-up rule looks at src > 3/4 len: compressible up to about there
		k := n * (70 + r.Intn(12)) / 100
		return append(bytes.Repeat([]byte("abcdefgh"), k/8+1)[:k], r.Bytes(n-k)...)
	case "sparse": // zeros with a few random bytes
		v := make([]byte, n)
		for i := 0; i < n/50+1; i++ {
			v[r.Intn(n)] = byte(r.Intn(256))
		}
		return v
	case "marker":
		// word-like ASCII text (so that the value IS compressed) carrying many markers of 3 or 4 non-ASCII bytes, each
		// occurring exactly twice, the second time at EXACTLY a distance where the token formats of the encoder change
		// (offset fields of 6/8, 14/16, 17 bits; the far limit 131071) or one byte to either side: the only match at
		// that place has that offset and that length.  All boundary distances x both lengths in ONE value.
		var ds []int
		for _, b := range []int{63, 64, 255, 256, 1023, 1024, 16383, 16384, 65535, 65536, 131071, 131072} {
			ds = append(ds, b-1, b, b+1)
		}
		total := 1000*2*len(ds) + 131072 + 3000
		v := make([]byte, 0, total)
		words := [][]byte{[]byte("alpha "), []byte("beta "), []byte("gamma "), []byte("delta, "), []byte("epsilon. "), []byte("zeta "), []byte("eta\n"), []byte("theta ")}
		for len(v) < total {
			v = append(v, words[r.Intn(len(words))]...)
		}
		v = v[:total]
		i := 0
		for _, l := range []int{3, 4} {
			for _, d := range ds {
				mk := []byte{byte(0x80 + i%64), byte(0xC0 + (i*7)%60), byte(0x81 + (i*13)%62), byte(0xE0 + i%16)}[:l]
				at := 1000*i + 100 + r.Intn(50)
				copy(v[at:], mk)
				copy(v[at+d:], mk)
				i++
			}
		}
		return v
	case "longrep": // a random block repeated at a distance (far back-references; beyond the 131071 limit when large)
		blk := r.Bytes(1 + r.Intn(2000))
		gap := r.Intn(3000)
		if n > 140000 && r.Bool() {
			gap = 131000 + r.Intn(200)
		}
		var v []byte
		for len(v) < n {
			v = append(v, blk...)
			v = append(v, r.Bytes(gap)...)
		}
		return v[:n]
	default: // lowentropy: bytes from a 2..4 letter alphabet (many short matches, hash collisions)
		k := 2 + r.Intn(3)
		v := r.Bytes(n)
		for i := range v {
			v[i] = 'a' + v[i]%byte(k)
		}
		return v
	}
}

func put32(b []byte, off int, v uint32) {
	b[off], b[off+1], b[off+2], b[off+3] = byte(v), byte(v>>8), byte(v>>16), byte(v>>24)
}

// setSizes rewrites the two size fields of a stream (whatever header form byte 0 announces), when it is long enough.
func setSizes(b []byte, sizeC, sizeD int) {
	if len(b) == 0 {
		return
	}
	if b[0]&2 == 2 {
		if len(b) >= 9 {
			if sizeC >= 0 {
				put32(b, 1, uint32(sizeC))
			}
			if sizeD >= 0 {
				put32(b, 5, uint32(sizeD))
			}
		}
	} else if len(b) >= 3 {
		if sizeC >= 0 {
			b[1] = byte(sizeC)
		}
		if sizeD >= 0 {
			b[2] = byte(sizeD)
		}
	}
}

const qlzMaxAnnounce = 1 << 21 // arbitrary streams announce at most 2 MiB (the 4 GiB header is the `big` operation)

// clampAnnounce keeps the announced decompressed size of an arbitrary stream within qlzMaxAnnounce.
func clampAnnounce(b []byte) {
	if len(b) >= 9 && b[0]&2 == 2 {
		d := uint32(b[5]) | uint32(b[6])<<8 | uint32(b[7])<<16 | uint32(b[8])<<24
		if d > qlzMaxAnnounce {
			put32(b, 5, d%qlzMaxAnnounce)
		}
	}
}

// one arbitrary / mutated stream
func qlzArb(r *RNG, base map[string][]byte, names []string) (kind string, out []byte) {
	pick := func() (string, []byte) {
		if len(names) == 0 {
			return "none", nil
		}
		n := names[r.Intn(len(names))]
		return n, append([]byte{}, base[n]...)
	}
	switch r.Intn(12) {
	case 0, 1, 2: // a few bytes of the payload changed, sizes intact
		n, b := pick()
		if len(b) > 9 {
			for k := 1 + r.Intn(4); k > 0; k-- {
				i := 9 + r.Intn(len(b)-9)
				if b[0]&2 == 0 {
					i = 3 + r.Intn(len(b)-3)
				}
				switch r.Intn(3) {
				case 0:
					b[i] ^= 1 << uint(r.Intn(8))
				case 1:
					b[i] = byte(r.Intn(256))
				default:
					b[i] = []byte{0, 0xff, 0x80, 1, 3, 0x7f}[r.Intn(6)]
				}
			}
		}
		return "flip-" + n, b
	case 3: // control words damaged (the first, or a random aligned position)
		n, b := pick()
		hl := 9
		if len(b) > 0 && b[0]&2 == 0 {
			hl = 3
		}
		if len(b) >= hl+4 {
			put32(b, hl, uint32(r.Next()))
			if r.Bool() {
				put32(b, hl, []uint32{0xffffffff, 0x80000000, 1, 0, 0x80000001, 0xaaaaaaaa}[r.Intn(6)])
			}
		}
		return "cword-" + n, b
	case 4: // truncated, compressed size adjusted to the new length
		n, b := pick()
		if len(b) > 1 {
			b = b[:1+r.Intn(len(b)-1)]
			setSizes(b, len(b), -1)
		}
		return "trunc-" + n, b
	case 5: // extended with junk, compressed size adjusted
		n, b := pick()
		b = append(b, r.Bytes(1+r.Intn(40))...)
		setSizes(b, len(b), -1)
		return "extend-" + n, b
	case 6: // announced decompressed size changed
		n, b := pick()
		if len(b) >= 3 {
			var d int
			switch r.Intn(4) {
			case 0:
				d = 0
			case 1:
				d = r.Intn(12)
			case 2:
				d = len(b)*2 + r.Intn(1000)
			default:
				d = r.Intn(4*len(b) + 20)
			}
			setSizes(b, -1, d)
		}
		return "sized-" + n, b
	case 7: // level bits / compressible bit / header form flipped, sizes re-stated for the new form when possible
		n, b := pick()
		if len(b) > 0 {
			b[0] ^= []byte{1, 2, 4, 8, 12, 0x40, 0x30}[r.Intn(7)]
			if r.Bool() {
				setSizes(b, len(b), -1)
			}
		}
		return "hdrbit-" + n, b
	case 8: // a stored stream whose announced size differs from its payload
		pl := r.Bytes(r.Intn(300))
		b := make([]byte, 9+len(pl))
		b[0] = []byte{0x46, 0x4e}[r.Intn(2)] // 9-byte header, level 1 / 3, not compressible
		copy(b[9:], pl)
		d := len(pl)
		switch r.Intn(3) {
		case 0:
			d = len(pl) + 1 + r.Intn(100000)
		case 1:
			d = r.Intn(len(pl) + 1)
		}
		setSizes(b, len(b), d)
		return "stored", b
	case 9: // random payload under a well-formed header
		n := r.Intn(600)
		b := make([]byte, 9+n)
		b[0] = []byte{0x47, 0x4f, 0x47, 0x4f, 0x43, 0x4b, 0x07, 0x0f}[r.Intn(8)]
		copy(b[9:], r.Bytes(n))
		if r.Bool() && n >= 4 { // a control word with few match bits lets the decoder get further
			put32(b, 9, uint32(r.Next())&uint32(r.Next())&uint32(r.Next())|0x80000000)
		}
		setSizes(b, len(b), r.Intn(3*n+30))
		return "randpl", b
	case 10: // 3-byte header forms
		n := r.Intn(250)
		b := make([]byte, 3+n)
		b[0] = []byte{0x45, 0x4d, 0x44, 0x4c, 0x41, 0x49}[r.Intn(6)]
		copy(b[3:], r.Bytes(n))
		setSizes(b, len(b), r.Intn(256))
		return "short-hdr", b
	default: // plain random bytes, all lengths from 0
		n := r.Intn(14)
		if r.Chance(30) {
			n = r.Intn(400)
		}
		b := r.Bytes(n)
		if r.Bool() {
			setSizes(b, len(b), -1)
		}
		return "random", b
	}
}

func engineQlz(c *Ctx) {
	config.MCConf.BodyInC = 4096
	q := &qlzRun{c: c, streams: map[string][]byte{}, present: map[string]bool{}}
	defer func() {
		if q.child != nil {
			q.child.stop()
		}
		t0 := time.Now()
		qlzPoolStop()
		qlzProf["poolstop"] = time.Since(t0)
		if os.Getenv("HX_QLZ_PROF") != "" {
			for k, v := range qlzProf {
				fmt.Fprintln(os.Stderr, "prof", k, v)
			}
		}
	}()
	if c.replay != "" {
		for _, l := range replayLines(c.replay) {
			q.apply(l.op, l.args)
		}
		return
	}
	qlzPoolSize = 10
	root := NewRNG(c.seed)
	arbPer := 10
	if c.tier == "thorough" {
		arbPer = 24
	}
	// inputs shorter than their own header, systematically (every length 0..9 under every header form): the safe
	// entry point must answer them with an error like any other malformed stream
	{
		r := root.Fork(0x7197)
		q.apply("case", []string{fmt.Sprintf("%d-tiny", c.seed), "class=tiny", "n=0"})
		for n := 0; n <= 9; n++ {
			for _, b0 := range []byte{0x00, 0x01, 0x02, 0x03, 0x44, 0x45, 0x46, 0x47, 0x4c, 0x4d, 0x4e, 0x4f, 0xff} {
				b := r.Bytes(n)
				if n > 0 {
					b[0] = b0
				}
				if r.Chance(75) {
					if n > 1 && b0&2 == 0 {
						b[1] = byte(n)
					}
					if n >= 5 && b0&2 != 0 {
						put32(b, 1, uint32(n))
					}
				}
				if n >= 9 {
					clampAnnounce(b)
				}
				c.count("arb=tiny")
				q.apply("arb", []string{"tiny", hx(b)})
				q.apply("raw", []string{"G", "arb"})
				q.apply("dec", []string{"G", "arb"})
			}
		}
		q.apply("end", nil)
	}
	for ci := 0; ci < c.n; ci++ {
		r := root.Fork(uint64(ci))
		class := qlzClasses[(ci+int(c.seed%uint64(len(qlzClasses))))%len(qlzClasses)] // the shards start at different classes
		n := qlzSize(r, c.tier)
		v := qlzValue(r, class, n)
		q.apply("case", []string{fmt.Sprintf("%d-%d", c.seed, ci), "class=" + class, "n=" + strconv.Itoa(len(v))})
		c.count("class=" + class)
		switch {
		case len(v) <= 10:
			c.count("len<=10")
		case len(v) < 216:
			c.count("len<216")
		case len(v) <= 10240:
			c.count("len<=10240")
		case len(v) <= 131072:
			c.count("len<=128K")
		default:
			c.count("len>128K")
		}
		q.apply("orig", []string{hx(v)})
		for _, w := range []string{"cc", "gc1", "gc3"} {
			q.apply("comp", []string{w})
			q.apply("hdr", []string{w})
		}
		if b, ok := q.stream("cc"); ok {
			if b[0]&1 == 0 {
				c.count("cc-stored")
			}
			if float32(len(b))/float32(len(v)) > 0.7 {
				c.count("cc-ratio>0.7")
			} else {
				c.count("cc-ratio<=0.7")
			}
		}
		if b, ok := q.stream("gc3"); ok && b[0]&1 == 0 {
			c.count("gc3-stored")
		}
		// the four round trips (and level 1 through the Go decoder); the C decoder also with the guard page
		for _, w := range []string{"cc", "gc3"} {
			q.apply("dec", []string{"C", w})
			q.apply("dec", []string{"G", w})
			q.apply("dec", []string{"Cg", w})
		}
		q.apply("dec", []string{"G", "gc1"})
		// arbitrary and mutated streams; big values contribute fewer of them (each line carries the whole stream)
		base := map[string][]byte{}
		var names []string
		for _, w := range []string{"cc", "gc1", "gc3"} {
			if b, ok := q.stream(w); ok {
				base[w] = b
				names = append(names, w)
			}
		}
		k := arbPer
		if len(v) > 20000 {
			k = 3
		}
		if len(v) > 200000 {
			k = 1
		}
		for i := 0; i < k; i++ {
			kind, b := qlzArb(r, base, names)
			clampAnnounce(b)
			c.count("arb=" + strings.SplitN(kind, "-", 2)[0])
			q.apply("arb", []string{kind, hx(b)})
			q.apply("raw", []string{"G", "arb"})
			q.apply("dec", []string{"G", "arb"})
			// the C decoder: first with the guard page; if that faults, also as production would hold the bytes
			if res := q.apply("dec", []string{"Cg", "arb"}); strings.HasPrefix(res, "CRASH") {
				c.count("arb-Cg-crash")
				if res2 := q.apply("dec", []string{"C", "arb"}); strings.HasPrefix(res2, "CRASH") {
					c.count("arb-C-crash")
				}
			}
		}
		q.apply("end", nil)
	}
	// the smallest hostile input: 9 bytes announcing a gigabyte, stored form — what do the safe entry points do?
	if c.tier == "thorough" {
		b := []byte{0x4e, 9, 0, 0, 0, 0, 0, 0, 0x40}
		q.apply("case", []string{fmt.Sprintf("%d-big", c.seed), "class=big", "n=0"})
		q.apply("big", []string{"G", hx(b)})
		q.apply("big", []string{"C", hx(b)})
		q.apply("end", nil)
	}
}
