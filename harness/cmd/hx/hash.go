package main

import (
	"github.com/douban/gobeansdb/store"
	"github.com/douban/gobeansdb/utils"
	"strconv"
	"strings"
)

// engine hash (C16): byte strings through the real fnv1a / utils.Fnv1a / murmur /
// key hash / Getvhash / record CRC.

func init() { engines["hash"] = engineHash }

func hashInput(r *RNG, i int) []byte {
	var n int
	switch r.Intn(10) {
	case 0:
		n = r.Intn(4)
	case 1:
		n = []int{511, 512, 513, 1023, 1024, 1025, 1026, 2047, 2048, 4095, 4096}[r.Intn(11)]
	case 2:
		n = 1024 + r.Intn(3072)
	default:
		n = r.Intn(300)
	}
	b := r.Bytes(n)
	switch r.Intn(4) {
	case 0: // all bytes >= 0x80: the signed-byte quirk
		for j := range b {
			b[j] |= 0x80
		}
	case 1: // ascii
		for j := range b {
			b[j] = 'a' + b[j]%26
		}
	}
	return b
}

func hashEval(c *Ctx, op string, args []string) {
	if op == "rcrc" {
		// rcrc key body flag ver ts => the first 24+ksz+vsz bytes of the record as the real writer encodes it
		flag, _ := strconv.ParseUint(args[2], 10, 32)
		ver, _ := strconv.Atoi(args[3])
		ts, _ := strconv.ParseUint(args[4], 10, 32)
		key, body := unhx(args[0]), unhx(args[1])
		enc := store.VerifEncodeRecord(key, body, uint32(flag), int32(ver), uint32(ts))
		n := 24 + len(key) + len(body)
		if n > len(enc) {
			n = len(enc)
		}
		c.line("rcrc %s => %s", strings.Join(args, " "), hx(enc[:n]))
		return
	}
	b := unhx(args[len(args)-1])
	h := args[len(args)-1]
	switch op {
	case "fnv":
		c.line("fnv %s => %d", h, store.VerifFnv1a(b))
	case "ufnv":
		c.line("ufnv %s => %d", h, utils.Fnv1a(b))
	case "mur":
		c.line("mur %s => %d", h, store.VerifMurmur(b))
	case "kh":
		c.line("kh %s => %d", h, store.VerifKeyHash(b))
	case "vh":
		c.line("vh %s => %d", h, store.Getvhash(b))
	case "crc":
		c.line("crc %s => %d", h, store.VerifCRC(b))
	case "crc3":
		hd, k := unhx(args[0]), unhx(args[1])
		c.line("crc3 %s %s %s => %d", args[0], args[1], h, store.VerifCRC(hd[4:], k, b))
	}
}

func engineHash(c *Ctx) {
	if c.replay != "" {
		for _, l := range replayLines(c.replay) {
			hashEval(c, l.op, l.args)
		}
		return
	}
	r := NewRNG(c.seed)
	fixed := [][]byte{{}, []byte("test"), []byte("123456789"), {0x80}, {0xff, 0x00, 0x7f}, []byte("The quick brown fox jumps over the lazy dog")}
	for i := 0; i < c.n; i++ {
		var b []byte
		if i < len(fixed) {
			b = fixed[i]
		} else {
			b = hashInput(r.Fork(uint64(i)), i)
		}
		h := hx(b)
		c.line("fnv %s => %d", h, store.VerifFnv1a(b))
		c.line("ufnv %s => %d", h, utils.Fnv1a(b))
		c.line("mur %s => %d", h, store.VerifMurmur(b))
		c.line("kh %s => %d", h, store.VerifKeyHash(b))
		c.line("vh %s => %d", h, store.Getvhash(b))
		c.line("crc %s => %d", h, store.VerifCRC(b))
		if len(b) < 4 {
			c.count("len<4")
		}
		for _, x := range b {
			if x >= 0x80 {
				c.count("has-byte>=0x80")
				break
			}
		}
		if len(b) >= 0x80 {
			c.count("len>=128")
		}
		if len(b) > 1024 {
			c.count("len>1024")
		}
		// three-part CRC as getCRC does it
		if i%4 == 0 {
			rr := r.Fork(uint64(i) + 1<<32)
			hd := rr.Bytes(24)
			k := rr.Bytes(1 + rr.Intn(20))
			c.line("crc3 %s %s %s => %d", hx(hd), hx(k), h, store.VerifCRC(hd[4:], k, b))
		}
	}
	// the CRC field of whole records as the writer stores it (Record -> WriteRecord.getCRC -> file bytes): every total
	// size around one block and random ones (the kernel alone is not the stored value: the composition over header
	// tail, key and value is part of the definition)
	nrec := 120
	if c.tier == "thorough" {
		nrec = 1500
	}
	for i := 0; i < nrec; i++ {
		rr := r.Fork(uint64(i) + 1<<44)
		ksz := 1 + rr.Intn(60)
		total := 200 + rr.Intn(120) // key + value bytes: 200..319, straddling 256-24 and 256
		if rr.Chance(30) {
			total = ksz + rr.Intn(1500)
		}
		if total < ksz {
			total = ksz
		}
		hashEval(c, "rcrc", []string{hx(rr.Bytes(ksz)), hx(rr.Bytes(total - ksz)), "0", "1", "1500000000"})
		c.count("rcrc")
	}
	// a few large CRC inputs
	big := 4
	if c.tier == "thorough" {
		big = 40
	}
	for i := 0; i < big; i++ {
		rr := r.Fork(uint64(i) + 1<<40)
		b := rr.Bytes(100000 + rr.Intn(900000))
		c.line("crc %s => %d", hx(b), store.VerifCRC(b))
		c.count("crc-large")
	}
}
