package main

// collide — differential harness for GoBeans.Model.Collide (property C13, the collision path).
//
// Drives the real store (built with -tags verif, through the replace directive) with random histories in which
// groups of 2..4 keys are forced onto one key hash (store.VerifSetKeyHash), mixed with ordinary keys:
// set / delete / incr / get / meta, flush, restart (tree dump kept or removed; hint files and collision.yaml stay),
// the hint dumper's round, a hint merge, GC passes (merge on/off).  Per operation it records the reply and, after
// every operation, the content of the collision table and what Bucket.get(memOnly) sees for every pool key.
// The trace is a line protocol that harness/cmd/collide/CollideCheck.lean replays on `Collide.step`.
//
//   collide -seed N -n CASES [-ops K] -out trace.txt          generate and run
//   collide -replay file -out trace.txt                       re-run the operations of a trace / hand-written history

import (
	"bufio"
	"bytes"
	"encoding/binary"
	"encoding/hex"
	"flag"
	"fmt"
	"hash/crc32"
	"io"
	"os"
	"path/filepath"
	"runtime"
	"sort"
	"strconv"
	"strings"
	"sync"
	"sync/atomic"
	"time"

	"github.com/douban/gobeansdb/cmem"
	"github.com/douban/gobeansdb/config"
	"github.com/douban/gobeansdb/gobeansdb"
	"github.com/douban/gobeansdb/loghub"
	mc "github.com/douban/gobeansdb/memcache"
	"github.com/douban/gobeansdb/store"
	yaml "gopkg.in/yaml.v2"
)

// ---- logger: quiet; FATAL becomes a panic ----

type quietHub struct {
	mu    sync.Mutex
	fatal string
}

var debugLog = os.Getenv("HX_DEBUG") != ""

func (h *quietHub) Log(name string, level int, file string, line int, msg string) {
	if debugLog {
		fmt.Fprintf(os.Stderr, "LOG %d %s:%d %s\n", level, file, line, msg)
	}
	if level == loghub.FATAL {
		m := fmt.Sprintf("%s:%d %s", file, line, msg)
		if curGID() == mainGID {
			panic("FATAL " + m)
		}
		h.mu.Lock()
		if h.fatal == "" {
			h.fatal = m
		}
		h.mu.Unlock()
		runtime.Goexit()
	}
}
func (h *quietHub) Reopen(path string) error           { return nil }
func (h *quietHub) GetLastLog() []byte                 { return nil }
func (h *quietHub) DumpBuffer(all bool, out io.Writer) {}

var theHub = &quietHub{}

func curGID() int64 {
	var buf [64]byte
	n := runtime.Stack(buf[:], false)
	f := bytes.Fields(buf[:n])
	if len(f) < 2 {
		return -1
	}
	id, _ := strconv.ParseInt(string(f[1]), 10, 64)
	return id
}

var mainGID = curGID()

func init() {
	loghub.ErrorLogger.Hub = theHub
	loghub.ErrorLogger.SetLevel(loghub.ERROR)
	if debugLog {
		loghub.ErrorLogger.SetLevel(loghub.DEBUG)
	}
}

// ---- rng ----

type RNG struct{ s uint64 }

func (r *RNG) Next() uint64 {
	r.s += 0x9e3779b97f4a7c15
	z := r.s
	z = (z ^ (z >> 30)) * 0xbf58476d1ce4e5b9
	z = (z ^ (z >> 27)) * 0x94d049bb133111eb
	return z ^ (z >> 31)
}
func (r *RNG) Intn(n int) int {
	if n <= 0 {
		return 0
	}
	return int(r.Next() % uint64(n))
}
func (r *RNG) Chance(pct int) bool { return r.Intn(100) < pct }
func (r *RNG) Bytes(n int) []byte {
	b := make([]byte, n)
	for i := range b {
		b[i] = byte(r.Next())
	}
	return b
}

// ---- store control ----

var rot, bgdone, inOp, opening int64
var raceProbe = os.Getenv("HX_RACE") != ""

func hook(point string, args ...interface{}) {
	switch point {
	case "data.rotate":
		atomic.AddInt64(&rot, 1)
	case "data.flush.enter":
		// single client: the flush that follows a rotation runs after the command that caused it has returned
		if args[1].(int) >= 0 && curGID() != mainGID {
			for atomic.LoadInt64(&inOp) != 0 {
				time.Sleep(10 * time.Microsecond)
			}
		}
	case "data.flush.exit":
		if args[1].(int) >= 0 && curGID() != mainGID {
			atomic.AddInt64(&rot, -1)
		}
	case "bucket.open.bgcheck.done":
		atomic.AddInt64(&bgdone, 1)
	case "fs.rename":
		// HX_RACE=1: widen the window of the race in Bucket.open (the background hint check reads bkt.TreeID while
		// dumpHtree, running in the opening goroutine, may already have changed it)
		if raceProbe && atomic.LoadInt64(&opening) != 0 && strings.HasSuffix(args[1].(string), ".idx.hash") {
			time.Sleep(3 * time.Millisecond)
		}
	}
}

func quiesce() {
	for i := 0; atomic.LoadInt64(&rot) != 0; i++ {
		time.Sleep(20 * time.Microsecond)
		if i > 500000 {
			panic("rotation flush did not finish")
		}
	}
}

func guard(f func()) (panicked string) {
	atomic.StoreInt64(&inOp, 1)
	defer atomic.StoreInt64(&inOp, 0)
	defer func() {
		if r := recover(); r != nil {
			panicked = fmt.Sprint(r)
		}
	}()
	f()
	return ""
}

type caseCfg struct {
	home     string
	dfmax    int64
	splitCap int64
	bodyMax  int64
}

type sut struct {
	cfg caseCfg
	hs  *store.HStore
	cl  *gobeansdb.StorageClient
}

func (s *sut) applyConf() {
	c := s.cfg
	store.Conf.InitDefault()
	store.Conf.Home = c.home
	store.Conf.NumBucket = 1
	store.Conf.BucketsStat = []int{1}
	store.Conf.TreeHeight = 3
	store.Conf.CheckVHash = false
	store.Conf.Init()
	store.Conf.DataFileMax = c.dfmax
	store.Conf.SplitCap = c.splitCap
	store.Conf.IndexIntervalSize = 1024
	store.Conf.MergeInterval = 100000
	store.Conf.FlushInterval = 100000
	store.Conf.FlushWake = 1 << 40
	config.MCConf.BodyMax = c.bodyMax
	config.MCConf.BodyInC = 4096
	config.MCConf.MaxKeyLen = 250
	store.VerifSetSecsBeforeDump(-1)
}

func (s *sut) open() error {
	s.applyConf()
	atomic.StoreInt64(&bgdone, 0)
	var err error
	atomic.StoreInt64(&opening, 1)
	defer atomic.StoreInt64(&opening, 0)
	if p := guard(func() { s.hs, err = store.NewHStore() }); p != "" {
		return fmt.Errorf("%s", p)
	}
	if err != nil {
		return err
	}
	s.cl = gobeansdb.VerifNewStorageClient(s.hs)
	for i := 0; atomic.LoadInt64(&bgdone) < 1; i++ {
		time.Sleep(20 * time.Microsecond)
		if i > 500000 {
			panic("open: background hint check did not finish")
		}
	}
	return nil
}

func hx(b []byte) string {
	if len(b) == 0 {
		return "-"
	}
	return hex.EncodeToString(b)
}

func unhx(s string) []byte {
	if s == "-" {
		return []byte{}
	}
	b, err := hex.DecodeString(s)
	if err != nil {
		panic(err)
	}
	return b
}

type runner struct {
	s    *sut
	out  *bufio.Writer
	keys []string
	nops int
}

func (c *runner) line(format string, a ...interface{}) {
	fmt.Fprintf(c.out, format, a...)
	c.out.WriteByte('\n')
}

func (c *runner) writePos() (int, uint32) { return c.s.hs.VerifWritePos(0) }

// written: position and on-disk size of the record a command appended (if any)
func written(bc int, bo uint32, ac int, ao uint32) (size uint32, pos string) {
	if bc == ac && bo == ao {
		return 0, "-"
	}
	if ac == bc {
		return ao - bo, fmt.Sprintf("%d:%d", ac, bo)
	}
	return ao, fmt.Sprintf("%d:0", ac)
}

func (c *runner) doSet(key string, body []byte, flag uint32, rev int, ts uint32) {
	bc, bo := c.writePos()
	item := &mc.Item{Flag: int(flag), Exptime: rev, ReceiveTime: time.Unix(int64(ts), 0)}
	if !item.Alloc(len(body)) {
		panic("alloc")
	}
	copy(item.Body, body)
	cmem.DBRL.SetData.AddSizeAndCount(item.CArray.Cap)
	ok, err := false, error(nil)
	p := guard(func() { ok, err = c.s.cl.Set(key, item, false) })
	quiesce()
	ac, ao := c.writePos()
	size, pos := written(bc, bo, ac, ao)
	res := "STORED"
	if p != "" {
		res = "PANIC"
	} else if err != nil {
		res = "ERR"
	} else if !ok {
		res = "NOT_STORED"
	}
	c.line("set %s %s %d %d %d size=%d => %s pos=%s", hx([]byte(key)), hx(body), flag, rev, ts, size, res, pos)
}

func (c *runner) doDelete(key string) {
	bc, bo := c.writePos()
	ok, err := false, error(nil)
	p := guard(func() { ok, err = c.s.cl.Delete(key) })
	quiesce()
	ac, ao := c.writePos()
	size, pos := written(bc, bo, ac, ao)
	res := "DELETED"
	if p != "" {
		res = "PANIC"
	} else if err != nil {
		res = "ERR"
	} else if !ok {
		res = "NOT_FOUND"
	}
	c.line("del %s size=%d => %s pos=%s", hx([]byte(key)), size, res, pos)
}

func (c *runner) doIncr(key string, delta int) {
	bc, bo := c.writePos()
	cmem.DBRL.SetData.AddCount(1)
	v, err := 0, error(nil)
	p := guard(func() { v, err = c.s.cl.Incr(key, delta) })
	quiesce()
	ac, ao := c.writePos()
	size, pos := written(bc, bo, ac, ao)
	if p != "" {
		c.line("incr %s %d size=%d => PANIC pos=%s", hx([]byte(key)), delta, size, pos)
		return
	}
	if err != nil {
		c.line("incr %s %d size=%d => ERR pos=%s", hx([]byte(key)), delta, size, pos)
		return
	}
	c.line("incr %s %d size=%d => %d pos=%s", hx([]byte(key)), delta, size, v, pos)
}

func (c *runner) doGet(key string) {
	var item *mc.Item
	var err error
	p := guard(func() { item, err = c.s.cl.Get(key) })
	switch {
	case p != "":
		c.line("get %s => PANIC", hx([]byte(key)))
	case err != nil:
		c.line("get %s => ERR", hx([]byte(key)))
	case item == nil:
		c.line("get %s => MISS", hx([]byte(key)))
	default:
		c.line("get %s => VAL %d %s", hx([]byte(key)), item.Flag, hx(item.Body))
		cmem.DBRL.GetData.SubSizeAndCount(item.CArray.Cap)
		item.CArray.Free()
	}
}

// doMeta: `get ??key` = "ver vhash flag len ts chunk offset"
func (c *runner) doMeta(key string) {
	var item *mc.Item
	var err error
	p := guard(func() { item, err = c.s.cl.Get("??" + key) })
	switch {
	case p != "":
		c.line("meta %s => PANIC", hx([]byte(key)))
	case err != nil:
		c.line("meta %s => ERR", hx([]byte(key)))
	case item == nil:
		c.line("meta %s => MISS", hx([]byte(key)))
	default:
		c.line("meta %s => %s", hx([]byte(key)), string(item.Body))
	}
}

func (c *runner) doFlush() {
	if p := guard(func() { c.s.hs.VerifFlush() }); p != "" {
		c.line("flush => PANIC %s", p)
		return
	}
	quiesce()
	c.line("flush")
}

// first records' timestamps of the data files (GC's age test reads them from disk), by an independent scan
func (c *runner) firstTS() string {
	paths, _ := filepath.Glob(filepath.Join(c.s.cfg.home, "[0-9][0-9][0-9].data"))
	sort.Strings(paths)
	var sb strings.Builder
	for _, p := range paths {
		data, err := os.ReadFile(p)
		if err != nil || len(data) < 24 {
			continue
		}
		ck, _ := strconv.Atoi(filepath.Base(p)[:3])
		fmt.Fprintf(&sb, " %d:%d", ck, binary.LittleEndian.Uint32(data[4:]))
	}
	return sb.String()
}

// filesLine: every data file scanned independently: chunk:size:off:key:ver,...
func (c *runner) filesLine() string {
	paths, _ := filepath.Glob(filepath.Join(c.s.cfg.home, "[0-9][0-9][0-9].data"))
	sort.Strings(paths)
	var sb strings.Builder
	for _, p := range paths {
		data, err := os.ReadFile(p)
		if err != nil {
			continue
		}
		ck, _ := strconv.Atoi(filepath.Base(p)[:3])
		fmt.Fprintf(&sb, " %d:%d:", ck, len(data))
		off, first := 0, true
		for off+24 <= len(data) {
			ver := int32(binary.LittleEndian.Uint32(data[off+12:]))
			ksz := int(binary.LittleEndian.Uint32(data[off+16:]))
			vsz := int(binary.LittleEndian.Uint32(data[off+20:]))
			if ksz == 0 || ksz > 250 || vsz > 1<<26 || off+24+ksz+vsz > len(data) ||
				crc32.ChecksumIEEE(data[off+4:off+24+ksz+vsz]) != binary.LittleEndian.Uint32(data[off:]) {
				off += 256
				continue
			}
			if !first {
				sb.WriteByte(',')
			}
			first = false
			fmt.Fprintf(&sb, "%d:%s:%d", off, hx(data[off+24:off+24+ksz]), ver)
			n := 24 + ksz + vsz
			off += (n + 255) / 256 * 256
		}
	}
	return sb.String()
}

func (c *runner) doGC(begin, end, days int, merge bool) {
	c.doFlush()
	now := time.Now().Unix()
	var b, e int
	var err error
	m := 0
	if merge {
		m = 1
	}
	lhs := fmt.Sprintf("gc begin=%d end=%d nogcdays=%d merge=%d now=%d firstts=%s", begin, end, days, m, now,
		strings.ReplaceAll(strings.TrimSpace(c.firstTS()), " ", ","))
	p := guard(func() { b, e, err = c.s.hs.VerifGCCheckRange(0, begin, end, days) })
	if p != "" {
		c.line("%s => PANIC", lhs)
		return
	}
	if err != nil {
		c.line("%s => REFUSED", lhs)
		return
	}
	var st *store.GCState
	p = guard(func() { st = c.s.hs.VerifGCRun(0, b, e, merge) })
	if p != "" {
		c.line("%s => RANGE %d %d PANIC %s", lhs, b, e, strings.ReplaceAll(p, "\n", " "))
		return
	}
	errs := "ok"
	if st.Err != nil {
		errs = "err"
	}
	c.line("%s => RANGE %d %d DONE %s before=%d released=%d", lhs, b, e, errs, st.NumBefore, st.NumReleased)
	c.line("files =>%s", c.filesLine())
}

func (c *runner) doRestart(keepTree bool) bool {
	if p := guard(func() { c.s.hs.Close() }); p != "" {
		c.line("restart => PANIC in close %s", strings.ReplaceAll(p, "\n", " "))
		return false
	}
	quiesce()
	kt := 1
	if !keepTree {
		kt = 0
		hs, _ := filepath.Glob(filepath.Join(c.s.cfg.home, "*.idx.hash"))
		for _, p := range hs {
			os.Remove(p)
		}
	}
	if err := c.s.open(); err != nil {
		c.line("restart keeptree=%d => REFUSED %v", kt, err)
		return false
	}
	c.line("restart keeptree=%d => OK", kt)
	return true
}

func (c *runner) doHintDump() {
	if p := guard(func() { c.s.hs.VerifDumpHints(0) }); p != "" {
		c.line("hintdump => PANIC %s", p)
		return
	}
	c.line("hintdump")
}

func (c *runner) doHintMerge() {
	var err error
	if p := guard(func() { err = c.s.hs.VerifMergeHints(0) }); p != "" {
		c.line("hintmerge => PANIC %s", p)
		return
	}
	if err != nil {
		c.line("hintmerge => ERR")
		return
	}
	c.line("hintmerge")
}

// observe: the collision table (GetCollisionsByBucket, the yaml the web interface serves) and, for every pool key,
// what Bucket.get(memOnly) returns (collision table entry of the key, else the tree slot of the key hash)
func (c *runner) observe() {
	content := c.s.hs.GetCollisionsByBucket(0)
	t := &store.CollisionTable{}
	if err := yaml.Unmarshal(content, t); err != nil {
		c.line("ct => UNPARSABLE")
	} else {
		var ents []string
		for h, m := range t.Items {
			for k, it := range m {
				ents = append(ents, fmt.Sprintf("%d:%s:%d:%d:%d:%d", h, hx([]byte(k)), it.Pos.ChunkID, it.Pos.Offset, it.Ver, it.Vhash))
				if it.Key != k || it.Keyhash != h {
					ents = append(ents, "INCONSISTENT")
				}
			}
		}
		sort.Strings(ents)
		c.line("ct => hid=%d:%d %s", t.HintID.Chunk, t.HintID.Split, strings.Join(ents, ","))
	}
	// the hint split files on disk, read back with the store's sequential reader
	paths, _ := filepath.Glob(filepath.Join(c.s.cfg.home, "*.idx.s"))
	sort.Strings(paths)
	var hl []string
	for _, p := range paths {
		items, datasize, _, err := store.VerifHintReadAll(p)
		base := filepath.Base(p)
		if err != nil {
			hl = append(hl, base[:7]+":ERR")
			continue
		}
		var is []string
		for _, it := range items {
			is = append(is, fmt.Sprintf("%d/%s/%d/%d/%d", it.Keyhash, hx([]byte(it.Key)), it.Offset, it.Ver, it.Vhash))
		}
		ck, _ := strconv.Atoi(base[:3])
		sp, _ := strconv.Atoi(base[4:7])
		hl = append(hl, fmt.Sprintf("%d.%d:%d:%s", ck, sp, datasize, strings.Join(is, ";")))
	}
	c.line("hints => %s", strings.Join(hl, " "))
	var ms []string
	for _, k := range c.keys {
		ki := &store.KeyInfo{StringKey: k, Key: []byte(k)}
		payload, pos, _ := c.s.hs.Get(ki, true)
		if payload == nil {
			ms = append(ms, hx([]byte(k))+"=nil")
		} else {
			ms = append(ms, fmt.Sprintf("%s=%d:%d:%d:%d", hx([]byte(k)), payload.Ver, payload.ValueHash, pos.ChunkID, pos.Offset))
		}
	}
	c.line("mem => %s", strings.Join(ms, ","))
}

// ---- generator ----

func genKey(r *RNG) string {
	lens := []int{1, 2, 3, 3, 4, 5, 8, 8, 12, 16, 30}
	n := lens[r.Intn(len(lens))]
	b := make([]byte, n)
	for i := range b {
		if r.Intn(8) == 0 && i > 0 {
			b[i] = byte(0x80 + r.Intn(0x80))
		} else {
			b[i] = byte('a' + r.Intn(26))
		}
	}
	return string(b)
}

func genValue(r *RNG) []byte {
	switch r.Intn(6) {
	case 0:
		return []byte{}
	case 1:
		return []byte{byte(r.Intn(256))}
	case 2:
		return r.Bytes(r.Intn(60))
	case 3:
		return r.Bytes(200 + r.Intn(120)) // around the one-block / two-block edge
	case 4:
		return bytes.Repeat([]byte{byte('a' + r.Intn(26))}, 1+r.Intn(600)) // compressible
	}
	return []byte(strconv.Itoa(r.Intn(2000) - 500))
}

func installGroups(groups [][]string) map[string]uint64 {
	m := map[string]uint64{}
	for _, g := range groups {
		h := store.VerifKeyHash([]byte(g[0]))
		for _, k := range g {
			m[k] = h
		}
	}
	if len(groups) == 0 {
		store.VerifSetKeyHash(nil)
		return m
	}
	store.VerifSetKeyHash(func(key []byte) uint64 {
		if h, ok := m[string(key)]; ok {
			return h
		}
		return store.VerifKeyHash(key)
	})
	return m
}

func (c *runner) header(id string, groups [][]string) {
	cf := c.s.cfg
	c.line("case %s dfmax=%d splitcap=%d bodymax=%d", id, cf.dfmax, cf.splitCap, cf.bodyMax)
	var gs []string
	for _, g := range groups {
		var ks []string
		for _, k := range g {
			ks = append(ks, hx([]byte(k)))
		}
		gs = append(gs, strings.Join(ks, ","))
	}
	c.line("groups %s", strings.Join(gs, ";"))
	var hl []string
	for _, k := range c.keys {
		hl = append(hl, fmt.Sprintf("%s=%d", hx([]byte(k)), store.VerifCurrentKeyHash([]byte(k))))
	}
	c.line("hashes %s", strings.Join(hl, ","))
}

func genCase(c *runner, r *RNG, id string, nops int, mix string) {
	home := c.s.cfg.home
	os.RemoveAll(home)
	os.MkdirAll(home, 0o755)
	c.s.cfg.dfmax = []int64{256 * 5, 256 * 8, 256 * 16, 256 * 40, 4000 << 20}[r.Intn(5)]
	c.s.cfg.splitCap = []int64{2, 3, 4, 64, 1 << 20}[r.Intn(5)]
	c.s.cfg.bodyMax = []int64{256, 512, 1 << 20}[r.Intn(3)]
	// key pool
	seen := map[string]bool{}
	var keys []string
	nk := 4 + r.Intn(8)
	for len(keys) < nk {
		k := genKey(r)
		if !store.IsValidKeyString(k) || seen[k] {
			continue
		}
		seen[k] = true
		keys = append(keys, k)
	}
	c.keys = keys
	var groups [][]string
	ng := 1 + r.Intn(2)
	idx := 0
	for g := 0; g < ng && idx+1 < len(keys); g++ {
		n := 2 + r.Intn(3)
		var grp []string
		for j := 0; j < n && idx < len(keys); j++ {
			grp = append(grp, keys[idx])
			idx++
		}
		if len(grp) >= 2 {
			groups = append(groups, grp)
		}
	}
	store.VerifSetKeyHash(nil)
	installGroups(groups)
	defer store.VerifSetKeyHash(nil)
	if err := c.s.open(); err != nil {
		panic(err)
	}
	c.header(id, groups)
	c.observe()
	ts := uint32(1500000000)
	maxBody := int(c.s.cfg.dfmax)/2 - 300
	if maxBody > int(c.s.cfg.bodyMax)-8 {
		maxBody = int(c.s.cfg.bodyMax) - 8
	}
	ngroupKeys := idx
	if mix == "safe" || mix == "gcmate" {
		// class SafeR: every colliding key is written and then read once (the reads enter them into the collision table)
		for _, g := range groups {
			for _, k := range g {
				c.doSet(k, genValue(r)[:0], 0, 0, ts)
				c.observe()
				c.nops++
			}
		}
		for _, g := range groups {
			for _, k := range g {
				c.doGet(k)
				c.observe()
				c.nops++
			}
		}
	}
	for i := 0; i < nops; i++ {
		// colliding keys are chosen more often than ordinary ones
		var k string
		if r.Chance(70) {
			k = keys[r.Intn(ngroupKeys)]
		} else {
			k = keys[r.Intn(len(keys))]
		}
		ts += uint32(r.Intn(3))
		p := r.Intn(100)
		alive := true
		if mix == "gcmate" {
			// GC over keys the collision table knows: sets with automatic revision (the slot of the hash moves from
			// mate to mate, the versions of the mates drift apart), flushes (rotation), passes with and without merge
			switch {
			case p < 45:
				p = 0
			case p < 55:
				p = 50 // get
			case p < 70:
				p = 75 // flush
			case p < 75:
				p = 80 // hint dump
			case p < 78:
				p = 35 // delete
			default:
				p = 99 // GC
			}
		}
		switch {
		case p < 30:
			v := genValue(r)
			if len(v) > maxBody {
				v = v[:maxBody]
			}
			rev := 0
			if r.Chance(12) && mix != "safe" && mix != "gcmate" {
				rev = []int{1, 2, 3, 5, 10, 1000}[r.Intn(6)]
			}
			flag := []uint32{0, 1, 0x204}[r.Intn(3)]
			c.doSet(k, v, flag, rev, ts)
		case p < 42:
			c.doDelete(k)
		case p < 48:
			if r.Chance(50) {
				c.doSet(k, []byte(strconv.Itoa(r.Intn(1000)-100)), 0x204, 0, ts)
				c.observe()
				c.nops++
			}
			c.doIncr(k, r.Intn(20)-5)
		case p < 66:
			c.doGet(k)
		case p < 74:
			c.doMeta(k)
		case p < 78:
			c.doFlush()
		case p < 82:
			c.doHintDump()
		case p < 84 && mix != "nomerge" && mix != "safe":
			c.doHintMerge()
		case p < 92:
			if mix == "client" {
				c.doGet(k)
				break
			}
			alive = c.doRestart(r.Chance(50))
		default:
			if mix == "client" || mix == "restart" || mix == "safe" {
				c.doGet(k)
				break
			}
			head := c.s.hs.VerifHead(0)
			begin := r.Intn(head+3) - 1
			end := r.Intn(head+3) - 1
			if r.Chance(30) {
				begin, end = -1, -1
			}
			if r.Chance(30) {
				begin = 0
			}
			c.doGC(begin, end, []int{-1, 0, 0, 0, 1}[r.Intn(5)], r.Chance(40))
		}
		c.nops++
		if !alive {
			c.line("end")
			return
		}
		c.observe()
	}
	// read everything back, also after a rebuild
	for _, k := range keys {
		c.doGet(k)
		c.observe()
	}
	if c.doRestart(false) {
		c.observe()
		for _, k := range keys {
			c.doMeta(k)
			c.observe()
		}
	}
	c.s.hs.Close()
	c.line("end")
}

// ---- replay ----

func kv(args []string, name string) (string, bool) {
	for _, a := range args {
		if strings.HasPrefix(a, name+"=") {
			return a[len(name)+1:], true
		}
	}
	return "", false
}

func replay(c *runner, path string) {
	data, err := os.ReadFile(path)
	if err != nil {
		panic(err)
	}
	opened := false
	var groups [][]string
	for _, l := range strings.Split(string(data), "\n") {
		if l == "" || strings.HasPrefix(l, "#") {
			continue
		}
		lhs := l
		if i := strings.Index(l, " =>"); i >= 0 {
			lhs = l[:i]
		}
		ws := strings.Fields(lhs)
		if len(ws) == 0 {
			continue
		}
		a := ws[1:]
		atoi := func(s string) int { v, _ := strconv.Atoi(s); return v }
		switch ws[0] {
		case "case":
			if opened {
				c.s.hs.Close()
				opened = false
			}
			os.RemoveAll(c.s.cfg.home)
			os.MkdirAll(c.s.cfg.home, 0o755)
			c.s.cfg.dfmax, c.s.cfg.splitCap, c.s.cfg.bodyMax = 4000<<20, 1<<20, 1<<20
			if v, ok := kv(a, "dfmax"); ok {
				c.s.cfg.dfmax = int64(atoi(v))
			}
			if v, ok := kv(a, "splitcap"); ok {
				c.s.cfg.splitCap = int64(atoi(v))
			}
			if v, ok := kv(a, "bodymax"); ok {
				c.s.cfg.bodyMax = int64(atoi(v))
			}
			c.keys = nil
			groups = nil
			store.VerifSetKeyHash(nil)
			c.line("case %s dfmax=%d splitcap=%d bodymax=%d", a[0], c.s.cfg.dfmax, c.s.cfg.splitCap, c.s.cfg.bodyMax)
		case "groups":
			groups = nil
			if len(a) > 0 {
				for _, g := range strings.Split(a[0], ";") {
					var grp []string
					for _, k := range strings.Split(g, ",") {
						if k != "" {
							grp = append(grp, string(unhx(k)))
						}
					}
					if len(grp) >= 2 {
						groups = append(groups, grp)
					}
				}
			}
			installGroups(groups)
		case "hashes", "keys":
			// the key pool (hashes are recomputed)
			if len(a) > 0 {
				for _, e := range strings.Split(a[0], ",") {
					k := strings.SplitN(e, "=", 2)[0]
					c.keys = append(c.keys, string(unhx(k)))
				}
			}
			if err := c.s.open(); err != nil {
				panic(err)
			}
			opened = true
			var gs []string
			for _, g := range groups {
				var ks []string
				for _, k := range g {
					ks = append(ks, hx([]byte(k)))
				}
				gs = append(gs, strings.Join(ks, ","))
			}
			c.line("groups %s", strings.Join(gs, ";"))
			var hl []string
			for _, k := range c.keys {
				hl = append(hl, fmt.Sprintf("%s=%d", hx([]byte(k)), store.VerifCurrentKeyHash([]byte(k))))
			}
			c.line("hashes %s", strings.Join(hl, ","))
			c.observe()
		case "set":
			c.doSet(string(unhx(a[0])), unhx(a[1]), uint32(atoi(a[2])), atoi(a[3]), uint32(atoi(a[4])))
			c.observe()
		case "del":
			c.doDelete(string(unhx(a[0])))
			c.observe()
		case "incr":
			c.doIncr(string(unhx(a[0])), atoi(a[1]))
			c.observe()
		case "get":
			c.doGet(string(unhx(a[0])))
			c.observe()
		case "meta":
			c.doMeta(string(unhx(a[0])))
			c.observe()
		case "flush":
			c.doFlush()
			c.observe()
		case "hintdump":
			c.doHintDump()
			c.observe()
		case "hintmerge":
			c.doHintMerge()
			c.observe()
		case "restart":
			v, _ := kv(a, "keeptree")
			c.doRestart(v == "1")
			c.observe()
		case "gc":
			g := func(n string) int { v, _ := kv(a, n); return atoi(v) }
			// (doGC flushes itself; the flush line it prints is replayed as a flush: skip flushing twice is harmless)
			c.doGC(g("begin"), g("end"), g("nogcdays"), g("merge") == 1)
			c.observe()
		case "end":
			if opened {
				c.s.hs.Close()
				opened = false
			}
			c.line("end")
		}
	}
	if opened {
		c.s.hs.Close()
	}
}

func main() {
	seed := flag.Uint64("seed", 1, "")
	n := flag.Int("n", 20, "cases")
	ops := flag.Int("ops", 60, "operations per case (upper bound of the random length)")
	out := flag.String("out", "", "")
	rep := flag.String("replay", "", "")
	mix := flag.String("mix", "full", "client | restart | full | nomerge | safe | gcmate")
	work := flag.String("work", "", "")
	flag.Parse()
	store.VerifHook = hook
	base := *work
	if base == "" {
		base, _ = os.MkdirTemp("", "collide")
		defer os.RemoveAll(base)
	}
	w := os.Stdout
	if *out != "" {
		var err error
		w, err = os.Create(*out)
		if err != nil {
			panic(err)
		}
		defer w.Close()
	}
	c := &runner{s: &sut{cfg: caseCfg{home: filepath.Join(base, "db")}}, out: bufio.NewWriterSize(w, 1<<20)}
	defer c.out.Flush()
	if *rep != "" {
		replay(c, *rep)
		return
	}
	root := &RNG{*seed * 0x9e3779b97f4a7c15}
	for ci := 0; ci < *n; ci++ {
		r := &RNG{root.Next() ^ uint64(ci)}
		genCase(c, r, fmt.Sprintf("%d-%d", *seed, ci), 20+r.Intn(*ops), *mix)
	}
	c.line("#ops %d", c.nops)
}
