import GoBeans.Model.Collide
import GoBeans.Lemmas.CollideSafeR

/-!  Replays a trace of harness/cmd/collide on `Collide.step` and compares, per operation, the reply (and position),
     after every operation the collision table and what `Bucket.get(memOnly)` sees for every pool key, after a GC pass
     the range, the statistics and the data-file inventory.

       cd lean && lake env lean --run ../harness/cmd/collide/CollideCheck.lean trace.txt
-/

open Collide Store Spec CollideLemmas

def hexVal (c : Char) : Nat :=
  if '0' ≤ c ∧ c ≤ '9' then c.toNat - '0'.toNat
  else if 'a' ≤ c ∧ c ≤ 'f' then c.toNat - 'a'.toNat + 10
  else 0

def unhex (s : String) : Bytes :=
  if s == "-" then [] else
  let rec go : List Char → List UInt8 → List UInt8
    | a :: b :: rest, acc => go rest ((hexVal a * 16 + hexVal b).toUInt8 :: acc)
    | _, acc => acc.reverse
  go s.toList []

def hexDigit (n : Nat) : Char := if n < 10 then Char.ofNat (48 + n) else Char.ofNat (87 + n)

def tohex (b : Bytes) : String :=
  if b.isEmpty then "-" else
  String.ofList (b.foldr (fun x acc => hexDigit (x.toNat / 16) :: hexDigit (x.toNat % 16) :: acc) [])

def splitLine (l : String) : List String × String :=
  let l := if l.endsWith " =>" then l ++ " " else l
  match l.splitOn " => " with
  | [lhs] => (lhs.splitOn " " |>.filter (· ≠ ""), "")
  | lhs :: rest => (lhs.splitOn " " |>.filter (· ≠ ""), " => ".intercalate rest)
  | [] => ([], "")

def parseInt (s : String) : Int :=
  if s.startsWith "-" then - ((s.drop 1).toNat!) else s.toNat!

def kvOpt (ws : List String) (name : String) : Option String :=
  ws.findSome? fun w => match w.splitOn "=" with
    | [n, v] => if n == name then some v else none
    | _ => none

def kvNat (ws : List String) (name : String) : Nat := ((kvOpt ws name).getD "0").toNat!
def kvInt (ws : List String) (name : String) : Int := parseInt ((kvOpt ws name).getD "0")

def plainSize (klen blen : Nat) : Nat := (24 + klen + blen + 255) / 256 * 256

def fmtPos (p : Option Pos) : String :=
  match p with
  | some p => s!"{p.chunk}:{p.off}"
  | none => "-"

structure Sim where
  cfg : Collide.Cfg := {}
  hashes : List (Bytes × Nat) := []
  st : Collide.State := {}
  caseId : String := ""
  dead : Bool := false           -- a difference was reported in this case: the rest of the case is skipped
  ops : Nat := 0
  checks : Nat := 0
  diffs : Nat := 0
  cases : Nat := 0
  badCases : Nat := 0
  collOps : Nat := 0             -- client operations on keys of a colliding group
  spec : Spec.KV := []           -- the reference map (keys independent), for statistics only
  races : Nat := 0
  trk : Option TrkR := some {}   -- the history so far is in the class SafeR (C13 (b) with restarts)
  safeOps : Nat := 0             -- client operations inside SafeR prefixes
  safeDev : Nat := 0             -- … whose model reply deviates from the reference map (the open statement says: none)
  specDev : Nat := 0             -- client replies of the MODEL that differ from the reference map's (versions not compared)
  devCases : Nat := 0
  caseDev : Bool := false

def Sim.hash (s : Sim) (k : Bytes) : Nat := (AMap.get s.hashes k).getD 0

def insertSortedStr (x : String) : List String → List String
  | [] => [x]
  | y :: ys => if x < y then x :: y :: ys else y :: insertSortedStr x ys

def sortStrs (l : List String) : List String := l.foldr insertSortedStr []

def ctLine (ct : CTable) : String :=
  let ents := ct.items.flatMap fun (h, m) => m.map fun (k, it) => s!"{h}:{tohex k}:{it.chunk}:{it.off}:{it.ver}:{it.vhash}"
  s!"hid={ct.hidChunk}:{ct.hidSplit} " ++ ",".intercalate (sortStrs ents)

def memLine (s : Sim) (keys : List Bytes) : String :=
  ",".intercalate (keys.map fun k =>
    match s.st.memMeta s.hash k with
    | none => tohex k ++ "=nil"
    | some m => s!"{tohex k}={m.ver}:{m.vhash}:{m.pos.chunk}:{m.pos.off}")

def hintsLine (st : Collide.State) : String :=
  let parts := (List.range (st.b.head + 2)).flatMap fun c =>
    let ck := st.hs.chunks c
    (List.range ck.old.length).filterMap fun j =>
      match (ck.old.getD j {}).file with
      | some f =>
        let is := ";".intercalate (f.items.map fun it => s!"{it.khash}/{tohex it.key}/{it.off}/{it.ver}/{it.vhash}")
        some s!"{c}.{j}:{f.datasize}:{is}"
      | none => none
  " ".intercalate parts

def filesOfModel (b : Bucket) : String := Id.run do
  let mut out := ""
  let mut ci := 0
  for c in b.chunkList do
    let onDisk := c.recs.take c.flushed
    if !onDisk.isEmpty then
      let sz := match onDisk.getLast? with
        | some (o, r) => o + r.size
        | none => 0
      let items := ",".intercalate (onDisk.map fun (o, r) => s!"{o}:{tohex r.key}:{r.ver}")
      out := out ++ s!" {ci}:{sz}:{items}"
    else if c.created then
      out := out ++ s!" {ci}:0:"
    ci := ci + 1
  return out

/-- GC's age test reads the timestamp of the first record of a file from disk: delete and incr records are stamped
    by the server clock, so the observed values are put into the model's records before the request is resolved -/
def patchFirstTs (b : Bucket) (fts : List (Nat × Nat)) : Bucket :=
  fts.foldl (fun b (c, ts) =>
    let ck := b.chunks c
    match ck.recs with
    | (o, r) :: rest => b.setChunk c { ck with recs := (o, { r with wts := ts }) :: rest }
    | [] => b) b

def report (s : Sim) (lineno : Nat) (kind model real : String) : IO Sim := do
  IO.println s!"DIFF case={s.caseId} line={lineno} kind={kind}\n   model: {model}\n   real : {real}"
  return { s with diffs := s.diffs + 1, dead := true, badCases := s.badCases + 1 }

def check (s : Sim) (lineno : Nat) (kind model real : String) : IO Sim := do
  if model == real then return { s with checks := s.checks + 1 } else report s lineno kind model real

def isCollKey (s : Sim) (k : Bytes) : Bool :=
  s.hashes.any fun (k', h) => k' != k && h == s.hash k

def runOp (s : Sim) (op : Collide.Op) : Sim × Reply × Option Pos :=
  let r := Collide.step s.hash s.cfg s.st op
  let trk' := s.trk.bind (fun x => x.step s.hash op)
  let s := { s with st := r.1, ops := s.ops + 1, trk := trk' }
  match Collide.cmdOf op with
  | none => (s, r.2.1, r.2.2)
  | some c =>
    let sp := Spec.step {} s.spec c
    let dev := coarse sp.2 != coarse r.2.1
    let s := if trk'.isSome then { s with safeOps := s.safeOps + 1, safeDev := s.safeDev + (if dev then 1 else 0) } else s
    ({ s with spec := sp.1, specDev := s.specDev + (if dev then 1 else 0),
              devCases := s.devCases + (if dev && !s.caseDev then 1 else 0), caseDev := s.caseDev || dev }, r.2.1, r.2.2)

def processLine (s : Sim) (lineno : Nat) (line : String) : IO Sim := do
  if line.startsWith "#" || line.isEmpty then return s
  let (ws, obs) := splitLine line
  match ws with
  | "case" :: id :: rest =>
    let cfg : Collide.Cfg := { s := { dataFileMax := kvNat rest "dfmax", bodyMax := kvNat rest "bodymax", checkVHash := false, noGCDays := 0 },
                               cap := kvNat rest "splitcap" }
    return { s with cfg := cfg, st := {}, hashes := [], caseId := id, dead := false, cases := s.cases + 1, spec := [], caseDev := false, trk := some {} }
  | _ =>
  if s.dead then return s
  match ws with
  | ["groups"] => return s
  | ["groups", _] => return s
  | ["hashes", hs] =>
    let l := (hs.splitOn ",").filterMap fun e => match e.splitOn "=" with
      | [k, h] => some (unhex k, h.toNat!)
      | _ => none
    return { s with hashes := l }
  | ["set", k, body, flag, rev, ts, sz] =>
    let k := unhex k; let body := unhex body
    let size := match (sz.splitOn "=").getD 1 "0" |>.toNat! with
      | 0 => plainSize k.length body.length
      | n => n
    let (s', r, p) := runOp s (.set k body flag.toNat! (parseInt rev) ts.toNat! size)
    let s' := if isCollKey s k then { s' with collOps := s'.collOps + 1 } else s'
    let rs := match r with | .stored => "STORED" | .error => "ERR" | _ => "?"
    check s' lineno "set" s!"{rs} pos={fmtPos p}" obs
  | ["del", k, sz] =>
    let k := unhex k
    let size := match (sz.splitOn "=").getD 1 "0" |>.toNat! with
      | 0 => plainSize k.length 0
      | n => n
    let (s', r, p) := runOp s (.delete k size 0)
    let s' := if isCollKey s k then { s' with collOps := s'.collOps + 1 } else s'
    let rs := match r with | .deleted => "DELETED" | .notFound => "NOT_FOUND" | .error => "ERR" | _ => "?"
    check s' lineno "del" s!"{rs} pos={fmtPos p}" obs
  | ["incr", k, d, sz] =>
    let k := unhex k
    let size := match (sz.splitOn "=").getD 1 "0" |>.toNat! with
      | 0 => 256
      | n => n
    let (s', r, p) := runOp s (.incr k (parseInt d) size 0)
    let s' := if isCollKey s k then { s' with collOps := s'.collOps + 1 } else s'
    let rs := match r with | .num v => s!"{v}" | .error => "ERR" | _ => "?"
    check s' lineno "incr" s!"{rs} pos={fmtPos p}" obs
  | ["get", k] =>
    let k := unhex k
    let (s', r, _) := runOp s (.get k)
    let s' := if isCollKey s k then { s' with collOps := s'.collOps + 1 } else s'
    let rs := match r with
      | .miss => "MISS" | .error => "ERR"
      | .value f b => s!"VAL {f} {tohex b}"
      | _ => "?"
    check s' lineno "get" rs obs
  | ["meta", k] =>
    let k := unhex k
    let (s', r, p) := runOp s (.info k)
    let s' := if isCollKey s k then { s' with collOps := s'.collOps + 1 } else s'
    match r with
    | .miss => check s' lineno "meta" "MISS" obs
    | .error => check s' lineno "meta" "ERR" obs
    | .info ver vh f len ts =>
      -- "ver vhash flag len ts chunk offset"; the timestamp of a delete / incr record is the server clock
      let ows := obs.splitOn " "
      let tsS := match ts with | some t => s!"{t}" | none => ows.getD 4 "?"
      check s' lineno "meta" s!"{ver} {vh} {f} {len} {tsS} {match p with | some p => s!"{p.chunk} {p.off}" | none => "?"}" obs
    | _ => check s' lineno "meta" "?" obs
  | ["flush"] => return (runOp s .flush).1
  | ["hintdump"] => return (runOp s .hintDump).1
  | ["hintmerge"] => return (runOp s .hintMerge).1
  | ["restart", kt] =>
    if obs != "OK" then report s lineno "restart" "OK" obs else
    return (runOp s (.reopen (kt == "keeptree=1"))).1
  | "gc" :: rest =>
    let fts := match kvOpt rest "firstts" with
      | some v => (v.splitOn ",").filterMap fun e => match e.splitOn ":" with
          | [c, t] => some (c.toNat!, t.toNat!)
          | _ => none
      | none => []
    let st := { s.st with b := patchFirstTs s.st.b fts }
    let g : GcArgs := { start := kvInt rest "begin", stop := kvInt rest "end", noGCDays := kvInt rest "nogcdays", now := kvInt rest "now" }
    let r := st.gcOp s.hash s.cfg g (kvNat rest "merge" == 1)
    let s' := { s with st := r.1, ops := s.ops + 1, trk := none }
    match r.2 with
    | none => check s' lineno "gc" "REFUSED" obs
    | some (b, e, stats) =>
      check s' lineno "gc" s!"RANGE {b} {e} DONE ok before={stats.numBefore} released={stats.numReleased}" obs
  | ["files"] => check s lineno "files" (filesOfModel s.st.b) (if obs.isEmpty then "" else " " ++ obs)
  | ["ct"] => check s lineno "ct" (ctLine s.st.ct) obs
  | ["hints"] =>
    let m := hintsLine s.st
    if m == obs then return { s with checks := s.checks + 1 } else
    -- same split files under other split numbers: the data race of Bucket.open (the background hint check read
    -- bkt.TreeID after dumpHtree had changed it and loaded the chunks below it a second time)
    let strip := fun (l : String) => (l.splitOn " ").map fun e => match e.splitOn ":" with
      | id :: rest => ((id.splitOn ".").getD 0 "") ++ ":" ++ ":".intercalate rest
      | [] => e
    if strip m == strip obs then do
      IO.println s!"RACE-OPEN case={s.caseId} line={lineno}: split files renumbered (hint chunks loaded twice); rest of the case skipped"
      return { s with dead := true, races := s.races + 1 }
    else report s lineno "hints" m obs
  | ["mem"] =>
    let keys := (obs.splitOn ",").map fun e => unhex ((e.splitOn "=").getD 0 "")
    check s lineno "mem" (memLine s keys) obs
  | ["end"] => return s
  | _ => report s lineno "unparsed" "" line

partial def loop (h : IO.FS.Stream) (s : Sim) (lineno : Nat) : IO Sim := do
  let line ← h.getLine
  if line.isEmpty then return s
  let line := if line.endsWith "\n" then line.dropRight 1 else line
  let s ← processLine s lineno line
  loop h s (lineno + 1)

def main (args : List String) : IO UInt32 := do
  match args with
  | [path] =>
    let h ← IO.FS.Handle.mk path .read
    let s ← loop (IO.FS.Stream.ofHandle h) {} 1
    IO.println s!"cases={s.cases} cases-with-diff={s.badCases} operations-replayed={s.ops} on-colliding-keys={s.collOps} comparisons-ok={s.checks} diffs={s.diffs} open-race-cases={s.races} | client ops inside SafeR prefixes: {s.safeOps}, deviating from the reference there: {s.safeDev} | model replies deviating from the reference map: {s.specDev} (in {s.devCases} cases)"
    return (if s.diffs == 0 then 0 else 1)
  | _ =>
    IO.eprintln "usage: CollideCheck trace.txt"
    return 2
